package main

// C01 workload generators. Every case is a complete project (file set) plus an execution mode,
// determined by (tier, seed, family, index) alone so that parent and worker processes regenerate
// the same case independently.

import (
	"bytes"
	"fmt"
	"os"
	"path/filepath"
	"regexp"
	"sort"
	"strconv"
	"strings"
	"sync"

	"gopkg.in/yaml.v3"
)

type c01Case struct {
	Files   map[string]string `json:"files"`
	Special map[string]string `json:"special,omitempty"` // path -> fifo | dir | symlink:<target>
	NoRepo  bool              `json:"no_repo,omitempty"` // the files are outside any repository (no .git)
	Mode    string            `json:"mode"`              // lib-file | lib-files | lib-content | cli
	Tool    bool              `json:"tool"`              // external tools enabled (fake tool)
	Desc    string            `json:"desc"`
	Skip    bool              `json:"-"`
}

type c01Family struct {
	Name string
	N    int
	Gen  func(r *Rand, idx int) c01Case
}

// c01MaxFile bounds every hostile file (the property quantifies over bounded inputs, "e.g. <= 64 KiB").
// Exception: the tool-scripts family, whose point is scripts larger than a pipe buffer.
const c01MaxFile = 64 * 1024

const (
	c01PathWorkflow = ".github/workflows/w.yml"
	c01PathReusable = ".github/workflows/reusable.yml"
	c01PathAction   = "act/action.yml"
	c01PathConfig   = ".github/actionlint.yaml"
)

func c01BaseFiles() map[string]string {
	return map[string]string{
		c01PathWorkflow: c01Workflow,
		c01PathReusable: c01Reusable,
		c01PathAction:   c01Action,
		c01PathConfig:   c01Config,
	}
}

var c01Channels = []string{c01PathWorkflow, c01PathAction, c01PathReusable, c01PathConfig}

func c01ChannelName(p string) string {
	switch p {
	case c01PathWorkflow:
		return "workflow"
	case c01PathAction:
		return "action"
	case c01PathReusable:
		return "reusable"
	case c01PathConfig:
		return "config"
	}
	return p
}

func c01ModeFor(idx int) string {
	switch {
	case idx%20 == 7:
		return "cli"
	case idx%40 == 13:
		return "cli-stdin"
	case idx%10 == 1:
		return "lib-files"
	case idx%10 == 2:
		return "lib-content"
	}
	return "lib-file"
}

// ---------------------------------------------------------------------------
// kind x tag x position matrix

type c01Variant struct {
	name string
	make func() *yaml.Node
}

func c01Scalar(tag, val string) *yaml.Node {
	n := &yaml.Node{Kind: yaml.ScalarNode, Value: val}
	if tag != "" {
		n.Tag = tag
		n.Style = yaml.TaggedStyle
	}
	return n
}

func c01Seq(items ...*yaml.Node) *yaml.Node {
	return &yaml.Node{Kind: yaml.SequenceNode, Tag: "!!seq", Content: items}
}

func c01Map(kv ...*yaml.Node) *yaml.Node {
	return &yaml.Node{Kind: yaml.MappingNode, Tag: "!!map", Content: kv}
}

func c01Deep(kind yaml.Kind, depth int) *yaml.Node {
	leaf := c01Scalar("", "x")
	cur := leaf
	for i := 0; i < depth; i++ {
		if kind == yaml.SequenceNode {
			cur = c01Seq(cur)
		} else {
			cur = c01Map(c01Scalar("", "k"), cur)
		}
	}
	return cur
}

var c01Tags = []string{"!!float", "!!int", "!!bool", "!!null", "!!str", "!!binary", "!!timestamp", "!!merge", "!custom", "!!map", "!!seq"}
var c01TagTexts = []string{"nan", ".nan", "inf", "-.inf", "0x", "1e999", "", "99999999999999999999", "maybe", "~", "${{ x }}", "2001-12-14", "true", "-0", "0o17", "1_000"}

var c01VariantsOnce sync.Once
var c01VariantList []c01Variant

func c01Variants() []c01Variant {
	c01VariantsOnce.Do(func() {
		var vs []c01Variant
		for _, t := range c01Tags {
			for _, x := range c01TagTexts {
				t, x := t, x
				vs = append(vs, c01Variant{fmt.Sprintf("tag:%s:%q", t, x), func() *yaml.Node { return c01Scalar(t, x) }})
			}
		}
		add := func(name string, f func() *yaml.Node) { vs = append(vs, c01Variant{name, f}) }
		add("seq:empty", func() *yaml.Node { return c01Seq() })
		add("seq:scalar", func() *yaml.Node { return c01Seq(c01Scalar("", "a")) })
		add("seq:seq", func() *yaml.Node { return c01Seq(c01Seq(c01Scalar("", "a"))) })
		add("seq:map", func() *yaml.Node { return c01Seq(c01Map(c01Scalar("", "a"), c01Scalar("", "b"))) })
		add("seq:null", func() *yaml.Node { return c01Seq(c01Scalar("!!null", "")) })
		add("seq:mixed", func() *yaml.Node {
			return c01Seq(c01Scalar("", "a"), c01Seq(), c01Map(), c01Scalar("!!null", "~"), c01Scalar("", "1"))
		})
		add("map:empty", func() *yaml.Node { return c01Map() })
		add("map:scalar", func() *yaml.Node { return c01Map(c01Scalar("", "a"), c01Scalar("", "b")) })
		add("map:map", func() *yaml.Node {
			return c01Map(c01Scalar("", "a"), c01Map(c01Scalar("", "b"), c01Scalar("", "c")))
		})
		add("map:nullvalue", func() *yaml.Node { return c01Map(c01Scalar("", "a"), c01Scalar("!!null", "")) })
		add("map:nullkey", func() *yaml.Node { return c01Map(c01Scalar("!!null", "~"), c01Scalar("", "b")) })
		add("map:seqkey", func() *yaml.Node { return c01Map(c01Seq(c01Scalar("", "k")), c01Scalar("", "b")) })
		add("map:mapkey", func() *yaml.Node {
			return c01Map(c01Map(c01Scalar("", "k"), c01Scalar("", "v")), c01Scalar("", "b"))
		})
		add("map:dupkeys", func() *yaml.Node {
			return c01Map(c01Scalar("", "a"), c01Scalar("", "1"), c01Scalar("", "A"), c01Scalar("", "2"), c01Scalar("", "a"), c01Scalar("", "3"))
		})
		add("map:exprkey", func() *yaml.Node { return c01Map(c01Scalar("", "${{ x }}"), c01Scalar("", "${{ y. }}")) })
		add("scalar:null-tilde", func() *yaml.Node { return c01Scalar("!!null", "~") })
		add("scalar:null-empty", func() *yaml.Node { return &yaml.Node{Kind: yaml.ScalarNode, Tag: "!!null", Value: ""} })
		add("scalar:emptystr", func() *yaml.Node {
			return &yaml.Node{Kind: yaml.ScalarNode, Tag: "!!str", Value: "", Style: yaml.DoubleQuotedStyle}
		})
		add("scalar:int", func() *yaml.Node { return c01Scalar("", "1") })
		add("scalar:negint", func() *yaml.Node { return c01Scalar("", "-1") })
		add("scalar:bigint", func() *yaml.Node { return c01Scalar("", "123456789012345678901234567890") })
		add("scalar:float", func() *yaml.Node { return c01Scalar("", "1.5") })
		add("scalar:nanplain", func() *yaml.Node { return c01Scalar("", ".nan") })
		add("scalar:infplain", func() *yaml.Node { return c01Scalar("", "-.inf") })
		add("scalar:bool", func() *yaml.Node { return c01Scalar("", "true") })
		add("scalar:str", func() *yaml.Node { return c01Scalar("", "foo") })
		add("scalar:expr", func() *yaml.Node { return c01Scalar("", "${{ github.ref }}") })
		add("scalar:badexpr", func() *yaml.Node { return c01Scalar("", "${{ github. }}") })
		add("scalar:unclosed", func() *yaml.Node { return c01Scalar("", "${{ a") })
		add("scalar:literal-multiline", func() *yaml.Node {
			return &yaml.Node{Kind: yaml.ScalarNode, Tag: "!!str", Value: "a\n\n${{ b. }}\nc\n", Style: yaml.LiteralStyle}
		})
		add("scalar:folded-multiline", func() *yaml.Node {
			return &yaml.Node{Kind: yaml.ScalarNode, Tag: "!!str", Value: "a\n  ${{ b }}\n\nc", Style: yaml.FoldedStyle}
		})
		add("scalar:dq-escapes", func() *yaml.Node {
			return &yaml.Node{Kind: yaml.ScalarNode, Tag: "!!str", Value: "a\tb\x00c\n${{ d. }}\r\u2028é", Style: yaml.DoubleQuotedStyle}
		})
		add("scalar:sq", func() *yaml.Node {
			return &yaml.Node{Kind: yaml.ScalarNode, Tag: "!!str", Value: "it's ${{ 'x' }}", Style: yaml.SingleQuotedStyle}
		})
		add("alias:scalar", func() *yaml.Node { return &yaml.Node{Kind: yaml.AliasNode, Value: "as"} })
		add("alias:seq", func() *yaml.Node { return &yaml.Node{Kind: yaml.AliasNode, Value: "aq"} })
		add("alias:map", func() *yaml.Node { return &yaml.Node{Kind: yaml.AliasNode, Value: "am"} })
		add("merge:map", func() *yaml.Node {
			return c01Map(&yaml.Node{Kind: yaml.ScalarNode, Tag: "!!merge", Value: "<<"}, &yaml.Node{Kind: yaml.AliasNode, Value: "am"}, c01Scalar("", "z"), c01Scalar("", "1"))
		})
		add("merge:seqofmaps", func() *yaml.Node {
			return c01Map(&yaml.Node{Kind: yaml.ScalarNode, Tag: "!!merge", Value: "<<"}, c01Seq(&yaml.Node{Kind: yaml.AliasNode, Value: "am"}, &yaml.Node{Kind: yaml.AliasNode, Value: "am"}))
		})
		add("merge:scalar", func() *yaml.Node {
			return c01Map(&yaml.Node{Kind: yaml.ScalarNode, Tag: "!!merge", Value: "<<"}, c01Scalar("", "notamap"))
		})
		for _, d := range []int{2, 10, 60, 200} {
			d := d
			add(fmt.Sprintf("deep:seq:%d", d), func() *yaml.Node { return c01Deep(yaml.SequenceNode, d) })
			add(fmt.Sprintf("deep:map:%d", d), func() *yaml.Node { return c01Deep(yaml.MappingNode, d) })
		}
		c01VariantList = vs
	})
	return c01VariantList
}

// c01Nodes lists all nodes below the document node in depth-first order.
func c01Nodes(doc *yaml.Node) []*yaml.Node {
	var out []*yaml.Node
	var walk func(n *yaml.Node)
	walk = func(n *yaml.Node) {
		out = append(out, n)
		for _, c := range n.Content {
			walk(c)
		}
	}
	for _, c := range doc.Content {
		walk(c)
	}
	return out
}

func c01ParseDoc(src string) *yaml.Node {
	var doc yaml.Node
	if err := yaml.Unmarshal([]byte(src), &doc); err != nil {
		panic("harness template does not parse: " + err.Error())
	}
	return &doc
}

// c01AnchorsKey prepends a key holding anchored nodes to the top-level mapping so that alias
// variants have something to refer to.
func c01AddAnchors(doc *yaml.Node) (as, aq, am *yaml.Node) {
	top := doc.Content[0]
	as = &yaml.Node{Kind: yaml.ScalarNode, Tag: "!!str", Value: "anchored", Anchor: "as"}
	aq = &yaml.Node{Kind: yaml.SequenceNode, Tag: "!!seq", Anchor: "aq", Content: []*yaml.Node{c01Scalar("", "q1"), c01Scalar("", "q2")}}
	am = &yaml.Node{Kind: yaml.MappingNode, Tag: "!!map", Anchor: "am", Content: []*yaml.Node{c01Scalar("", "mk"), c01Scalar("", "mv")}}
	if top.Kind == yaml.MappingNode {
		top.Content = append([]*yaml.Node{c01Scalar("", "x-anchors"), c01Seq(as, aq, am)}, top.Content...)
	}
	return
}

func c01FixAliases(n *yaml.Node, as, aq, am *yaml.Node) {
	if n.Kind == yaml.AliasNode && n.Alias == nil {
		switch n.Value {
		case "as":
			n.Alias = as
		case "aq":
			n.Alias = aq
		case "am":
			n.Alias = am
		}
	}
	for _, c := range n.Content {
		c01FixAliases(c, as, aq, am)
	}
}

// c01NTagVariants is the number of leading entries of c01Variants() that are tag x text scalars.
func c01NTagVariants() int { return len(c01Tags) * len(c01TagTexts) }

// quickTagsPerPos: in the quick tier every position gets all kind/alias/merge/deep variants but only
// a rotating window of the tag x text scalars (the window start depends on the position, so that all
// combinations are used across the positions of a template). The thorough tier is the full product.
const c01QuickTagsPerPos = 16

func c01MatrixFamily(channel, template, famName string, thorough bool) *c01Family {
	npos := len(c01Nodes(c01ParseDoc(template)))
	vs := c01Variants()
	ntag := c01NTagVariants()
	per := len(vs)
	if !thorough {
		per = len(vs) - ntag + c01QuickTagsPerPos
	}
	return &c01Family{Name: famName, N: npos * per, Gen: func(r *Rand, idx int) c01Case {
		pos, k := idx/per, idx%per
		vi := k
		if !thorough {
			if k < c01QuickTagsPerPos {
				vi = (pos*c01QuickTagsPerPos + k*11) % ntag
			} else {
				vi = ntag + (k - c01QuickTagsPerPos)
			}
		}
		doc := c01ParseDoc(template)
		nodes := c01Nodes(doc) // positions are computed before the anchors key is added
		as, aq, am := c01AddAnchors(doc)
		v := vs[vi].make()
		c01FixAliases(v, as, aq, am)
		target := nodes[pos]
		*target = *v
		target.Anchor = ""
		var buf bytes.Buffer
		enc := yaml.NewEncoder(&buf)
		enc.SetIndent(2)
		var out string
		func() {
			defer func() {
				if p := recover(); p != nil {
					out = ""
				}
			}()
			if err := enc.Encode(doc); err != nil {
				return
			}
			enc.Close()
			out = buf.String()
		}()
		c := c01Case{Files: c01BaseFiles(), Mode: c01ModeFor(idx), Desc: fmt.Sprintf("%s position %d/%d variant %s", c01ChannelName(channel), pos, npos, vs[vi].name)}
		if out == "" {
			c.Skip = true
			return c
		}
		c.Files[channel] = out
		return c
	}}
}

// ---------------------------------------------------------------------------
// corpus

var c01CorpusOnce sync.Once
var c01CorpusWorkflows []string
var c01CorpusActions []string
var c01CorpusConfigs []string

func c01LoadCorpus() {
	c01CorpusOnce.Do(func() {
		root := filepath.Join(repoDir(), "testdata")
		add := func(dst *[]string, glob string) {
			ms, _ := filepath.Glob(filepath.Join(root, glob))
			sort.Strings(ms)
			for _, m := range ms {
				if b, err := os.ReadFile(m); err == nil && len(b) < 64*1024 {
					*dst = append(*dst, string(b))
				}
			}
		}
		add(&c01CorpusWorkflows, "ok/*.yaml")
		add(&c01CorpusWorkflows, "err/*.yaml")
		add(&c01CorpusWorkflows, "examples/*.yaml")
		add(&c01CorpusWorkflows, "projects/*/workflows/*.yaml")
		add(&c01CorpusWorkflows, "projects/*/workflows/*.yml")
		add(&c01CorpusWorkflows, "projects/*/.github/workflows/*.yaml")
		add(&c01CorpusWorkflows, "projects/*/.github/workflows/*.yml")
		c01CorpusWorkflows = append(c01CorpusWorkflows, c01Workflow, c01Reusable)
		add(&c01CorpusActions, "action_metadata/*/action.y*ml")
		add(&c01CorpusActions, "projects/*/*/action.y*ml")
		add(&c01CorpusActions, "projects/*/*/*/action.y*ml")
		c01CorpusActions = append(c01CorpusActions, c01Action, c01ActionDocker, c01ActionNode)
		add(&c01CorpusConfigs, "config/*.yml")
		add(&c01CorpusConfigs, "config/projects/*/.github/actionlint.y*ml")
		add(&c01CorpusConfigs, "projects/*/.github/actionlint.y*ml")
		c01CorpusConfigs = append(c01CorpusConfigs, c01Config)
	})
}

var c01HostileBytes = []string{"\x00", "\xff", "\xfe\xff", "\xef\xbb\xbf", "\t", "\r", "\r\n", "&", "*", "!", "!!", "{", "}", "[", "]", "%", "|", ">", "$", "${{", "}}", "'", "\"", ":", ": ", "#", "-", "- ", "\n", "\n\n", "?", "? ", "<<: ", "&a ", "*a", "---\n", "...\n", "@", "`", "\\", "\xc3", "\xe2\x80\xa8", "\u0085", "~", "=", ","}

func c01MutateBytes(r *Rand, src string, other string) string {
	b := []byte(src)
	nops := r.Range(1, 4)
	for k := 0; k < nops; k++ {
		if len(b) == 0 {
			b = []byte("a: b\n")
		}
		switch r.Intn(12) {
		case 0: // bit flip
			i := r.Intn(len(b))
			b[i] ^= 1 << uint(r.Intn(8))
		case 1: // replace byte with hostile fragment
			i := r.Intn(len(b))
			h := r.Pick(c01HostileBytes)
			b = append(b[:i:i], append([]byte(h), b[i+1:]...)...)
		case 2: // insert hostile fragment
			i := r.Intn(len(b) + 1)
			h := r.Pick(c01HostileBytes)
			b = append(b[:i:i], append([]byte(h), b[i:]...)...)
		case 3: // delete range
			i := r.Intn(len(b))
			j := i + r.Intn(min(len(b)-i, 40)+1)
			b = append(b[:i:i], b[j:]...)
		case 4: // duplicate range
			i := r.Intn(len(b))
			j := i + r.Intn(min(len(b)-i, 80)+1)
			seg := append([]byte{}, b[i:j]...)
			b = append(b[:j:j], append(seg, b[j:]...)...)
		case 5: // splice from another file
			if len(other) > 0 {
				i := r.Intn(len(b) + 1)
				o := r.Intn(len(other))
				p := o + r.Intn(min(len(other)-o, 200)+1)
				b = append(b[:i:i], append([]byte(other[o:p]), b[i:]...)...)
			}
		case 6: // truncate
			b = b[:r.Intn(len(b)+1)]
		case 7: // CRLF
			b = bytes.ReplaceAll(b, []byte("\n"), []byte("\r\n"))
		case 8: // change indentation of one line
			lines := bytes.Split(b, []byte("\n"))
			i := r.Intn(len(lines))
			if r.Bool() {
				lines[i] = append([]byte(strings.Repeat(" ", r.Range(1, 5))), lines[i]...)
			} else {
				lines[i] = bytes.TrimLeft(lines[i], " ")
			}
			b = bytes.Join(lines, []byte("\n"))
		case 9: // swap two lines
			lines := bytes.Split(b, []byte("\n"))
			i, j := r.Intn(len(lines)), r.Intn(len(lines))
			lines[i], lines[j] = lines[j], lines[i]
			b = bytes.Join(lines, []byte("\n"))
		case 10: // replace a scalar-looking run with a placeholder
			i := r.Intn(len(b))
			j := i
			for j < len(b) && b[j] != '\n' && j-i < 30 {
				j++
			}
			ph := r.Pick([]string{"${{ a. }}", "${{", "${{ '", "${{ a[ }}", "${{ !!!! }}", "${{ (((( }}", "${{ 0x }}"})
			b = append(b[:i:i], append([]byte(ph), b[j:]...)...)
		case 11: // very long line
			i := r.Intn(len(b) + 1)
			n := []int{100, 5000, 60000}[r.Intn(3)]
			b = append(b[:i:i], append(bytes.Repeat([]byte(r.Pick([]string{"a", "é", " ", "${{ x }} ", "[", "- "})), n), b[i:]...)...)
		}
	}
	if len(b) > c01MaxFile {
		b = b[:c01MaxFile]
	}
	return string(b)
}

func c01BytesFamily(n int) *c01Family {
	return &c01Family{Name: "bytes-mutation", N: n, Gen: func(r *Rand, idx int) c01Case {
		c01LoadCorpus()
		c := c01Case{Files: c01BaseFiles(), Mode: c01ModeFor(idx)}
		var corpus []string
		ch := c01PathWorkflow
		switch x := r.Intn(20); {
		case x < 11:
			corpus = c01CorpusWorkflows
		case x < 14:
			ch, corpus = c01PathAction, c01CorpusActions
		case x < 17:
			ch, corpus = c01PathReusable, c01CorpusWorkflows
		default:
			ch, corpus = c01PathConfig, c01CorpusConfigs
		}
		base := corpus[r.Intn(len(corpus))]
		other := corpus[r.Intn(len(corpus))]
		c.Files[ch] = c01MutateBytes(r, base, other)
		c.Desc = "byte mutation on channel " + c01ChannelName(ch)
		return c
	}}
}

// ---------------------------------------------------------------------------
// expression fuzz

var c01ExprTokens = []string{"a", "github", "steps", "matrix", "needs", "inputs", "secrets", "env", "vars", "job", "runner", "strategy", "jobs",
	".", ".*", "[", "]", "(", ")", ",", "!", "==", "!=", "<", "<=", ">", ">=", "&&", "||", "'x'", "''", "'it''s'", "1", "0", "-1", "1.5", "0x1f", "1e3", "-0", "true", "false", "null",
	"format", "contains", "startsWith", "endsWith", "join", "toJSON", "fromJSON", "hashFiles", "success", "always", "cancelled", "failure",
	"event", "ref", "outputs", "result", "os", " ", "  ", "\t", "\n", "}}", "${{", "'", "\"", "&", "|", "=", "-", "+", "*", "/", "%", "^", "~", "`", "#", "@", "$", "\\", ";", ":", "?", "{", "}", "é", "\x00", "0x", "1e", "1.", ".5", "00", "1e+5", "NaN", "Infinity", "'{0}'", "'{'", "'{0'", "'{{0}}'", "'}{'", "'{-1}'", "'{99999999999999999999}'", "'[1,2'", "'{\"a\":'", "'{\"A\": {\"b\": [1]}}'"}

func c01GenExpr(r *Rand, depth int) string {
	if depth <= 0 {
		return r.Pick([]string{"github.ref", "1", "'s'", "true", "null", "matrix.x", "steps.a.outputs.b", "needs", "env.A", "0x1", "github['ref']", "github.event.*.x"})
	}
	switch r.Intn(14) {
	case 0:
		return "(" + c01GenExpr(r, depth-1) + ")"
	case 1:
		return "!" + c01GenExpr(r, depth-1)
	case 2:
		return c01GenExpr(r, depth-1) + " " + r.Pick([]string{"==", "!=", "<", "<=", ">", ">=", "&&", "||"}) + " " + c01GenExpr(r, depth-1)
	case 3:
		return c01GenExpr(r, depth-1) + "[" + c01GenExpr(r, depth-1) + "]"
	case 4:
		return c01GenExpr(r, depth-1) + "." + r.Pick([]string{"x", "outputs", "*", "event", "result"})
	case 5:
		n := r.Intn(4)
		args := make([]string, n)
		for i := range args {
			args[i] = c01GenExpr(r, depth-1)
		}
		return r.Pick([]string{"format", "contains", "startsWith", "endsWith", "join", "toJSON", "fromJSON", "hashFiles", "success", "always", "cancelled", "failure", "unknownFn", "FORMAT"}) + "(" + strings.Join(args, ", ") + ")"
	case 6:
		return "format('" + r.Pick([]string{"{0}", "{0} {1}", "{1}", "{", "}", "{{0}}", "{0", "0}", "{a}", "{00}", "{-1}", "{0}{0}{2}", "{ 0 }", "{99999999999999999999999}"}) + "', " + c01GenExpr(r, depth-1) + ")"
	case 7:
		return "fromJSON('" + r.Pick([]string{"{}", "[]", "{\"a\":1}", "{\"a\":{\"b\":[1,{\"c\":null}]}}", "[1,2", "{", "nul", "\"s\"", "1e999", "{\"a\":1,\"A\":2}", "[[[[[[[[[[[[]]]]]]]]]]]]", "{\"\":1}", "\\u00", "tru", "-", "{\"a\" 1}"}) + "')" + r.Pick([]string{"", ".a", "[0]", ".a.b[1].c", ".*", "['a']"})
	case 8:
		return c01GenExpr(r, depth-1) + r.Pick(c01ExprTokens)
	case 9:
		return r.Pick(c01ExprTokens) + c01GenExpr(r, depth-1)
	default:
		return c01GenExpr(r, depth-1)
	}
}

func c01GenExprText(r *Rand) string {
	switch r.Intn(10) {
	case 0, 1, 2: // token soup
		n := r.Range(1, 14)
		var sb strings.Builder
		for i := 0; i < n; i++ {
			sb.WriteString(r.Pick(c01ExprTokens))
			if r.Chance(1, 3) {
				sb.WriteByte(' ')
			}
		}
		return sb.String()
	case 3: // deep nesting
		d := []int{5, 40, 300, 1500}[r.Intn(4)]
		open, inner, close := "(", "a", ")"
		switch r.Intn(6) {
		case 0:
			open, close = "!", ""
		case 1:
			open, close = "a[", "]"
		case 2:
			open, close = "format(", ")"
		case 3:
			open, inner, close = "a.", "b", ""
		case 4:
			open, inner, close = "a && ", "b", ""
		}
		if r.Chance(1, 4) { // unbalanced
			return strings.Repeat(open, d) + inner
		}
		return strings.Repeat(open, d) + inner + strings.Repeat(close, d)
	case 4: // mutated grammar sentence: delete / duplicate a chunk
		s := c01GenExpr(r, r.Range(1, 5))
		if len(s) > 2 {
			i := r.Intn(len(s))
			j := i + r.Intn(len(s)-i)
			if r.Bool() {
				s = s[:i] + s[j:]
			} else {
				s = s[:j] + s[i:j] + s[j:]
			}
		}
		return s
	default:
		return c01GenExpr(r, r.Range(1, 6))
	}
}

// yaml double-quoted encoding of arbitrary bytes
func c01DQ(s string) string { return strconv.Quote(s) }

var c01ExprPositions = []string{
	"run", "if-bare", "if-wrapped", "env", "with", "runs-on", "matrix-row", "matrix-whole", "name", "job-if", "timeout", "continue", "container-image", "environment-url",
	"concurrency", "uses-with-script", "job-outputs", "call-with", "call-secrets", "wc-output-value", "wc-input-default", "working-directory", "shell", "services-ports", "include-elem", "run-name", "strategy", "max-parallel", "fail-fast", "container-whole", "env-whole", "step-id",
}

// c01ExprWorkflow places the text x at a named position. Text is embedded in double quoted
// style so that every byte sequence is representable.
func c01ExprWorkflow(pos, x string) string {
	ph := c01DQ("${{ " + x + " }}")
	bare := c01DQ(x)
	pre := "on:\n  push:\n  workflow_call:\n    inputs:\n      i1:\n        type: string\n        default: " + pick(pos == "wc-input-default", ph, "d") + "\n    outputs:\n      o1:\n        value: " + pick(pos == "wc-output-value", ph, "v") + "\n"
	if pos == "run-name" {
		pre = "run-name: " + ph + "\n" + pre
	}
	if pos == "env-whole" {
		pre += "env: " + ph + "\n"
	}
	if pos == "concurrency" {
		pre += "concurrency:\n  group: " + ph + "\n  cancel-in-progress: " + ph + "\n"
	}
	var b strings.Builder
	b.WriteString(pre)
	b.WriteString("jobs:\n  j1:\n")
	b.WriteString("    runs-on: " + pick(pos == "runs-on", ph, "ubuntu-latest") + "\n")
	switch pos {
	case "job-if":
		b.WriteString("    if: " + bare + "\n")
	case "name":
		b.WriteString("    name: " + ph + "\n")
	case "timeout":
		b.WriteString("    timeout-minutes: " + ph + "\n")
	case "continue":
		b.WriteString("    continue-on-error: " + ph + "\n")
	case "container-image":
		b.WriteString("    container:\n      image: " + ph + "\n      credentials:\n        username: " + ph + "\n        password: " + ph + "\n      env:\n        A: " + ph + "\n      options: " + ph + "\n")
	case "container-whole":
		b.WriteString("    container: " + ph + "\n")
	case "services-ports":
		b.WriteString("    services:\n      s:\n        image: " + ph + "\n        ports: [" + ph + "]\n        volumes: [" + ph + "]\n")
	case "environment-url":
		b.WriteString("    environment:\n      name: " + ph + "\n      url: " + ph + "\n")
	case "job-outputs":
		b.WriteString("    outputs:\n      o: " + ph + "\n")
	case "matrix-row":
		b.WriteString("    strategy:\n      matrix:\n        x: [1, " + ph + "]\n        y: " + ph + "\n")
	case "matrix-whole":
		b.WriteString("    strategy:\n      matrix: " + ph + "\n")
	case "include-elem":
		b.WriteString("    strategy:\n      matrix:\n        x: [1]\n        include:\n          - " + ph + "\n          - x: " + ph + "\n        exclude: " + ph + "\n")
	case "strategy":
		b.WriteString("    strategy: " + ph + "\n")
	case "max-parallel":
		b.WriteString("    strategy:\n      max-parallel: " + ph + "\n      matrix:\n        x: [1]\n")
	case "fail-fast":
		b.WriteString("    strategy:\n      fail-fast: " + ph + "\n      matrix:\n        x: [1]\n")
	}
	b.WriteString("    steps:\n")
	switch pos {
	case "run":
		b.WriteString("      - run: " + c01DQ("echo ${{ "+x+" }} and ${{ github.sha }}") + "\n")
	case "if-bare":
		b.WriteString("      - run: echo\n        if: " + bare + "\n")
	case "if-wrapped":
		b.WriteString("      - run: echo\n        if: " + ph + "\n")
	case "env":
		b.WriteString("      - run: echo\n        env:\n          A: " + ph + "\n")
	case "with":
		b.WriteString("      - uses: actions/checkout@v4\n        with:\n          ref: " + ph + "\n")
	case "uses-with-script":
		b.WriteString("      - uses: actions/github-script@v7\n        with:\n          script: " + ph + "\n")
	case "working-directory":
		b.WriteString("      - run: echo\n        working-directory: " + ph + "\n")
	case "shell":
		b.WriteString("      - run: echo\n        shell: " + ph + "\n")
	case "step-id":
		b.WriteString("      - run: echo\n        id: " + ph + "\n        name: " + ph + "\n")
	default:
		b.WriteString("      - run: echo\n")
	}
	if pos == "call-with" || pos == "call-secrets" {
		b.WriteString("  j2:\n    uses: ./.github/workflows/reusable.yml\n    with:\n      name: " + pick(pos == "call-with", ph, "n") + "\n    secrets:\n      token: " + pick(pos == "call-secrets", ph, "t") + "\n")
	}
	return b.String()
}

func pick(c bool, a, b string) string {
	if c {
		return a
	}
	return b
}

func c01ExprFamily(n int) *c01Family {
	return &c01Family{Name: "expr-fuzz", N: n, Gen: func(r *Rand, idx int) c01Case {
		x := c01GenExprText(r)
		pos := c01ExprPositions[idx%len(c01ExprPositions)]
		c := c01Case{Files: c01BaseFiles(), Mode: c01ModeFor(idx), Desc: "expression " + strconv.Quote(truncate(x, 200)) + " at " + pos}
		c.Files[c01PathWorkflow] = c01ExprWorkflow(pos, x)
		return c
	}}
}

// ---------------------------------------------------------------------------
// hostile strings at positions that parse their value

var c01StringPositions = []string{"branches", "tags", "paths", "branches-ignore", "cron", "shell", "uses", "image", "label", "permission-scope", "permission-value", "job-id", "step-id", "env-key", "input-name", "needs", "types", "event-name", "working-directory", "credentials", "docker-args", "dispatch-type", "matrix-key", "output-name", "secret-name", "config-label", "config-var", "config-path", "config-ignore", "action-using", "action-input", "action-branding", "action-docker-image", "action-composite-step", "run-script"}

var c01StringAlphabet = []string{"a", "z", "A", "0", "9", "*", "**", "?", "+", "[", "]", "[a-z]", "[z-a]", "[]", "[!", "-", "!", "\\", "/", ".", "..", " ", "~", "^", ":", "@", "@{", "\n", "\r", "\t", "\x00", "\x7f", "é", "日本", "\xff", "'", "\"", "$", "${{", "}}", "{", "}", "#", "%", "&", "|", ",", ";", "=", "<", ">", "(", ")", "`", "_", "--", "//", "./", "../", "docker://", "@v1", "@", "*/5", "0 0 * * *", "@daily", "@every 1s", "60", "-1", "1-", "1/0", "JAN", "?", "L", "bash", "pwsh {0}", "python", "{0}", "ubuntu-latest", "self-hosted", "windows-", "read", "write", "none", "read-all", "contents"}

// c01PositionStrings are hostile values that are specific to one position (formats that take a
// different code path than arbitrary text).
var c01PositionStrings = map[string][]string{
	"uses":                {"./foo.yml@v1", "./@", "./a@", "./.github/workflows/reusable.yml@main", "./act@v1", "docker://", "docker://:", "docker://a:b:c", "owner/repo@", "owner/repo/path@", "@", "a/b", "./", ".", "./..", "./act/", "./act/../act", "././act", "./.github/workflows/../workflows/reusable.yml", "owner/repo/.github/workflows/w.yml@v1", "owner/repo/.github/workflows/w.yml@", "./.github/workflows/reusable.yml/"},
	"image":               {"docker://", "a:b:c", ":", "@sha256:", "${{"},
	"action-docker-image": {"docker://", "docker://a", "Dockerfile", "dockerfile", "ghcr.io/", "gcr.io/", "gcr.io/a", "pkg.dev/", "docker.io/", "x.pkg.dev/a", "ghcr.io/a:b", "docker://:", "./Dockerfile", "../Dockerfile", "Dockerfile.x"},
	"cron":                {"0 0 30 2 *", "0 0 31 4 *", "* * * * * *", "@yearly", "*/0 * * * *", "60 * * * *", "0-59/1000 * * * *", "TZ=UTC * * * * *", "CRON_TZ=x * * * * *"},
	"shell":               {"bash {0}", "{0}", "python {0}", "bash -e {0} {1}", "pwsh -command \". '{0}'\""},
	"needs":               {"j1", "J1", ""},
	"run-script":          c01RunScriptStrings(),
	"job-id":              {"__proto__", "constructor", "toString"},
}

// c01RunScriptStrings: texts which the rules looking INTO run: scripts react to (workflow commands,
// placeholders, shell syntax), each name in lower, upper and mixed letter case.
func c01RunScriptStrings() []string {
	var out []string
	for _, cmd := range []string{"set-output", "save-state", "set-env", "add-path", "error", "group"} {
		for _, v := range []string{cmd, strings.ToUpper(cmd), strings.ToUpper(cmd[:1]) + cmd[1:], cmd[:2] + strings.ToUpper(cmd[2:3]) + cmd[3:]} {
			out = append(out, "echo '::"+v+" name=foo::bar'", "echo \"::"+v+"::/x\"", "::"+v+" name=a::", "echo ::"+v+" name=${{ github.sha }}::${{ x }}")
		}
	}
	out = append(out, "echo ${{ github.event.issue.title }}", "echo ${{", "echo }} ${{ x }}", "echo $(( 1 + 1 )) ${A:-${B}}", "::", "::::", ":: ::", "::set-output", "::set-output ::", "echo '::set-output name=a::b' && echo '::SET-OUTPUT name=a::b'")
	return out
}

// c01Dict: string literals of the repository's own non-test sources (read at check time), used
// like a fuzzing dictionary: values that are compared against such literals ("docker://",
// "ghcr.io/", "self-hosted", ...) take code paths that arbitrary text never reaches.
var c01DictOnce sync.Once
var c01DictList []string
var c01DictRe = regexp.MustCompile(`"((?:[^"\\\n]|\\.){1,24})"`)

func c01Dict() []string {
	c01DictOnce.Do(func() {
		ms, _ := filepath.Glob(filepath.Join(repoDir(), "*.go"))
		sort.Strings(ms)
		seen := map[string]bool{}
		for _, m := range ms {
			if strings.HasSuffix(m, "_test.go") || strings.HasPrefix(filepath.Base(m), "verif_") {
				continue
			}
			b, err := os.ReadFile(m)
			if err != nil {
				continue
			}
			for _, g := range c01DictRe.FindAllStringSubmatch(string(b), -1) {
				t, err := strconv.Unquote(`"` + g[1] + `"`)
				if err != nil || t == "" || len(t) > 24 || strings.ContainsAny(t, "%\n") {
					continue
				}
				if !seen[t] {
					seen[t] = true
					c01DictList = append(c01DictList, t)
				}
			}
		}
		sort.Strings(c01DictList)
		if len(c01DictList) == 0 {
			c01DictList = []string{"docker://"}
		}
	})
	return c01DictList
}

func c01HostileString(r *Rand) string {
	if r.Chance(1, 4) {
		d := c01Dict()
		n := r.Range(1, 3)
		var sb strings.Builder
		for i := 0; i < n; i++ {
			t := d[r.Intn(len(d))]
			if r.Chance(1, 4) && len(t) > 1 {
				t = t[:r.Range(1, len(t))]
			}
			switch r.Intn(8) { // other letter case: names are matched case-insensitively in many places
			case 0:
				t = strings.ToUpper(t)
			case 1:
				t = strings.ToUpper(t[:1]) + t[1:]
			}
			sb.WriteString(t)
			if r.Chance(1, 3) {
				sb.WriteString(r.Pick(c01StringAlphabet))
			}
		}
		return sb.String()
	}
	return c01HostileStringAlpha(r)
}

func c01HostileStringAlpha(r *Rand) string {
	if r.Chance(1, 25) {
		return strings.Repeat(r.Pick(c01StringAlphabet), []int{100, 3000, 16000}[r.Intn(3)])
	}
	n := r.Range(0, 8)
	var sb strings.Builder
	for i := 0; i < n; i++ {
		sb.WriteString(r.Pick(c01StringAlphabet))
	}
	return sb.String()
}

func c01StringFiles(pos, s string) map[string]string {
	q := c01DQ(s)
	f := c01BaseFiles()
	wf := func(on, jobExtra, stepLine string) string {
		if on == "" {
			on = "on: push\n"
		}
		if stepLine == "" {
			stepLine = "      - run: echo\n"
		}
		return on + "jobs:\n  j1:\n    runs-on: ubuntu-latest\n" + jobExtra + "    steps:\n" + stepLine
	}
	switch pos {
	case "branches", "tags", "paths", "branches-ignore":
		f[c01PathWorkflow] = wf("on:\n  push:\n    "+pos+": ["+q+", "+q+"]\n", "", "")
	case "cron":
		f[c01PathWorkflow] = wf("on:\n  schedule:\n    - cron: "+q+"\n", "", "")
	case "types":
		f[c01PathWorkflow] = wf("on:\n  issues:\n    types: ["+q+"]\n", "", "")
	case "event-name":
		f[c01PathWorkflow] = wf("on: ["+q+", push]\n", "", "")
	case "dispatch-type":
		f[c01PathWorkflow] = wf("on:\n  workflow_dispatch:\n    inputs:\n      "+q+":\n        type: "+q+"\n        options: ["+q+"]\n        default: "+q+"\n", "", "")
	case "shell":
		f[c01PathWorkflow] = wf("", "    defaults:\n      run:\n        shell: "+q+"\n", "      - run: echo\n        shell: "+q+"\n")
	case "uses":
		f[c01PathWorkflow] = wf("", "", "      - uses: "+q+"\n        with:\n          a: b\n") + "  j2:\n    uses: " + q + "\n"
	case "image":
		f[c01PathWorkflow] = wf("", "    container: "+q+"\n    services:\n      s:\n        image: "+q+"\n", "")
	case "label":
		f[c01PathWorkflow] = "on: push\njobs:\n  j1:\n    runs-on: [" + q + ", " + q + ", ubuntu-latest]\n    steps:\n      - run: echo\n  j2:\n    runs-on: " + q + "\n    steps:\n      - run: echo\n"
	case "permission-scope":
		f[c01PathWorkflow] = wf("on: push\npermissions:\n  "+q+": read\n", "", "")
	case "permission-value":
		f[c01PathWorkflow] = wf("on: push\npermissions:\n  contents: "+q+"\n", "    permissions: "+q+"\n", "")
	case "job-id":
		f[c01PathWorkflow] = "on: push\njobs:\n  " + q + ":\n    runs-on: ubuntu-latest\n    steps:\n      - run: echo\n  j2:\n    needs: [" + q + "]\n    runs-on: ubuntu-latest\n    steps:\n      - run: echo ${{ needs[" + strings.ReplaceAll(strconv.Quote("'"+strings.ReplaceAll(s, "'", "''")+"'"), "\"", "") + "] }}\n"
	case "step-id":
		f[c01PathWorkflow] = wf("", "", "      - id: "+q+"\n        run: echo\n      - id: "+q+"\n        run: echo\n")
	case "env-key", "matrix-key", "output-name":
		f[c01PathWorkflow] = wf("", "    env:\n      "+q+": v\n    outputs:\n      "+q+": v\n    strategy:\n      matrix:\n        "+q+": [1]\n        include:\n          - "+q+": 2\n", "      - run: echo\n        env:\n          "+q+": v\n")
	case "input-name", "secret-name":
		f[c01PathWorkflow] = wf("on:\n  workflow_call:\n    inputs:\n      "+q+":\n        type: string\n    secrets:\n      "+q+":\n        required: true\n    outputs:\n      "+q+":\n        value: x\n", "", "") + "  j2:\n    uses: ./.github/workflows/reusable.yml\n    with:\n      " + q + ": 1\n    secrets:\n      " + q + ": x\n"
	case "needs":
		f[c01PathWorkflow] = wf("", "    needs: ["+q+", "+q+"]\n", "")
	case "working-directory":
		f[c01PathWorkflow] = wf("", "", "      - run: echo\n        working-directory: "+q+"\n")
	case "credentials":
		f[c01PathWorkflow] = wf("", "    container:\n      image: x\n      credentials:\n        username: "+q+"\n        password: "+q+"\n      ports: ["+q+"]\n      volumes: ["+q+"]\n      options: "+q+"\n", "")
	case "docker-args":
		f[c01PathWorkflow] = wf("", "", "      - uses: docker://alpine\n        with:\n          args: "+q+"\n          entrypoint: "+q+"\n")
	case "config-label":
		f[c01PathConfig] = "self-hosted-runner:\n  labels: [" + q + ", " + q + "]\n"
	case "config-var":
		f[c01PathConfig] = "config-variables: [" + q + "]\n"
	case "config-path":
		f[c01PathConfig] = "paths:\n  " + q + ":\n    ignore: [" + q + "]\n"
	case "config-ignore":
		f[c01PathConfig] = "paths:\n  '**':\n    ignore: [" + q + ", " + q + "]\n"
	case "action-using":
		f[c01PathAction] = "name: " + q + "\ndescription: " + q + "\nruns:\n  using: " + q + "\n  main: " + q + "\n  image: " + q + "\n  steps: " + q + "\n"
	case "action-input":
		f[c01PathAction] = "name: a\ndescription: d\ninputs:\n  " + q + ":\n    required: " + q + "\n    default: " + q + "\noutputs:\n  " + q + ":\n    description: x\nruns:\n  using: node20\n  main: x.js\n"
	case "action-docker-image":
		f[c01PathAction] = "name: a\ndescription: d\nruns:\n  using: docker\n  image: " + q + "\n  pre-entrypoint: " + q + "\n  entrypoint: " + q + "\n  post-entrypoint: " + q + "\n  args: [" + q + "]\n  env:\n    A: " + q + "\n"
	case "action-composite-step":
		f[c01PathAction] = "name: a\ndescription: d\nruns:\n  using: composite\n  steps:\n    - run: " + q + "\n      shell: " + q + "\n    - uses: " + q + "\n      with:\n        a: " + q + "\n"
	case "run-script":
		f[c01PathWorkflow] = wf("", "", "      - run: "+q+"\n      - run: |\n          echo start\n          "+strings.ReplaceAll(strings.ReplaceAll(s, "\r", ""), "\n", "\n          ")+"\n      - uses: actions/github-script@v7\n        with:\n          script: "+q+"\n")
		f[c01PathAction] = "name: a\ndescription: d\nruns:\n  using: composite\n  steps:\n    - run: " + q + "\n      shell: bash\n"
	case "action-branding":
		f[c01PathAction] = "name: a\ndescription: d\nbranding:\n  icon: " + q + "\n  color: " + q + "\nruns:\n  using: composite\n  steps: []\n"
	}
	return f
}

func c01StringFamily(n int) *c01Family {
	return &c01Family{Name: "hostile-strings", N: n, Gen: func(r *Rand, idx int) c01Case {
		s := c01HostileString(r)
		pos := c01StringPositions[idx%len(c01StringPositions)]
		if ps := c01PositionStrings[pos]; len(ps) > 0 && r.Chance(1, 3) {
			s = r.Pick(ps)
		}
		files := c01StringFiles(pos, s)
		for k, v := range files {
			if len(v) > c01MaxFile { // keep inside the size bound: shorten the hostile string
				files = c01StringFiles(pos, s[:len(s)/8])
				_ = k
				break
			}
		}
		return c01Case{Files: files, Mode: c01ModeFor(idx), Desc: "string " + strconv.Quote(truncate(s, 200)) + " at " + pos}
	}}
}

// ---------------------------------------------------------------------------
// raw YAML snippets that the node encoder cannot produce

var c01RawSnippets = []string{
	"", "\n", " ", "\t", "---", "--- \n...", "...\n", "---\n---\n", "--- a\n--- b\n", "\xef\xbb\xbf", "\xef\xbb\xbfon: push\n", "on: push\r\njobs:\r\n", "%YAML 1.2\n---\non: push\n", "%TAG ! tag:x,2000:\n--- !foo\na: b\n",
	"on: |\n  push\n", "on: >-\n  push\n", "on: |+\n  push\n\n", "on: |2\n    push\n", "on: |10\n push\n", "on: >0\n x\n", "on: |-1\n",
	"? on\n: push\n", "? [a, b]\n: c\n", "? {a: b}\n: c\n", "&a on: *a\n", "on: &a [*a]\n", "a: &a\n  b: *a\n", "*a\n", "&a\n", "on: !!binary |\n  R0lGODlh\n", "on: !!set {a, b}\n", "on: !!omap [a: 1]\n", "!!map {on: push}\n", "!!seq [a]\n", "!!str on\n",
	"{", "}", "[", "]", "{on: push, jobs: {j: {runs-on: x, steps: [{run: echo}]}}}", "[on, push]", "on: {push: {branches: [a,]}}\n", "on: [push,,]\n", "'", "\"", "\"\\", "\"\\x\"", "\"\\u00\"", "'a", "a: 'b\n", "a: \"b\n",
	"on: push\njobs:\n\tj:\n", "on: push\n  jobs: x\n", "on: push\njobs: \n  j:\n   runs-on: x\n    steps: []\n", "on:push\n", "on : push\n", ": push\n", "- on\n- push\n", "- - - - a\n", "? ? ? a\n",
	"on: push # comment\njobs: # c\n  j: #c\n    runs-on: x #c\n    steps: #c\n      - run: echo #c\n", "#\n#\n", "on: push\njobs:\n  j:\n    runs-on: x\n    steps:\n      - run: |\n\n\n\n", "on: push\njobs:\n  j:\n    runs-on: x\n    steps:\n      - run: >\n          ${{ a\n          b }}\n",
	"on: push\njobs:\n  j:\n    runs-on: x\n    steps:\n      - run: \"\\n\\n${{ x. }}\"\n", "on: push\njobs:\n  j:\n    runs-on: x\n    steps:\n      - run: \"a\\\n        b ${{ x. }}\"\n",
	"on: push\njobs:\n  j:\n    runs-on: x\n    steps:\n      - run: 'a\n\n        ${{ x. }}'\n", "on: push\njobs:\n  j: &j\n    runs-on: x\n    steps: &s\n      - run: echo\n  k: *j\n  l:\n    <<: *j\n    steps: *s\n",
	"on: push\njobs:\n  j:\n    <<: {runs-on: x}\n    <<: {steps: []}\n", "on: push\njobs:\n  j:\n    <<: [{runs-on: x}, {steps: [{run: a}]}]\n", "on: push\njobs:\n  j:\n    <<: x\n",
	"on: push\njobs:\n  ? |\n    block key\n  : \n    runs-on: x\n    steps: []\n",
	// jobs of mixed kind: a reusable workflow call together with the keys of an ordinary job (and the other way round)
	"on: push\njobs:\n  call:\n    uses: ./.github/workflows/reusable.yml\n    with:\n      a: ${{ steps.s1.outputs.x }}\n    runs-on: ubuntu-latest\n    outputs:\n      o: ${{ steps.s1.outputs.x }}\n    steps:\n      - id: s1\n        run: echo\n      - id: s2\n        uses: ./act\n        with:\n          a: ${{ steps.s1.outputs.x }}\n      - run: echo ${{ steps.s2.outputs.y }}\n  after:\n    needs: [call]\n    runs-on: ubuntu-latest\n    steps:\n      - run: echo ${{ needs.call.outputs.o }}\n",
	"on: push\njobs:\n  call:\n    steps:\n      - id: s1\n        run: echo\n    uses: owner/repo/.github/workflows/w.yml@v1\n    secrets: inherit\n    strategy:\n      matrix:\n        x: [1]\n    services:\n      db:\n        image: x\n    container: ${{ matrix.x }}\n    env:\n      A: ${{ steps.s1.outputs.x }}\n",
	"on: push\njobs:\n  j:\n    runs-on: ubuntu-latest\n    with:\n      a: ${{ steps.s1.outputs.x }}\n    secrets:\n      s: ${{ secrets.S }}\n    steps:\n      - id: s1\n        run: echo\n        uses: actions/checkout@v4\n        with:\n          a: b\n        shell: bash\n        working-directory: x\n",
	"on: push\njobs: {a: {uses: ./x.yml, steps: [{id: a, run: echo}, {id: A, run: echo}]}, b: {needs: a, uses: ./x.yml, steps: [{id: b, uses: ./act}]}}\n", "0: 1\n", "1.5: x\n", "true: x\nnull: y\n~: z\n", "on: 1\njobs: 2\n", "on: ~\njobs: ~\n", "on:\njobs:\n", "on: push\njobs:\n  j:\n",
}

func c01RawFamily() *c01Family {
	n := len(c01RawSnippets) * len(c01Channels)
	return &c01Family{Name: "raw-yaml-snippets", N: n, Gen: func(r *Rand, idx int) c01Case {
		ch := c01Channels[idx%len(c01Channels)]
		s := c01RawSnippets[idx/len(c01Channels)]
		c := c01Case{Files: c01BaseFiles(), Mode: []string{"lib-file", "lib-files", "cli", "lib-content"}[(idx/len(c01Channels))%4], Desc: "raw snippet " + strconv.Quote(truncate(s, 120)) + " as " + c01ChannelName(ch)}
		c.Files[ch] = s
		return c
	}}
}

// ---------------------------------------------------------------------------
// scripts handed to external tools (fake tool): sizes around and above the pipe capacity

func c01ToolFamily(n int) *c01Family {
	sizes := []int{0, 1, 100, 4095, 4096, 65535, 65536, 65537, 70000, 131072, 200000, 300000}
	return &c01Family{Name: "tool-scripts", N: n, Gen: func(r *Rand, idx int) c01Case {
		size := sizes[idx%len(sizes)]
		shell := []string{"bash", "sh", "python", ""}[(idx/len(sizes))%4]
		line := r.Pick([]string{"echo ${{ github.sha }} x\n", "echo hello world\n", "print('${{ matrix.x }}')\n", "é日本語\n", "a\n"})
		var sb strings.Builder
		for sb.Len() < size {
			sb.WriteString(line)
		}
		script := sb.String()
		if len(script) > size {
			script = script[:size]
		}
		var b strings.Builder
		b.WriteString("on: push\njobs:\n  j1:\n    runs-on: ubuntu-latest\n    steps:\n")
		nsteps := 1 + idx%3
		for s := 0; s < nsteps; s++ {
			b.WriteString("      - run: " + c01DQ(script) + "\n")
			if shell != "" {
				b.WriteString("        shell: " + shell + "\n")
			}
		}
		c := c01Case{Files: c01BaseFiles(), Mode: pick(idx%4 == 3, "cli", "lib-file"), Tool: true, Desc: fmt.Sprintf("run script of %d bytes, shell %q, %d steps, tools enabled", size, shell, nsteps)}
		c.Files[c01PathWorkflow] = b.String()
		return c
	}}
}

// ---------------------------------------------------------------------------
// references from a workflow to special files: devices that never reach EOF, named pipes,
// directories, symlink loops. The worker of this family runs under an address-space limit.

var c01SpecialSpecs = []struct {
	name    string
	spec    string            // value of uses:
	special map[string]string // filesystem objects to create
	action  bool              // step action (true) or reusable workflow call (false)
}{
	{"wf-dev-zero-traversal", "./../../../../../../../../../../../../dev/zero", nil, false},
	{"wf-dev-urandom-traversal", "./../../../../../../../../../../../../dev/urandom", nil, false},
	{"wf-dev-null-traversal", "./../../../../../../../../../../../../dev/null", nil, false},
	{"wf-dev-full-traversal", "./../../../../../../../../../../../../dev/full", nil, false},
	{"wf-symlink-to-dev-zero", "./.github/workflows/dev.yml", map[string]string{".github/workflows/dev.yml": "symlink:/dev/zero"}, false},
	{"wf-fifo", "./.github/workflows/fifo.yml", map[string]string{".github/workflows/fifo.yml": "fifo"}, false},
	{"wf-directory", "./.github/workflows", nil, false},
	{"wf-root-directory", "./", nil, false},
	{"wf-symlink-loop", "./.github/workflows/loop.yml", map[string]string{".github/workflows/loop.yml": "symlink:loop.yml"}, false},
	{"wf-dangling-symlink", "./.github/workflows/dangling.yml", map[string]string{".github/workflows/dangling.yml": "symlink:/nonexistent/x"}, false},
	{"action-metadata-symlink-to-dev-zero", "./actz", map[string]string{"actz/action.yml": "symlink:/dev/zero"}, true},
	{"action-metadata-fifo", "./actf", map[string]string{"actf/action.yml": "fifo"}, true},
	{"action-metadata-is-directory", "./actd", map[string]string{"actd/action.yml": "dir"}, true},
	{"action-metadata-symlink-loop", "./actl", map[string]string{"actl/action.yml": "symlink:action.yml"}, true},
	{"action-dir-is-dev", "./../../../../../../../../../../../../dev", nil, true},
	{"action-dir-is-proc-self-fd", "./../../../../../../../../../../../../proc/self/fd", nil, true},
}

func c01SpecialFamily() *c01Family {
	modes := []string{"lib-file", "lib-files", "cli"}
	return &c01Family{Name: "special-paths", N: len(c01SpecialSpecs) * len(modes), Gen: func(r *Rand, idx int) c01Case {
		sp := c01SpecialSpecs[idx/len(modes)]
		c := c01Case{Files: c01BaseFiles(), Mode: modes[idx%len(modes)], Special: sp.special, Desc: "uses: " + sp.spec + " (" + sp.name + ")"}
		if sp.action {
			c.Files[c01PathWorkflow] = "on: push\njobs:\n  j:\n    runs-on: ubuntu-latest\n    steps:\n      - id: a\n        uses: " + sp.spec + "\n        with:\n          name: x\n      - run: echo ${{ steps.a.outputs.result }}\n"
		} else {
			c.Files[c01PathWorkflow] = "on: push\njobs:\n  c:\n    uses: " + sp.spec + "\n    with:\n      name: x\n  after:\n    needs: [c]\n    runs-on: ubuntu-latest\n    steps:\n      - run: echo ${{ needs.c.outputs.out1 }}\n"
		}
		return c
	}}
}

func c01Families(tier string) []*c01Family {
	th := tier == "thorough"
	q := func(a, b int) int {
		if th {
			return b
		}
		return a
	}
	return []*c01Family{
		c01RawFamily(),
		c01MatrixFamily(c01PathWorkflow, c01Workflow, "matrix-workflow", th),
		c01MatrixFamily(c01PathAction, c01Action, "matrix-action", th),
		c01MatrixFamily(c01PathAction, c01ActionDocker, "matrix-action-docker", th),
		c01MatrixFamily(c01PathAction, c01ActionNode, "matrix-action-node", th),
		c01MatrixFamily(c01PathReusable, c01Reusable, "matrix-reusable", th),
		c01MatrixFamily(c01PathConfig, c01Config, "matrix-config", th),
		c01BytesFamily(q(12000, 1000000)),
		c01ExprFamily(q(24000, 2000000)),
		c01StringFamily(q(9600, 500000)),
		c01ToolFamily(q(96, 960)),
		c01SpecialFamily(),
	}
}
