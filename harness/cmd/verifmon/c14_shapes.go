package main

// C14, expression shapes: the verdict on steps.<id>.outputs.<name> / needs.<job>.outputs.<name>
// (reported iff the callee does not declare <name>) must not depend on where in an expression the
// reference is written. Every probed reference is wrapped into one of the shapes below and placed
// in one of four syntactic contexts.

import (
	"fmt"
)

type c14Shape struct {
	Name string
	Fmt  string // exactly one %s: the outputs reference
	// Silent is non-empty for a shape that is kept out of the comparison because the unchanged tree
	// legitimately produces another result for it (derived once from the unchanged tree).
	Silent string
}

var c14Shapes = []c14Shape{
	{Name: "direct", Fmt: "%s"},
	{Name: "paren", Fmt: "(%s)"},
	{Name: "paren-twice", Fmt: "((%s))"},
	{Name: "eq-left", Fmt: "%s == 'yes'"},
	{Name: "eq-right", Fmt: "'yes' == %s"},
	{Name: "ne-left", Fmt: "%s != ''"},
	{Name: "fn-format-arg", Fmt: "format('{0}-{1}', 'a', %s)"},
	{Name: "fn-format-template", Fmt: "format(%s, 'a')"},
	{Name: "fn-contains-haystack", Fmt: "contains(%s, 'a')"},
	{Name: "fn-contains-needle", Fmt: "contains('abc', %s)"},
	{Name: "fn-startswith", Fmt: "startsWith(%s, 'v')"},
	{Name: "fn-endswith-second", Fmt: "endsWith('x', %s)"},
	{Name: "fn-tojson", Fmt: "toJSON(%s)"},
	{Name: "fn-fromjson", Fmt: "fromJSON(%s)"},
	{Name: "fn-fromjson-deref", Fmt: "fromJSON(%s).key"},
	{Name: "fn-nested", Fmt: "format('{0}', contains(%s, 'a'))"},
	{Name: "and-left", Fmt: "%s && 'a'"},
	{Name: "and-right", Fmt: "'a' && %s"},
	{Name: "or-left", Fmt: "%s || 'a'"},
	{Name: "or-right", Fmt: "'a' || %s"},
	{Name: "ternary-cond", Fmt: "%s && 'a' || 'b'"},
	{Name: "ternary-then", Fmt: "'c' && %s || 'b'"},
	{Name: "ternary-else", Fmt: "'c' && 'a' || %s"},
	{Name: "ternary-cond-compare", Fmt: "%s == 'true' && 'a' || 'b'"},
	{Name: "ternary-cond-paren", Fmt: "(%s && 'a') || 'b'"},
	{Name: "ternary-in-ternary-cond", Fmt: "(%s && 'x' || 'y') && 'a' || 'b'"},
	{Name: "and-chain-middle", Fmt: "'a' && %s && 'b'"},
	{Name: "or-chain-first", Fmt: "%s || 'a' || 'b'"},
	{Name: "and-of-or-left", Fmt: "(%s || 'c') && 'd'"},
	{Name: "not", Fmt: "!%s"},
	{Name: "not-not", Fmt: "!!%s"},
	{Name: "not-or-left", Fmt: "!(%s || 'c') || 'd'"},
	{Name: "not-or-right", Fmt: "!('c' || %s) || 'd'"},
	{Name: "not-and-left", Fmt: "!(%s && 'c') && 'd'"},
	{Name: "not-compare", Fmt: "!(%s == 'x')"},
	{Name: "index-of-event", Fmt: "github.event[%s]"},
	{Name: "index-of-vars", Fmt: "vars[%s]"},
	{Name: "index-nested-call", Fmt: "github.event[format('{0}', %s)]"},
	{Name: "lt-string", Fmt: "%s < 'b'"},
	{Name: "ge-number", Fmt: "%s >= 1"},
	{Name: "eq-number", Fmt: "%s == 1"},
	{Name: "eq-bool", Fmt: "%s == true"},
	{Name: "eq-null", Fmt: "%s == null"},
	{Name: "fn-fromjson-index", Fmt: "fromJSON(%s)[0]"},
	{Name: "fn-tojson-fromjson", Fmt: "toJSON(fromJSON(%s))"},
	{Name: "fn-hashfiles", Fmt: "hashFiles(%s)"},

	// Shapes that are not generated: on the unchanged tree the verdict on the reference itself is the
	// same, but the shape legitimately adds a diagnostic of its own (probed once, fixed here).
	{Name: "deref-of-output", Fmt: "%s.prop", Silent: "a declared output is a string: `receiver of object dereference must be type of object`"},
	{Name: "index-of-output-number", Fmt: "%s[0]", Silent: "a declared output is a string: `index access operand must be type of object or array`"},
	{Name: "index-of-output-string", Fmt: "%s['k']", Silent: "a declared output is a string: `index access operand must be type of object or array`"},
	{Name: "fn-join", Fmt: "join(%s, ',')", Silent: "join takes an array: `1st argument of function call is not assignable` for a declared (string) output"},
	{Name: "array-index", Fmt: "fromJSON('[1]')[%s]", Silent: "`index access of array must be type of number` for a declared (string) output"},
	{Name: "fn-fromjson-array-filter", Fmt: "fromJSON(%s).*.x", Silent: "the result is an array: `object, array, and null values should not be evaluated in template`"},
	{Name: "fn-format-missing-arg", Fmt: "format('{0} {1}', %s)", Silent: "the format call itself is wrong: `format string contains placeholder {1} but only 1 arguments are given`"},
	{Name: "fn-wrong-arity", Fmt: "startsWith(%s)", Silent: "the call itself is wrong: `number of arguments is wrong`"},
	{Name: "status-function-and", Fmt: "success() && %s", Silent: "status functions are only available in if: conditions: `calling function is not allowed here` in run / env templates"},
	{Name: "status-function-or", Fmt: "always() || %s", Silent: "status functions are only available in if: conditions: `calling function is not allowed here` in run / env templates"},
}

var c14CtxNames = []string{"run-template", "env-template", "if-template", "if-bare"}

// c14ActiveShapes: the compared shapes, in table order.
func c14ActiveShapes() []c14Shape {
	var out []c14Shape
	for _, s := range c14Shapes {
		if s.Silent == "" {
			out = append(out, s)
		}
	}
	return out
}

func c14SilentShapes() []string {
	out := []string{}
	for _, s := range c14Shapes {
		if s.Silent != "" {
			out = append(out, s.Name+": "+s.Silent)
		}
	}
	return out
}

// c14ShapedRef is one probed reference: the complete expression, its context and its shape.
type c14ShapedRef struct {
	Expr  string
	Ctx   int
	Shape string
}

func c14MkRef(sh c14Shape, ctx int, ref string) c14ShapedRef {
	return c14ShapedRef{Expr: fmt.Sprintf(sh.Fmt, ref), Ctx: ctx, Shape: sh.Name}
}

// c14RandRef wraps ref into a seeded shape and context.
func c14RandRef(r *Rand, ref string) c14ShapedRef {
	act := c14ActiveShapes()
	return c14MkRef(act[r.Intn(len(act))], r.Intn(len(c14CtxNames)), ref)
}

// c14EmitRef writes one step (at steps indentation 6) that evaluates the expression in the given
// context and returns the line of the expression. No generated expression contains a double quote or
// a backslash, so the bare condition can always be written as a double-quoted YAML scalar (needed
// for expressions that start with `!`, `'` or `(`).
func c14EmitRef(b *YB, sr c14ShapedRef) int {
	switch sr.Ctx {
	case 0:
		return b.L(6, "- run: echo ${{ "+sr.Expr+" }}").Line
	case 1:
		b.L(6, "- run: echo \"$V\"")
		b.L(8, "env:")
		return b.L(10, "V: ${{ "+sr.Expr+" }}").Line
	case 2:
		b.L(6, "- run: echo conditional")
		return b.L(8, "if: ${{ "+sr.Expr+" }}").Line
	}
	b.L(6, "- run: echo conditional")
	return b.L(8, "if: \""+sr.Expr+"\"").Line
}

// c14CoverRef records shape / context coverage of one probed reference.
func c14CoverRef(c *Case, kind string, sr c14ShapedRef, declared bool) {
	d := "undeclared"
	if declared {
		d = "declared"
	}
	c.SetAdd("shape_cells", kind+"|"+sr.Shape+"|"+d)
	c.SetAdd("context_cells", kind+"|"+c14CtxNames[sr.Ctx]+"|"+d)
	c.Count("shaped_references", 1)
}

// c14ShapeFloors: every compared shape and every context was probed with a declared and an
// undeclared output for every interface kind.
func c14ShapeFloors(r *Run) {
	for _, kind := range []string{"bundled", "action", "workflow"} {
		for _, d := range []string{"declared", "undeclared"} {
			for _, s := range c14ActiveShapes() {
				if !r.SetHas("shape_cells", kind+"|"+s.Name+"|"+d) {
					r.Inconclusive("coverage floor not met: no " + d + " output reference of kind " + kind + " in shape " + s.Name)
				}
			}
			for _, cn := range c14CtxNames {
				if !r.SetHas("context_cells", kind+"|"+cn+"|"+d) {
					r.Inconclusive("coverage floor not met: no " + d + " output reference of kind " + kind + " in context " + cn)
				}
			}
		}
	}
}
