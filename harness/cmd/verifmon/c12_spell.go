package main

// C12, part 7: the spelling of the access to a context. `ctx.prop`, `ctx['prop']`, `CTX['PROP']`, a
// computed index, the access used as an index itself, as a function argument, under `!`, in a
// comparison, bare, and two levels deep: the availability verdict is about the context NAME and must
// not depend on how its properties are reached. Every position class (in particular every position
// where no context at all is allowed, table key "none") x every context x every spelling.

import (
	"fmt"
	"strings"
)

// one property per context (existing ones where the context type is strict)
var c12Prop = map[string]string{
	"env": "HOME_DIR", "github": "sha", "inputs": "p", "job": "status", "jobs": "build", "matrix": "os",
	"needs": "first", "runner": "temp", "secrets": "FOO", "steps": "earlier", "strategy": "job-index", "vars": "FOO",
}

type c12Spelling struct {
	Name, Group string
	Build       func(ctx, prop string) (expr string, off int, isBool bool)
	Raw         bool // value type unknown (may be an object): positions that need a typed value wrap it
}

const (
	c12GrpProp    = "property"
	c12GrpLiteral = "string-literal-index"
	c12GrpDynamic = "computed-index"
)

var c12Spellings = []c12Spelling{
	{Name: "toJSON(ctx.prop)", Group: c12GrpProp, Build: func(c, p string) (string, int, bool) { return "toJSON(" + c + "." + p + ")", 7, false }},
	{Name: "toJSON(ctx['prop'])", Group: c12GrpLiteral, Build: func(c, p string) (string, int, bool) { return "toJSON(" + c + "['" + p + "'])", 7, false }},
	{Name: "toJSON(CTX['PROP'])", Group: c12GrpLiteral, Build: func(c, p string) (string, int, bool) {
		return "toJSON(" + strings.ToUpper(c) + "['" + strings.ToUpper(p) + "'])", 7, false
	}},
	{Name: "toJSON(ctx[format('{0}', 'prop')])", Group: c12GrpDynamic, Build: func(c, p string) (string, int, bool) {
		return "toJSON(" + c + "[format('{0}', '" + p + "')])", 7, false
	}},
	{Name: "toJSON(fromJSON(toJSON('x'))[ctx['prop']])", Group: c12GrpLiteral, Build: func(c, p string) (string, int, bool) {
		pre := "toJSON(fromJSON(toJSON('x'))["
		return pre + c + "['" + p + "']])", len(pre), false
	}},
	{Name: "format('{0}', ctx['prop'])", Group: c12GrpLiteral, Build: func(c, p string) (string, int, bool) {
		pre := "format('{0}', "
		return pre + c + "['" + p + "'])", len(pre), false
	}},
	{Name: "!ctx['prop']", Group: c12GrpLiteral, Build: func(c, p string) (string, int, bool) { return "!" + c + "['" + p + "']", 1, true }},
	{Name: "ctx['prop'] == 'x'", Group: c12GrpLiteral, Build: func(c, p string) (string, int, bool) { return c + "['" + p + "'] == 'x'", 0, true }},
	{Name: "ctx['prop']", Group: c12GrpLiteral, Raw: true, Build: func(c, p string) (string, int, bool) { return c + "['" + p + "']", 0, false }},
	{Name: "toJSON(ctx['prop']['sub'])", Group: c12GrpLiteral, Build: func(c, p string) (string, int, bool) { return "toJSON(" + c + "['" + p + "']['sub'])", 7, false }},
	{Name: "toJSON(ctx.prop.sub)", Group: c12GrpProp, Build: func(c, p string) (string, int, bool) { return "toJSON(" + c + "." + p + ".sub)", 7, false }},
}

func c12SpellingID(cl *c12Class, ctx, sp string) string { return cl.Name + " | " + ctx + " | " + sp }

func c12SpellingCase(c *Case, g map[string]*c12Avail, cl *c12Class) {
	av := g[cl.Key]
	if av == nil {
		return
	}
	for _, ctx := range c12Contexts {
		baseOK := true
		for si, sp := range c12Spellings {
			expr, off, isBool := sp.Build(ctx, c12Prop[ctx])
			p := c12Probe{Expr: expr, Bool: isBool, Names: []c12Name{{Off: off, Lower: ctx}}}
			if sp.Raw {
				switch cl.Kind {
				case c12Any:
					p.Bool = true // gets fromJSON(toJSON(..))
				case c12IfBare:
					p = p.wrap("", " == 'x'", true)
				}
			}
			if cl.Kind == c12IfBare && strings.HasPrefix(p.Expr, "!") {
				p = p.wrap("(", ")", true) // a plain scalar must not start with '!'
			}
			res, exp := c12Run(c, g, cl, p, "", "", false, false)
			c.Count("access_spelling_lints", 1)
			c.Nontrivial("spell|" + c12SpellingID(cl, ctx, sp.Name))
			if res.ok() {
				if len(exp) > 0 {
					c.SetAdd("access_spelling_due_and_correct", c12SpellingID(cl, ctx, sp.Name))
				}
				continue
			}
			if si == 0 {
				baseOK = false
			}
			d := c12Detail(cl, res, exp)
			d["spelling"] = sp.Name
			if res.Err != nil {
				c.Violation("C12:fatal-error", "linting a probe returned a fatal error: "+res.Err.Error(), d)
				continue
			}
			pol := "not-reported"
			if len(res.Missing) == 0 {
				pol = "wrongly-reported"
			}
			sig := fmt.Sprintf("C12:access-spelling:%s:%s", pol, cl.Name)
			if si > 0 && baseOK {
				sig = fmt.Sprintf("C12:verdict-depends-on-access-spelling:%s:%s:%s", sp.Group, ctx, pol)
			}
			c.Violation(sig, fmt.Sprintf("context %q at position class %q (key %s) written as %s: missing=%v spurious=%v (written as %s.%s the verdict is as predicted: %v)", ctx, cl.Name, c12KeyLabel(cl.Key), sp.Name, res.Missing, res.Spurious, ctx, c12Prop[ctx], si > 0 && baseOK), d)
		}
	}
}

// c12SpellingFloors: every (position class, context, spelling) where the table demands a report must
// have been seen with that report - in particular every position without any available context x
// every context name x every spelling.
func c12SpellingFloors(r *Run, g map[string]*c12Avail, classes []*c12Class) {
	bad, total, none := 0, 0, 0
	for _, cl := range classes {
		av := g[cl.Key]
		if av == nil {
			continue
		}
		for _, ctx := range c12Contexts {
			if av.Ctx[ctx] {
				continue
			}
			for _, sp := range c12Spellings {
				total++
				if cl.Key == "" {
					none++
				}
				if !r.SetHas("access_spelling_due_and_correct", c12SpellingID(cl, ctx, sp.Name)) {
					if bad++; bad <= 8 {
						r.Inconclusive("access spelling without the due report: " + c12SpellingID(cl, ctx, sp.Name))
					}
				}
			}
		}
	}
	r.Extra("access_spelling_due_combinations", total)
	r.Extra("access_spelling_due_combinations_at_positions_without_any_context", none)
}
