package main

// C18 — job dependency checks are exact for every needs graph.
// Reference model: Tarjan-free cyclicity by DFS colouring written independently + walk validation
// of the printed cycle against the edge relation of the generated graph.

import (
	"fmt"
	"os"
	"os/exec"
	"path/filepath"
	"regexp"
	"strings"
	"syscall"

	"github.com/rhysd/actionlint"
)

func init() { registry["C18"] = runC18 }

var c18Names = []string{"alpha", "Beta", "GAMMA", "dElta", "eps-1", "zeta_2", "Eta", "theta", "IOTA", "kappa"}

func c18Name(i int) string {
	if i < len(c18Names) {
		return c18Names[i]
	}
	return fmt.Sprintf("Job%d", i)
}

func caseVariant(r *Rand, s string) string {
	switch r.Intn(4) {
	case 0:
		return strings.ToLower(s)
	case 1:
		return strings.ToUpper(s)
	case 2:
		b := []byte(s)
		for i := range b {
			if r.Bool() {
				b[i] = strings.ToUpper(string(b[i]))[0]
			} else {
				b[i] = strings.ToLower(string(b[i]))[0]
			}
		}
		return string(b)
	}
	return s
}

type c18Graph struct {
	n     int
	adj   [][]int // adj[i] = jobs needed by i, in written order (may contain dups if dup variant)
	dang  [][]string
	order []int // order in which jobs are written
}

// refCyclic: independent cyclicity decision (iterative removal of nodes without outgoing edges
// inside the remaining set — a graph is acyclic iff everything can be removed).
func refCyclic(n int, edge func(i, j int) bool) bool {
	alive := make([]bool, n)
	for i := range alive {
		alive[i] = true
	}
	left := n
	for {
		removed := false
		for i := 0; i < n; i++ {
			if !alive[i] {
				continue
			}
			out := false
			for j := 0; j < n; j++ {
				if alive[j] && edge(i, j) {
					out = true
					break
				}
			}
			if !out {
				alive[i] = false
				left--
				removed = true
			}
		}
		if !removed {
			break
		}
	}
	return left > 0
}

var c18CycleRe = regexp.MustCompile(`detected cycle is (.*)$`)
var c18DangRe = regexp.MustCompile(`^job "([^"]*)" needs job "([^"]*)" which does not exist in this workflow$`)

type c18Emit struct {
	src    string
	keyPos []Pos // per job index
	nameOf []string
}

func c18Render(r *Rand, g *c18Graph, flowStyle int) c18Emit {
	b := NewYB()
	b.L(0, "on: push")
	b.L(0, "jobs:")
	e := c18Emit{keyPos: make([]Pos, g.n), nameOf: make([]string, g.n)}
	for i := 0; i < g.n; i++ {
		e.nameOf[i] = c18Name(i)
	}
	for _, i := range g.order {
		b.W("  ")
		e.keyPos[i] = b.W(e.nameOf[i])
		b.W(":\n")
		var deps []string
		for _, j := range g.adj[i] {
			deps = append(deps, caseVariant(r, e.nameOf[j]))
		}
		deps = append(deps, g.dang[i]...)
		if len(deps) > 0 {
			style := flowStyle
			if style == 3 {
				style = r.Intn(3)
			}
			switch {
			case len(deps) == 1 && style == 0:
				b.Lf(4, "needs: %s", deps[0])
			case style == 1:
				b.L(4, "needs:")
				for _, d := range deps {
					b.Lf(6, "- %s", d)
				}
			default:
				b.Lf(4, "needs: [%s]", strings.Join(deps, ", "))
			}
		}
		b.L(4, "runs-on: ubuntu-latest")
		b.L(4, "steps:")
		b.L(6, "- run: echo")
	}
	e.src = b.String()
	return e
}

// c18Check lints one graph through the real Linter and applies the oracle.
func c18Check(c *Case, g *c18Graph, hasDup bool, tag string) {
	e := c18Render(c.R, g, 3)
	ds, err := lintSrc(e.src)
	c.Eval(1)
	if err != nil {
		c.Violation("C18:fatal-error", "linting a needs graph returned a fatal error: "+err.Error(), map[string]interface{}{"src": e.src})
		return
	}
	isEdge := func(i, j int) bool {
		for _, k := range g.adj[i] {
			if k == j {
				return true
			}
		}
		return false
	}
	anyDang := false
	for i := range g.dang {
		if len(g.dang[i]) > 0 {
			anyDang = true
		}
	}
	lowerIdx := map[string]int{}
	for i, n := range e.nameOf {
		lowerIdx[strings.ToLower(n)] = i
	}
	var cycles []Diag
	type dk struct {
		job int
		dep string
	}
	gotDang := map[dk]int{}
	for _, d := range ds {
		switch {
		case strings.Contains(d.Msg, "cyclic dependencies"):
			cycles = append(cycles, d)
		case c18DangRe.MatchString(d.Msg):
			m := c18DangRe.FindStringSubmatch(d.Msg)
			// position must be the referring job's key
			ji := -1
			for i, p := range e.keyPos {
				if p.Line == d.Line && p.Col == d.Col {
					ji = i
				}
			}
			if ji < 0 {
				c.Violation("C18:dangling-position", "dangling needs reported away from the referring job: "+d.String(), map[string]interface{}{"src": e.src, "diags": diagStrings(ds)})
				return
			}
			if !strings.EqualFold(m[1], e.nameOf[ji]) {
				c.Violation("C18:dangling-wrong-job", "dangling needs message names another job than the one it is located at: "+d.String(), map[string]interface{}{"src": e.src, "diags": diagStrings(ds)})
				return
			}
			gotDang[dk{ji, strings.ToLower(m[2])}]++
		case hasDup && strings.Contains(d.Msg, "duplicates in \"needs\" section"):
			c.Count("dup_needs_diags", 1)
		default:
			c.Violation("C18:unexpected-diagnostic", "unexpected diagnostic for a pure needs-graph workflow: "+d.String(), map[string]interface{}{"src": e.src, "diags": diagStrings(ds)})
			return
		}
	}
	// dangling references: exact set
	wantDang := map[dk]int{}
	for i := range g.dang {
		for _, d := range g.dang[i] {
			wantDang[dk{i, strings.ToLower(d)}] = 1
		}
	}
	for k := range wantDang {
		if gotDang[k] != 1 {
			c.Violation("C18:dangling-missed", fmt.Sprintf("job %q needs missing job %q but got %d reports", e.nameOf[k.job], k.dep, gotDang[k]), map[string]interface{}{"src": e.src, "diags": diagStrings(ds)})
			return
		}
	}
	for k, n := range gotDang {
		if wantDang[k] == 0 {
			c.Violation("C18:dangling-spurious", fmt.Sprintf("job %q reported to need missing job %q (%d times) although it exists or is not referenced", e.nameOf[k.job], k.dep, n), map[string]interface{}{"src": e.src, "diags": diagStrings(ds)})
			return
		}
	}
	if anyDang {
		c.Count("graphs_with_dangling", 1)
		c.Nontrivial(tag + "|dang|" + e.src)
		return // the statement constrains cycle reports only when all references resolve
	}
	cyc := refCyclic(g.n, isEdge)
	if cyc {
		c.Count("cyclic_graphs", 1)
		c.Nontrivial(tag + "|cyc|" + e.src)
	} else {
		c.Count("acyclic_graphs", 1)
	}
	want := 0
	if cyc {
		want = 1
	}
	if len(cycles) != want {
		sig := "C18:cycle-missed"
		if want == 0 {
			sig = "C18:cycle-spurious"
		} else if len(cycles) > 1 {
			sig = "C18:cycle-reported-more-than-once"
		}
		c.Violation(sig, fmt.Sprintf("graph cyclic=%v but %d cyclic-dependency diagnostics", cyc, len(cycles)), map[string]interface{}{"src": e.src, "diags": diagStrings(ds)})
		return
	}
	if cyc {
		m := c18CycleRe.FindStringSubmatch(cycles[0].Msg)
		if m == nil {
			c.Violation("C18:cycle-unparsable", "cannot parse the printed cycle: "+cycles[0].Msg, map[string]interface{}{"src": e.src})
			return
		}
		parts := strings.Split(m[1], " -> ")
		var walk []int
		for _, p := range parts {
			p = strings.Trim(p, `"`)
			i, ok := lowerIdx[strings.ToLower(p)]
			if !ok {
				c.Violation("C18:cycle-unknown-job", "printed cycle names an unknown job: "+cycles[0].Msg, map[string]interface{}{"src": e.src})
				return
			}
			walk = append(walk, i)
		}
		ok := len(walk) >= 2 && walk[0] == walk[len(walk)-1]
		for k := 0; ok && k+1 < len(walk); k++ {
			if !isEdge(walk[k], walk[k+1]) {
				ok = false
			}
		}
		if !ok {
			c.Violation("C18:cycle-not-a-closed-walk", "printed cycle is not a closed walk along needs edges: "+cycles[0].Msg, map[string]interface{}{"src": e.src, "diags": diagStrings(ds)})
			return
		}
		c.SetAdd("cycle_lengths", fmt.Sprint(len(walk)-1))
	}
	if c.Idx == 0 && c.R.Intn(50) == 0 {
		c.Sample(map[string]interface{}{"src": e.src, "diags": diagStrings(ds)})
	}
}

func c18FromMask(n int, mask uint64) *c18Graph {
	g := &c18Graph{n: n, adj: make([][]int, n), dang: make([][]string, n)}
	for i := 0; i < n; i++ {
		for j := 0; j < n; j++ {
			if mask&(1<<uint(i*n+j)) != 0 {
				g.adj[i] = append(g.adj[i], j)
			}
		}
		g.order = append(g.order, i)
	}
	return g
}

func (g *c18Graph) shuffle(r *Rand) {
	g.order = r.Perm(g.n)
	for i := range g.adj {
		p := r.Perm(len(g.adj[i]))
		na := make([]int, len(p))
		for k, q := range p {
			na[k] = g.adj[i][q]
		}
		g.adj[i] = na
	}
}

// c18RuleLevel drives the rule through its exported visitor API (no YAML): used for the exhaustive
// 5-job enumeration where the full linter would be too slow.
func c18RuleLevel(n int, mask uint64) (cyclesReported int, msg string) {
	rule := actionlint.NewRuleJobNeeds()
	for i := 0; i < n; i++ {
		job := &actionlint.Job{ID: &actionlint.String{Value: c18Name(i), Pos: &actionlint.Pos{Line: 3 + i*5, Col: 3}}, Pos: &actionlint.Pos{Line: 3 + i*5, Col: 3}}
		for j := 0; j < n; j++ {
			if mask&(1<<uint(i*n+j)) != 0 {
				job.Needs = append(job.Needs, &actionlint.String{Value: c18Name(j), Pos: &actionlint.Pos{Line: 4 + i*5, Col: 12 + j}})
			}
		}
		rule.VisitJobPre(job)
	}
	rule.VisitWorkflowPost(&actionlint.Workflow{})
	for _, e := range rule.Errs() {
		if strings.Contains(e.Message, "cyclic dependencies") {
			cyclesReported++
			msg = e.Message
		} else {
			return -1, e.Message
		}
	}
	return
}

func runC18(r *Run) {
	r.Rule = "every digraph (self loops allowed) on n<=4 jobs through the real Linter (n=5 exhaustively at rule level in thorough, sampled through the Linter in quick), ids in mixed letter case, needs as scalar/block/flow list, shuffled job and needs order; variants with dangling and duplicate references; random graphs on 6-40 jobs. Non-trivial = distinct rendered workflow whose graph is cyclic or has a dangling reference."
	r.Assume("a workflow consisting only of jobs with needs/runs-on/steps produces no diagnostics other than job-needs ones")

	var fams []*Family
	// exhaustive n = 1..4 through the Linter
	const blk = 512
	for n := 1; n <= 4; n++ {
		n := n
		total := uint64(1) << uint(n*n)
		ncases := int((total + blk - 1) / blk)
		fams = append(fams, &Family{Name: fmt.Sprintf("exhaustive-n%d", n), N: ncases, Do: func(c *Case) {
			lo := uint64(c.Idx) * blk
			hi := lo + blk
			if hi > total {
				hi = total
			}
			for m := lo; m < hi; m++ {
				g := c18FromMask(n, m)
				c18Check(c, g, false, "ex")
				// a second rendering in shuffled order for a deterministic subset
				if mix64(m^c.Seed)%4 == 0 {
					g2 := c18FromMask(n, m)
					g2.shuffle(c.R)
					c18Check(c, g2, false, "exs")
				}
			}
		}})
	}
	// n = 5: rule level exhaustive in thorough; Linter-level sample in both tiers
	{
		n := 5
		total := uint64(1) << 25
		nb := r.Q(64, 1<<13) // blocks
		per := total / uint64(nb)
		if !r.Thorough() {
			per = 2048 // quick: 64 blocks x 2048 masks, spread over the space
		}
		fams = append(fams, &Family{Name: "rule-level-n5", N: nb, Do: func(c *Case) {
			var lo uint64
			if c.Thorough() {
				lo = uint64(c.Idx) * per
			} else {
				lo = (c.R.U64() % (total - per))
			}
			for m := lo; m < lo+per; m++ {
				got, msg := c18RuleLevel(n, m)
				c.Eval(1)
				cyc := refCyclic(n, func(i, j int) bool { return m&(1<<uint(i*n+j)) != 0 })
				want := 0
				if cyc {
					want = 1
					c.Count("cyclic_graphs", 1)
				}
				if got != want {
					c.Violation("C18:rule-level-cycle-count", fmt.Sprintf("n=5 mask=%#x cyclic=%v reported=%d %s", m, cyc, got, msg), map[string]interface{}{"mask": m})
					return
				}
				if cyc {
					// validate the walk
					mm := c18CycleRe.FindStringSubmatch(msg)
					ok := mm != nil
					if ok {
						parts := strings.Split(mm[1], " -> ")
						var walk []int
						for _, p := range parts {
							p = strings.ToLower(strings.Trim(p, `"`))
							idx := -1
							for i := 0; i < n; i++ {
								if strings.ToLower(c18Name(i)) == p {
									idx = i
								}
							}
							walk = append(walk, idx)
						}
						ok = len(walk) >= 2 && walk[0] == walk[len(walk)-1]
						for k := 0; ok && k+1 < len(walk); k++ {
							if walk[k] < 0 || walk[k+1] < 0 || m&(1<<uint(walk[k]*n+walk[k+1])) == 0 {
								ok = false
							}
						}
					}
					if !ok {
						c.Violation("C18:cycle-not-a-closed-walk", fmt.Sprintf("n=5 mask=%#x printed cycle is not a closed walk: %s", m, msg), map[string]interface{}{"mask": m})
						return
					}
					if m%4099 == 0 {
						c.Nontrivial(fmt.Sprintf("rl5|%x", m))
					}
				}
			}
		}})
		fams = append(fams, &Family{Name: "linter-n5-sample", N: r.Q(40, 2000), Do: func(c *Case) {
			for k := 0; k < 100; k++ {
				m := c.R.U64() % total
				// bias towards sparse graphs, where acyclic ones are frequent
				if c.R.Bool() {
					m &= c.R.U64()
				}
				if c.R.Bool() {
					m &= c.R.U64()
				}
				g := c18FromMask(n, m)
				g.shuffle(c.R)
				c18Check(c, g, false, "n5")
			}
		}})
	}
	// dangling / duplicate variants on n<=4
	fams = append(fams, &Family{Name: "dangling-dup", N: r.Q(60, 3000), Do: func(c *Case) {
		for k := 0; k < 100; k++ {
			n := c.R.Range(1, 5)
			m := c.R.U64() & c.R.U64() % (1 << uint(n*n))
			g := c18FromMask(n, m)
			g.shuffle(c.R)
			hasDup := false
			mode := c.R.Intn(3)
			if mode != 1 { // dangling
				nd := c.R.Range(1, 3)
				for d := 0; d < nd; d++ {
					i := c.R.Intn(n)
					name := c.R.Pick([]string{"ghost", "Missing", "alph", "alphaa", "beta2", "NOPE"})
					dupl := false
					for _, x := range g.dang[i] {
						if strings.EqualFold(x, name) {
							dupl = true
						}
					}
					if !dupl {
						g.dang[i] = append(g.dang[i], name)
					}
				}
			}
			if mode != 0 { // duplicates
				i := c.R.Intn(n)
				if len(g.adj[i]) > 0 {
					g.adj[i] = append(g.adj[i], g.adj[i][c.R.Intn(len(g.adj[i]))])
					hasDup = true
				}
			}
			c18Check(c, g, hasDup, "dd")
		}
	}})
	// large random graphs
	fams = append(fams, &Family{Name: "random-large", N: r.Q(40, 1000), Do: func(c *Case) {
		for k := 0; k < 25; k++ {
			n := c.R.Range(6, 40)
			g := &c18Graph{n: n, adj: make([][]int, n), dang: make([][]string, n)}
			perm := c.R.Perm(n) // topological order for the acyclic part
			back := c.R.Intn(3) // number of back edges (0 = acyclic)
			dens := c.R.Range(1, 4)
			for a := 0; a < n; a++ {
				for bb := a + 1; bb < n; bb++ {
					if c.R.Intn(n) < dens {
						g.adj[perm[bb]] = append(g.adj[perm[bb]], perm[a])
					}
				}
			}
			for x := 0; x < back; x++ {
				a := c.R.Intn(n)
				bb := c.R.Intn(n)
				dup := false
				for _, y := range g.adj[a] {
					if y == bb {
						dup = true
					}
				}
				if !dup {
					g.adj[a] = append(g.adj[a], bb)
				}
			}
			g.order = c.R.Perm(n)
			c18Check(c, g, false, "lg")
		}
	}})
	// dense acyclic parts: "terminates for every graph" as bounded progress. The number of PATHS of
	// a ladder where every job needs all earlier ones is 2^(n-2); a search that does not remember
	// finished jobs needs that many calls. Each graph is linted by the real CLI in a child process
	// with a CPU-time limit (RLIMIT_CPU, not wall clock); the unchanged tree needs milliseconds.
	fams = append(fams, &Family{Name: "dense-large", N: r.Q(12, 120), Par: 4, Do: func(c *Case) {
		n := c.R.Range(40, 64)
		g := &c18Graph{n: n, adj: make([][]int, n), dang: make([][]string, n)}
		perm := c.R.Perm(n)
		full := c.Idx%3 != 2 // two thirds complete ladders, one third dense random DAGs
		for a := 0; a < n; a++ {
			for bb := 0; bb < a; bb++ {
				if full || c.R.Intn(10) < 8 {
					g.adj[perm[a]] = append(g.adj[perm[a]], perm[bb])
				}
			}
		}
		cyc := c.Idx%2 == 1
		if cyc { // a back edge from the first job of the ladder to the last one
			g.adj[perm[0]] = append(g.adj[perm[0]], perm[n-1])
		}
		g.order = c.R.Perm(n)
		if c.Idx%4 == 0 { // written in topological order: the search enters at the top of the ladder
			for i := range g.order {
				g.order[i] = perm[n-1-i]
			}
		}
		e := c18Render(c.R, g, 3)
		root := mkScratch("c18")
		defer os.RemoveAll(root)
		writeFiles(root, map[string]string{".github/workflows/w.yml": e.src, ".git/HEAD": "ref: refs/heads/main\n"})
		const cpuBudget = 60
		cmd := exec.Command("sh", "-c", fmt.Sprintf("ulimit -t %d; exec %s -oneline -no-color -shellcheck= -pyflakes= .github/workflows/w.yml", cpuBudget, filepath.Join(binDir(), "actionlint")))
		cmd.Dir = root
		outb, err := cmd.CombinedOutput()
		c.Eval(1)
		c.Count("dense_graphs", 1)
		c.Count("dense_graph_edges", func() int { t := 0; for _, a := range g.adj { t += len(a) }; return t }())
		det := map[string]interface{}{"jobs": n, "cyclic": cyc, "complete_ladder": full, "source": e.src, "output": truncate(string(outb), 2000)}
		status := 0
		if err != nil {
			ee, ok := err.(*exec.ExitError)
			if !ok {
				c.Inconclusive("dense-large: the CLI could not be started: " + err.Error())
				return
			}
			if ws, ok := ee.Sys().(syscall.WaitStatus); ok && ws.Signaled() {
				if ws.Signal() == syscall.SIGXCPU || ws.Signal() == syscall.SIGKILL {
					c.Violation("C18:dense-graph-check-exceeds-cpu-budget", fmt.Sprintf("the dependency check of a %d-job graph with a dense acyclic part did not finish within %d s of CPU time (the unchanged tree needs milliseconds): the search revisits finished jobs", n, cpuBudget), det)
					return
				}
				c.Violation("C18:dense-graph-crash", "the CLI was killed by "+ws.Signal().String(), det)
				return
			}
			status = ee.ExitCode()
		}
		lines := 0
		cycles := 0
		for _, l := range strings.Split(strings.TrimSpace(string(outb)), "\n") {
			if l == "" {
				continue
			}
			lines++
			if strings.Contains(l, "cyclic dependencies in \"needs\"") {
				cycles++
			}
		}
		want := 0
		if cyc {
			want = 1
		}
		if cycles != want || lines != want || (status != 0) != cyc {
			c.Violation("C18:dense-graph-verdict", fmt.Sprintf("%d-job dense graph, cyclic=%v: %d cycle diagnostics in %d lines, exit %d", n, cyc, cycles, lines, status), det)
			return
		}
		c.Nontrivial(fmt.Sprintf("dense|%d|%v|%v|%x", n, cyc, full, hashStr(e.src)))
	}})
	r.RunFamilies(fams)
	if r.Counter("dense_graphs") < 12 {
		r.Inconclusive("too few dense graphs were checked under the CPU budget")
	}
	r.SetExhaustive(true)
	if r.Thorough() {
		r.Extra("exhaustive_bound", "all digraphs on <=4 jobs via Linter; all 2^25 digraphs on 5 jobs via rule API")
	} else {
		r.Extra("exhaustive_bound", "all digraphs on <=4 jobs via Linter (n=5 sampled)")
	}
}
