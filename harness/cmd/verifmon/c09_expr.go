package main

// C09, expression level: an expression B in a later scalar must get the same diagnostics with and
// without an earlier expression A. A ranges over every node kind of the expression language (in
// particular object / array filters over matrix, steps and needs values), B over plain accesses of
// the same values. The workflow is otherwise fixed, so positions are compared absolutely.

import (
	"fmt"
	"sort"
	"strings"
)

// every node kind: variable, null/bool/int/float/string literal, object deref, array deref (.*),
// index access, function call, !, comparison, && and ||, grouping; plus syntax and semantic errors.
var c09ExprA = []string{
	// array / object filters over per-job shared types
	"matrix.x.*", "matrix.ao.*", "matrix.ao.*.a", "matrix.o.arr.*", "matrix.o.ao.*", "matrix.o.ao.*.k", "matrix.aa.*", "matrix.aa.*.*",
	"matrix.*", "matrix.*.a", "matrix.o.*", "matrix.s.*", "matrix.nope.*",
	"steps.*", "steps.*.outputs", "steps.*.outputs.cache-hit", "steps.*.outcome", "steps.first.outputs.*", "steps.second.outputs.*", "steps.first.*",
	"needs.*", "needs.*.result", "needs.*.outputs", "needs.*.outputs.o1", "needs.dep1.outputs.*", "needs.dep1.*",
	"github.event.commits.*.message", "github.event.*", "github.*", "env.*", "inputs.*", "secrets.*", "job.services.*", "job.services.*.ports", "strategy.*",
	// the same through functions, operators, indices
	"join(matrix.x.*, ',')", "join(matrix.ao.*.a)", "contains(matrix.x.*, 1)", "contains(matrix.ao.*.a, 1)", "toJSON(matrix.x.*)", "toJSON(matrix.ao.*)",
	"fromJSON(toJSON(matrix.x)).*", "fromJSON('[[1],[2]]').*", "format('{0}', matrix.x.*)", "format('{0}{1}', matrix.aa.*, matrix.ao.*.b)",
	"matrix['x'].*", "matrix.o['arr'].*", "matrix['ao'].*.a", "matrix.x[0]", "matrix.ao[0].a", "matrix.x[matrix.n]", "matrix.aa[0].*", "matrix.aa.*[0]",
	"steps['first'].outputs['cache-hit']", "steps['first']['outputs'].*", "needs['dep1'].outputs.*", "needs[matrix.s].outputs",
	"matrix.x.* == null", "matrix.x.* == matrix.aa.*", "matrix.ao.* != matrix.x", "!matrix.x.*", "!matrix.ao.*.a", "matrix.s < matrix.n", "matrix.x.* >= 1",
	"matrix.x.* && matrix.ao.*", "matrix.x.* || matrix.s", "matrix.x || matrix.ao", "matrix.x || matrix.aa", "(matrix.x || matrix.aa).*", "(matrix.ao || matrix.x).*.a",
	"(matrix.x && matrix.x).*", "matrix.o || steps.first", "(matrix.o || needs.dep1).*", "(steps.first || steps.second).outputs.*", "(needs.dep1 || needs.dep2).outputs.*",
	"(needs.dep1.outputs || needs.dep2.outputs).include", "success() && matrix.x.*", "always() || matrix.ao.*.a", "(matrix.x.*)", "((matrix.ao).*).a",
	"matrix.o.arr.* && matrix.o.ao.*.k", "toJSON(matrix)", "toJSON(steps)", "toJSON(needs)", "toJSON(github)", "toJSON(inputs)", "matrix", "steps", "needs", "inputs", "github.event",
	// plain accesses and literals
	"matrix.x", "matrix.ao", "matrix.o.arr", "steps.first.outputs", "needs.dep1.outputs", "needs.dep1", "github.sha", "env.FOO", "runner.os", "inputs.include",
	"null", "true", "false", "42", "-1", "1.5", "0x10", "'str'", "''",
	"contains('abc', 'a')", "startsWith(github.ref, 'refs/')", "endsWith(matrix.s, 'x')", "hashFiles('**/go.sum', matrix.s)", "format('{0} {1}', 1)", "fromJSON('{\"a\":[1]}').a.*", "fromJSON('nope')",
	// semantic errors
	"matrix.x.a", "matrix.nope", "steps.nope.outputs.v", "needs.nope.result", "nosuch.*", "undefinedfn(matrix.x.*)", "join(matrix.ao.*)", "contains(1)", "matrix.s.*.a",
	// syntax errors (c09ExprSyntaxErr must list exactly these)
	"matrix.x.", "matrix.x.* +", "matrix.x.*.", "(matrix.x.*", "matrix.x.* 'x", "matrix.ao.*.a ==",
}

// A's that do not parse: the rest of their scalar is not checked (one error per string), and the
// error may be located after B, so they are not used in the same scalar as B.
var c09ExprSyntaxErr = []string{"matrix.x.", "matrix.x.* +", "matrix.x.*.", "(matrix.x.*", "matrix.x.* 'x", "matrix.ao.*.a =="}

// A's that are used at the positions inside "strategy.matrix" (value of matrix:, of a row, of
// include: / exclude: and of their elements): context objects of the job and values built from
// them. github / github.event are left to the serial global-table family.
var c09ExprAMatrix = []string{
	"needs.dep1.outputs", "needs.dep2.outputs", "inputs", "needs.dep1", "needs", "needs.dep1.outputs || needs.dep2.outputs", "needs.dep1.outputs && inputs",
	"steps", "steps.first.outputs", "vars", "needs.*.outputs", "needs.*", "inputs.*",
	"fromJSON('{\"include\":[{\"z\":1}],\"x\":[1]}')", "fromJSON('[{\"include\":1,\"o1\":[1]}]')", "fromJSON(needs.dep1.outputs.o1)", "fromJSON(inputs.foo)", "fromJSON(toJSON(needs.dep1.outputs))",
	"needs.dep1.outputs.include", "inputs.include", "toJSON(needs)",
}

// positions inside strategy.matrix
const (
	c09MPosMatrix = iota
	c09MPosRow
	c09MPosIncludeWhole
	c09MPosIncludeFirstElem
	c09MPosIncludeElemAfterRows
	c09MPosExcludeWhole
	c09MPosExcludeElem
	c09NumMPos
)

var c09MPosNames = []string{"matrix-value", "matrix-row-value", "include-value", "include-first-element", "include-element-after-rows", "exclude-value", "exclude-element"}

var c09ExprB = []string{
	"matrix.x", "matrix.x.a", "matrix.x[0]", "matrix.x.*", "matrix.x[0].a", "matrix.ao", "matrix.ao.a", "matrix.ao.b", "matrix.ao.nope", "matrix.ao[0].a", "matrix.ao.*.a",
	"matrix.o", "matrix.o.a", "matrix.o.arr", "matrix.o.arr.a", "matrix.o.arr[0]", "matrix.o.ao", "matrix.o.ao.k", "matrix.o.ao[0].k", "matrix.o.nope",
	"matrix.aa", "matrix.aa.a", "matrix.aa[0]", "matrix.aa[0].a", "matrix.aa[0][0]", "matrix.aa.*.a", "matrix.s", "matrix.s.a", "matrix.n", "matrix.nope", "matrix",
	"join(matrix.x, ',')", "join(matrix.x.a)", "contains(matrix.x, 1)", "join(matrix.ao.a)", "toJSON(matrix.x)", "matrix.x == matrix.aa", "matrix.x || matrix.s", "format('{0}', matrix.ao.a)",
	"steps.first.outputs.cache-hit", "steps.first.outputs.nope", "steps.first.outputs", "steps.second.outputs.any", "steps.second.outputs", "steps.first.a", "steps.first", "steps.nope", "steps.first.outputs.a.b",
	"needs.dep1.outputs.o1", "needs.dep1.outputs.include", "needs.dep1.outputs.exclude", "needs.dep1.outputs.nope", "needs.dep1.result", "needs.dep1.outputs", "needs.dep2.outputs.include", "needs.dep2.outputs.o1", "needs.nope", "needs.dep1.a",
	"github.event.foo", "github.event.foo.bar", "github.event", "github.sha.a", "github.event.pull_request.title", "env.FOO", "env.FOO.a", "env", "inputs.include", "inputs.exclude", "inputs.foo", "inputs.nope", "inputs",
	"secrets.TOKEN", "secrets.a.b", "job.services.db.id", "job.services.db.ports.p", "job.services.a.b.c", "strategy.job-index", "strategy.nope.a", "vars.V1", "runner.os",
}

// expressions for the probe step's shell: (a place without workflow key)
var c09ExprProbes = []string{
	"${{ hashFiles('go.sum') && 'bash' || 'sh' }}",
	"${{ always() && 'bash' || 'sh' }}",
	"${{ runner.os == 'Linux' && 'bash' || 'sh' }}",
	"${{ success() && hashFiles('a') || 'sh' }}",
}

const (
	c09PosJobName = iota
	c09PosJobEnv
	c09PosJobIf
	c09PosContainer
	c09PosStepName
	c09PosStepRun
	c09PosStepEnv
	c09PosStepWith
	c09PosStepIf
	c09PosSameStep
	c09PosSameScalar
	c09NumPos
)

var c09PosNames = []string{"job-name", "job-env", "job-if", "container-image", "step-name", "step-run", "step-env", "step-with", "step-if", "same-step-earlier-key", "same-scalar"}

type c09ExprDoc struct {
	src   string
	aLine int // line of the scalar holding A (0 if none)
	b0Col int // column of "${{" of the first B when it shares its scalar with A
	b0Ln  int
	bLine []int // line of B k
}

// c09ExprRender renders the fixed workflow. a == "" renders the neutral variant. mpos >= 0: A sits
// at a position inside strategy.matrix (then the matrix differs from the usual one and the B list
// must not mention matrix); otherwise pos says where A is.
func c09ExprRender(a string, pos int, mpos int, bs []string, styleSeed int) c09ExprDoc {
	b := NewYB()
	var d c09ExprDoc
	ph := func(neutral string) string { // the scalar text carrying A
		if a == "" {
			return neutral
		}
		return "${{ " + a + " }}"
	}
	at := func(p int) bool { return mpos < 0 && pos == p }
	mark := func() { d.aLine = b.Pos().Line }

	b.L(0, "on:")
	b.L(2, "workflow_dispatch:")
	b.L(4, "inputs:")
	for _, n := range []string{"include", "exclude", "foo"} {
		b.L(6, n+":")
		b.L(8, "type: string")
	}
	b.L(0, "jobs:")
	b.L(2, "dep1:")
	b.L(4, "runs-on: ubuntu-latest")
	b.L(4, "outputs:")
	b.L(6, "o1: a")
	b.L(6, "include: b")
	b.L(6, "exclude: c")
	b.L(4, "steps:")
	b.L(6, "- run: echo")
	b.L(2, "dep2:")
	b.L(4, "runs-on: ubuntu-latest")
	b.L(4, "outputs:")
	b.L(6, "o1: a")
	b.L(6, "include: b")
	b.L(4, "steps:")
	b.L(6, "- run: echo")
	b.L(2, "main:")
	b.L(4, "needs: [dep1, dep2]")
	b.L(4, "runs-on: ubuntu-latest")
	if at(c09PosJobName) {
		mark()
		b.L(4, "name: job "+ph("plain"))
	}
	if at(c09PosJobEnv) {
		b.L(4, "env:")
		mark()
		b.L(6, "JE: "+ph("plain"))
	}
	if at(c09PosJobIf) {
		mark()
		b.L(4, "if: "+ph("true"))
	}
	if at(c09PosContainer) {
		b.L(4, "container:")
		mark()
		b.L(6, "image: "+ph("node:20"))
	}
	b.L(4, "services:")
	b.L(6, "db:")
	b.L(8, "image: pg")
	b.L(4, "strategy:")
	mph := func(neutral string) string { // A at a matrix position is replaced by an expression, too
		if a == "" {
			return "${{ " + neutral + " }}"
		}
		return "${{ " + a + " }}"
	}
	switch mpos {
	case c09MPosMatrix:
		mark()
		b.L(6, "matrix: "+mph("fromJSON('{\"q\":[1]}')"))
	case c09MPosRow:
		b.L(6, "matrix:")
		b.L(8, "s: [p, q]")
		mark()
		b.L(8, "zz: "+mph("fromJSON('[1]')"))
	case c09MPosIncludeWhole:
		b.L(6, "matrix:")
		b.L(8, "s: [p, q]")
		mark()
		b.L(8, "include: "+mph("fromJSON('[{\"q\":1}]')"))
	case c09MPosIncludeFirstElem:
		b.L(6, "matrix:")
		b.L(8, "include:")
		mark()
		b.L(10, "- "+mph("fromJSON('{\"q\":1}')"))
		b.L(10, "- include: [1, 2]")
		b.L(10, "  o1: {a: 1}")
		b.L(10, "  foo: [[1]]")
		b.L(10, "- exclude: 1")
	case c09MPosIncludeElemAfterRows:
		b.L(6, "matrix:")
		b.L(8, "s: [p, q]")
		b.L(8, "include:")
		b.L(10, "- s: r")
		mark()
		b.L(10, "- "+mph("fromJSON('{\"q\":1}')"))
		b.L(10, "- include: [1, 2]")
		b.L(10, "  o1: {a: 1}")
	case c09MPosExcludeWhole:
		b.L(6, "matrix:")
		b.L(8, "s: [p, q]")
		mark()
		b.L(8, "exclude: "+mph("fromJSON('[{\"s\":\"p\"}]')"))
	case c09MPosExcludeElem:
		b.L(6, "matrix:")
		b.L(8, "s: [p, q]")
		b.L(8, "exclude:")
		mark()
		b.L(10, "- "+mph("fromJSON('{\"s\":\"p\"}')"))
		b.L(10, "- s: p")
	default:
		b.L(6, "matrix:")
		b.L(8, "x:")
		b.L(10, "- [1, 2]")
		b.L(10, "- [3]")
		b.L(8, "ao:")
		b.L(10, "- [{a: 1, b: u}]")
		b.L(10, "- [{a: 2, b: v}, {a: 3, b: w}]")
		b.L(8, "o:")
		b.L(10, "- {a: 1, arr: [1, 2], ao: [{k: 1}]}")
		b.L(10, "- {a: 2, arr: [3], ao: [{k: 2}]}")
		b.L(8, "aa:")
		b.L(10, "- [[1], [2]]")
		b.L(8, "s: [p, q]")
		b.L(8, "n: [1, 2]")
	}
	b.L(4, "steps:")
	b.L(6, "- id: first")
	b.L(6, "  uses: actions/cache@v4")
	b.L(6, "  with:")
	b.L(6, "    path: p")
	b.L(6, "    key: k")
	b.L(6, "- id: second")
	b.L(6, "  run: echo")
	switch {
	case at(c09PosStepName):
		mark()
		b.L(6, "- name: "+ph("plain"))
		b.L(6, "  run: echo")
	case at(c09PosStepRun):
		mark()
		b.L(6, "- run: echo "+ph("plain"))
	case at(c09PosStepEnv):
		b.L(6, "- run: echo")
		b.L(6, "  env:")
		mark()
		b.L(6, "    SE: "+ph("plain"))
	case at(c09PosStepWith):
		b.L(6, "- uses: octo/some-action@v1")
		b.L(6, "  with:")
		mark()
		b.L(6, "    arg: "+ph("plain"))
	case at(c09PosStepIf):
		b.L(6, "- run: echo")
		mark()
		c0 := byte('(')
		if a != "" {
			c0 = a[0]
		}
		if a != "" && (c0 >= 'a' && c0 <= 'z') && styleSeed%2 == 0 {
			b.L(6, "  if: "+a) // bare condition
		} else {
			b.L(6, "  if: "+ph("true"))
		}
	}
	// probe step: an expression at a place that has no entry in the availability table (shell:),
	// calling a special function or reading a context. What is allowed there must not be inherited
	// from the expression checked just before it (A, or the first B when A shares its step).
	probe := func() {
		b.L(6, "- run: echo")
		b.L(6, "  shell: "+c09ExprProbes[styleSeed%len(c09ExprProbes)])
	}
	probeAfterFirstB := at(c09PosSameStep) || at(c09PosSameScalar)
	if !probeAfterFirstB {
		probe()
	}
	for k, e := range bs {
		if k == 1 && probeAfterFirstB {
			probe()
		}
		d.bLine = append(d.bLine, 0)
		first := k == 0
		switch {
		case first && at(c09PosSameStep):
			mark()
			b.L(6, "- name: "+ph("plain"))
			d.bLine[k] = b.Pos().Line
			b.L(6, "  run: echo ${{ "+e+" }}")
			continue
		case first && at(c09PosSameScalar):
			mark()
			pre := "- run: echo ${{ " + a + " }}"
			b.W("      ")
			b.W(pre + " ")
			p := b.W("${{ " + e + " }}")
			b.W("\n")
			d.b0Col, d.b0Ln = p.Col, p.Line
			d.bLine[k] = p.Line
			continue
		}
		switch (k + styleSeed) % 4 {
		case 0:
			d.bLine[k] = b.Pos().Line
			b.L(6, "- run: echo ${{ "+e+" }}")
		case 1:
			d.bLine[k] = b.Pos().Line
			b.L(6, "- name: n ${{ "+e+" }}")
			b.L(6, "  run: echo")
		case 2:
			b.L(6, "- run: echo")
			b.L(6, "  env:")
			d.bLine[k] = b.Pos().Line
			b.L(6, "    BE: ${{ "+e+" }}")
		default:
			b.L(6, "- run: echo")
			d.bLine[k] = b.Pos().Line
			b.L(6, "  if: ${{ "+e+" }}")
		}
	}
	d.src = b.String()
	return d
}

// c09ExprNeutral renders the variant without A. When A shares its scalar with the first B it is
// replaced by blanks of the same width so that the column of B stays.
func c09ExprNeutral(a string, pos int, mpos int, bs []string, styleSeed int) c09ExprDoc {
	if mpos < 0 && pos == c09PosSameScalar {
		d := c09ExprRender(a, pos, mpos, bs, styleSeed)
		lines := strings.Split(d.src, "\n")
		l := lines[d.b0Ln-1]
		i := strings.Index(l, "${{ "+a+" }}")
		lines[d.b0Ln-1] = l[:i] + strings.Repeat(" ", len("${{ "+a+" }}")) + l[i+len("${{ "+a+" }}"):]
		d.src = strings.Join(lines, "\n")
		return d
	}
	return c09ExprRender("", pos, mpos, bs, styleSeed)
}

func c09ExprCase(c *Case, fam string, a string, pos int, mpos int) {
	wholeMatrix := mpos >= 0
	r := c.R
	if !wholeMatrix && pos == c09PosSameScalar {
		for _, s := range c09ExprSyntaxErr {
			if s == a {
				pos = c09PosSameStep
			}
		}
	}
	// B list: rotated, and without matrix accesses when the matrix itself is replaced
	var bs []string
	for _, e := range c09ExprB {
		if wholeMatrix && strings.Contains(e, "matrix") {
			continue
		}
		bs = append(bs, e)
	}
	rot := r.Intn(len(bs))
	bs = append(append([]string{}, bs[rot:]...), bs[:rot]...)
	style := r.Intn(4)
	with := c09ExprRender(a, pos, mpos, bs, style)
	without := c09ExprNeutral(a, pos, mpos, bs, style)
	if countLines(with.src) != countLines(without.src) {
		c.Violation("C09:exprs:monitor-bug-line-shift", "monitor bug: the neutral variant has a different number of lines", map[string]interface{}{"with": with.src, "without": without.src})
		return
	}
	dw, err1 := lintSrc(with.src)
	dn, err2 := lintSrc(without.src)
	c.Eval(2)
	if err1 != nil || err2 != nil {
		c.Violation("C09:exprs:fatal-error", fmt.Sprintf("fatal error: %v / %v", err1, err2), map[string]interface{}{"src": with.src})
		return
	}
	if c09HasYAMLError(dw) || c09HasYAMLError(dn) {
		c.Violation("C09:exprs:generator-emitted-invalid-yaml", "monitor bug: generated workflow is not YAML", map[string]interface{}{"src": with.src, "src_neutral": without.src, "diags": diagStrings(dw), "diags_neutral": diagStrings(dn)})
		return
	}
	sameScalar := !wholeMatrix && pos == c09PosSameScalar
	if sameScalar {
		// B in the same scalar is only checked when A is error free (one error per string by design)
		for _, x := range dw {
			if x.Line == with.aLine && x.Col < with.b0Col && !strings.Contains(x.Msg, "should not be evaluated in template") {
				sameScalar = false
				c.Count("same_scalar_skipped_A_has_error", 1)
				break
			}
		}
		if sameScalar {
			c.Count("same_scalar_compared", 1)
		}
	}
	sel := func(ds []Diag) []string {
		var out []string
		for _, x := range ds {
			if x.Line == with.aLine {
				if !(sameScalar && x.Col >= with.b0Col) {
					continue
				}
			}
			out = append(out, x.String())
		}
		return out
	}
	sw, sn := sel(dw), sel(dn)
	for _, x := range dn {
		if strings.Contains(x.Msg, "is not allowed here") || strings.Contains(x.Msg, "is not available here") {
			c.Count("unkeyed_probe_reports", 1)
			break
		}
	}
	sort.Strings(sw)
	sort.Strings(sn)
	c.Count("expr_pairs", len(bs))
	where := ""
	if wholeMatrix {
		where = c09MPosNames[mpos]
	} else {
		where = c09PosNames[pos]
	}
	c.SetAdd("A_positions", where)
	if len(sn) > 0 {
		c.Nontrivial(fam + "|" + a + "|" + fmt.Sprint(pos, mpos, rot, style))
	}
	if c.Verbose {
		c.Logf("A = %q at %s\n--- with A\n%s\n--- diagnostics with A\n%s\n--- diagnostics with neutral text\n%s", a, where, with.src, strings.Join(diagStrings(dw), "\n"), strings.Join(diagStrings(dn), "\n"))
	}
	if c.Idx == 0 {
		c.Sample(map[string]interface{}{"family": fam, "A": a, "A_position": where, "src": with.src, "diags_with_A": diagStrings(dw), "diags_with_neutral_text": diagStrings(dn)})
	}
	if c09Equal(sw, sn) {
		return
	}
	onlyN, onlyW := c09Diff(sn, sw)
	// name the first affected B
	affected := ""
	for _, lst := range [][]string{onlyN, onlyW} {
		for _, s := range lst {
			var ln int
			fmt.Sscanf(s, "%d:", &ln)
			for k, bl := range with.bLine {
				if bl == ln && affected == "" {
					affected = bs[k]
				}
			}
		}
	}
	c.Violation(c09Sig("exprs", onlyN, onlyW),
		fmt.Sprintf("checking ${{ %s }} (at %s) changes the diagnostics of a later expression (first affected: ${{ %s }})", a, where, affected),
		map[string]interface{}{"src": with.src, "src_neutral": without.src, "A": a, "A_position": where, "first_affected_B": affected,
			"expected_only_without_A": onlyN, "observed_only_with_A": onlyW})
}

func c09ExprFamilies(r *Run) []*Family {
	rep := r.Q(1, 12)
	nA := len(c09ExprA)
	f1 := &Family{Name: "expr-pairs", N: nA * c09NumPos * rep, Do: func(c *Case) {
		i := c.Idx % (nA * c09NumPos)
		c09ExprCase(c, "expr-pairs", c09ExprA[i/c09NumPos], i%c09NumPos, -1)
	}}
	nM := len(c09ExprAMatrix)
	f2 := &Family{Name: "expr-matrix-positions", N: nM * c09NumMPos * r.Q(1, 12), Do: func(c *Case) {
		i := c.Idx % (nM * c09NumMPos)
		c09ExprCase(c, "expr-matrix-positions", c09ExprAMatrix[i/c09NumMPos], 0, i%c09NumMPos)
	}}
	return []*Family{f1, f2}
}
