package main

// C10 — multi-file runs: isolated and race-free.
//   (1) race detector: the workloads below run in -race builds of this monitor; every report whose
//       stacks touch actionlint code is a violation;
//   (2) fingerprints of the built-in tables and of the shared *Config before / after;
//   (3) isolation: per-file diagnostics of LintFiles(files) == LintFile(f) with a fresh Linter, for
//       subsets, argument orders, GOMAXPROCS and seeded delays at the hook points;
//   (4) the two derivations of a reusable workflow's interface (file / AST) agree.

import (
	"fmt"
	"io"
	"os"
	"path/filepath"
	"runtime"
	"sort"
	"strconv"
	"strings"

	"github.com/rhysd/actionlint"
)

func init() {
	registry["C10"] = runC10
	subcommands["c10-worker"] = c10WorkerMain
}

// ---------------------------------------------------------------------------
// project generator

type c10Repo struct {
	Dir   string // relative to the scratch root
	Tag   string // unique suffix used in labels, variables, inputs
	Files []string
}

type c10Layout struct {
	Name  string
	Files map[string]string // relative path -> content
	Lint  []string          // workflow files that are candidates for linting (relative paths)
	Cwd   string            // working directory of the linter, relative to the scratch root ("" = the root)
	// Symlinks are created after Files: link path -> target (relative to the link's directory)
	Symlinks map[string]string
	// Clean lists probe workflows which use only their own repository's label, variable, local
	// action and reusable workflow correctly: they have no diagnostic iff they are attributed to
	// the repository that contains them
	Clean  []string
	// Dirty lists probe workflows which misuse their own repository's local action and reusable
	// workflow: file -> names that must each be named by exactly one diagnostic (and nothing else
	// is reported). A callee that is silently not found makes these disappear.
	Dirty  map[string][]string
	Traits []string
}

func c10ProbeBad(tag string) (string, []string) {
	return "on: push\njobs:\n  own:\n    runs-on: ubuntu-latest\n    steps:\n      - uses: ./act\n        with:\n          wrong_" + tag + ": x\n" +
			"  call:\n    uses: ./.github/workflows/reusable.yml\n    with:\n      nope_" + tag + ": x\n",
		[]string{"\"wrong_" + tag + "\"", "\"in_" + tag + "\"", "\"nope_" + tag + "\"", "\"rin_" + tag + "\"", "\"sec_" + tag + "\""}
}

func c10Probe(tag string) string {
	return "on: push\njobs:\n  own:\n    runs-on: [self-hosted, lbl-" + tag + "]\n    steps:\n      - run: echo ${{ vars.VAR_" + tag + " }}\n      - id: a\n        uses: ./act\n        with:\n          in_" + tag + ": x\n      - run: echo ${{ steps.a.outputs.out_" + tag + " }}\n" +
		"  call:\n    uses: ./.github/workflows/reusable.yml\n    with:\n      rin_" + tag + ": x\n    secrets:\n      sec_" + tag + ": ${{ secrets.S }}\n  after:\n    needs: [call]\n    runs-on: ubuntu-latest\n    steps:\n      - run: echo ${{ needs.call.outputs.rout_" + tag + " }}\n"
}

func c10Reusable(tag string) string {
	return "on:\n  workflow_call:\n    inputs:\n      rin_" + tag + ":\n        required: true\n        type: string\n      opt_" + tag + ":\n        type: number\n        default: 1\n    secrets:\n      sec_" + tag + ":\n        required: true\n    outputs:\n      rout_" + tag + ":\n        value: ${{ jobs.j.outputs.o }}\njobs:\n  j:\n    runs-on: ubuntu-latest\n    outputs:\n      o: ${{ steps.s.outputs.v }}\n    steps:\n      - id: s\n        run: echo \"v=${{ inputs.rin_" + tag + " }}\" >> \"$GITHUB_OUTPUT\"\n        env:\n          T: ${{ secrets.sec_" + tag + " }}\n"
}

func c10Action(tag string) string {
	return "name: act " + tag + "\ndescription: local action\ninputs:\n  in_" + tag + ":\n    description: x\n    required: true\n  opt_" + tag + ":\n    description: y\n    default: d\noutputs:\n  out_" + tag + ":\n    description: z\nruns:\n  using: node20\n  main: index.js\n"
}

func c10Config(tag string) string {
	return "self-hosted-runner:\n  labels:\n    - zz-" + tag + "\n    - lbl-" + tag + "\n    - aa-" + tag + "\nconfig-variables:\n  - ZVAR_" + tag + "\n  - VAR_" + tag + "\n  - AVAR_" + tag + "\n"
}

// c10Workflow builds one workflow of repository `tag` from feature snippets chosen by r. Features
// either depend on the repository's own config / local action / reusable workflow (clean only with
// the right repository) or produce diagnostics whose text is built from shared tables.
func c10Workflow(r *Rand, tag string, inRepo bool) string {
	var on []string
	var jobs strings.Builder
	on = append(on, "  push:\n")
	if r.Chance(1, 2) {
		on = append(on, "  issues:\n    types: [opened, bogus_"+tag+"]\n") // message lists the webhook's activity types
	}
	if r.Chance(1, 3) {
		on = append(on, "  pull_request:\n    types: [bogus, nope]\n")
	}
	if r.Chance(1, 3) {
		on = append(on, "  label:\n    types: [wrong]\n")
	}
	perm := ""
	if r.Chance(1, 3) {
		perm = "permissions:\n  bogus-scope: read\n  contents: read\n"
	}
	nj := 0
	job := func(body string) {
		nj++
		jobs.WriteString(fmt.Sprintf("  job%d:\n%s", nj, body))
	}
	// own config: label + variable (clean only with this repository's config)
	job("    runs-on: [self-hosted, lbl-" + tag + "]\n    steps:\n      - run: echo ${{ vars.VAR_" + tag + " }}\n")
	if r.Chance(2, 3) { // undefined config variable: message lists the configured variables
		job("    runs-on: ubuntu-latest\n    steps:\n      - run: echo ${{ vars.UNDEFINED_" + tag + " }}\n")
	}
	if r.Chance(1, 2) { // unknown label: message lists all known labels + configured ones
		job("    runs-on: unknown-" + tag + "\n    steps:\n      - run: echo\n")
	}
	if r.Chance(1, 2) {
		job("    runs-on: ubuntu-latest\n    steps:\n      - run: echo\n        shell: bogus-shell\n")
	}
	if r.Chance(1, 2) {
		job("    runs-on: ubuntu-latest\n    steps:\n      - uses: actions/checkout@v4\n        with:\n          bogus_input: 1\n      - uses: actions/setup-node@v4\n        with:\n          nope: 2\n")
	}
	if r.Chance(1, 2) {
		job("    runs-on: ubuntu-latest\n    steps:\n      - run: echo ${{ github.bogus }} ${{ runner.nope }}\n      - run: echo ${{ github.event.issue.title }}\n")
	}
	if r.Chance(1, 3) {
		job("    runs-on: ubuntu-latest\n    steps:\n      - run: echo ${{ unknownfn(1) }}\n")
	}
	if r.Chance(1, 3) { // matrix built from shared (global) context types plus literal entries
		job("    strategy:\n      matrix:\n        include:\n          - ${{ " + r.Pick([]string{"github.event", "github.event.inputs", "fromJSON(github.event.client_payload)", "github.event.pull_request"}) + " }}\n          - extra_" + tag + ": v\n            os_" + tag + ": w\n    runs-on: ubuntu-latest\n    steps:\n      - run: echo ${{ matrix.extra_" + tag + " }}\n")
	}
	if inRepo && r.Chance(3, 4) { // local action of this repository
		job("    runs-on: ubuntu-latest\n    steps:\n      - id: a\n        uses: ./act\n        with:\n          in_" + tag + ": x\n      - run: echo ${{ steps.a.outputs.out_" + tag + " }}\n")
	}
	if inRepo && r.Chance(1, 3) { // wrong use of the local action: messages list its inputs
		job("    runs-on: ubuntu-latest\n    steps:\n      - uses: ./act\n        with:\n          wrong_" + tag + ": x\n")
	}
	if inRepo && r.Chance(3, 4) { // reusable workflow of this repository
		jobs.WriteString("  call:\n    uses: ./.github/workflows/reusable.yml\n    with:\n      rin_" + tag + ": x\n    secrets:\n      sec_" + tag + ": ${{ secrets.S }}\n")
		jobs.WriteString("  after:\n    needs: [call]\n    runs-on: ubuntu-latest\n    steps:\n      - run: echo ${{ needs.call.outputs.rout_" + tag + " }}\n")
		if r.Chance(1, 2) {
			jobs.WriteString("  badcall:\n    uses: ./.github/workflows/reusable.yml\n    with:\n      nope_" + tag + ": x\n      rin_" + tag + ": 1\n      opt_" + tag + ": notanumber\n    secrets:\n      other: x\n")
		}
	}
	return "on:\n" + strings.Join(on, "") + perm + "jobs:\n" + jobs.String()
}

func c10AddRepo(l *c10Layout, r *Rand, dir, tag string, nwf int, withConfig bool) {
	c10AddRepoGit(l, r, dir, tag, nwf, withConfig, r.Chance(1, 4))
}

// c10AddRepoGit: gitFile makes ".git" a regular file ("gitdir: ..."), as in a linked worktree or a
// submodule, instead of a directory.
func c10AddRepoGit(l *c10Layout, r *Rand, dir, tag string, nwf int, withConfig, gitFile bool) {
	if gitFile {
		l.Files[filepath.Join(dir, ".git")] = "gitdir: /nonexistent/.git/modules/" + tag + "\n"
		l.Traits = append(l.Traits, "git-file")
	} else {
		l.Files[filepath.Join(dir, ".git", "HEAD")] = "ref: refs/heads/main\n"
	}
	if withConfig {
		l.Files[filepath.Join(dir, ".github", "actionlint.yaml")] = c10Config(tag)
	}
	if l.Symlinks == nil {
		l.Symlinks = map[string]string{}
	}
	if r.Chance(1, 5) { // the action's metadata file is a symbolic link
		l.Files[filepath.Join(dir, "shared", "action-target.yml")] = c10Action(tag)
		l.Symlinks[filepath.Join(dir, "act", "action.yml")] = filepath.Join("..", "shared", "action-target.yml")
		l.Traits = append(l.Traits, "symlinked-action")
	} else {
		l.Files[filepath.Join(dir, "act", "action.yml")] = c10Action(tag)
	}
	l.Files[filepath.Join(dir, "act", "index.js")] = "\n"
	reusable := filepath.Join(dir, ".github", "workflows", "reusable.yml")
	if r.Chance(1, 4) { // the called workflow is a symbolic link to a file elsewhere in the repository
		l.Files[filepath.Join(dir, "shared", "reusable-target.yml")] = c10Reusable(tag)
		l.Symlinks[reusable] = filepath.Join("..", "..", "shared", "reusable-target.yml")
		l.Traits = append(l.Traits, "symlinked-callee")
	} else {
		l.Files[reusable] = c10Reusable(tag)
	}
	l.Lint = append(l.Lint, reusable)
	for i := 0; i < nwf; i++ {
		p := filepath.Join(dir, ".github", "workflows", fmt.Sprintf("w%d.yml", i))
		l.Files[p] = c10Workflow(r, tag, true)
		l.Lint = append(l.Lint, p)
	}
	if withConfig {
		p := filepath.Join(dir, ".github", "workflows", "probe.yml")
		l.Files[p] = c10Probe(tag)
		l.Lint = append(l.Lint, p)
		l.Clean = append(l.Clean, p)
	}
	if l.Dirty == nil {
		l.Dirty = map[string][]string{}
	}
	pb := filepath.Join(dir, ".github", "workflows", "probe-bad.yml")
	src, want := c10ProbeBad(tag)
	l.Files[pb] = src
	l.Lint = append(l.Lint, pb)
	l.Dirty[pb] = want
}

var c10LayoutNames = []string{"one-repo", "two-repos", "prefix-siblings", "nested-repos", "repo-and-loose-files", "one-repo-many-files", "monorepo-mirror-cwd-inside", "case-siblings"}

func c10GenLayout(r *Rand, idx int) *c10Layout {
	l := &c10Layout{Files: map[string]string{}}
	l.Name = c10LayoutNames[idx%len(c10LayoutNames)]
	switch l.Name {
	case "one-repo":
		c10AddRepo(l, r, "solo", "solo", r.Range(2, 4), true)
	case "two-repos":
		c10AddRepo(l, r, "a", "ra", r.Range(1, 3), true)
		c10AddRepo(l, r, "b", "rb", r.Range(1, 3), r.Chance(3, 4))
	case "prefix-siblings":
		c10AddRepo(l, r, "repo", "p1", r.Range(1, 2), true)
		c10AddRepo(l, r, "repo-other", "p2", r.Range(1, 2), true)
		c10AddRepo(l, r, "repo2", "p3", 1, true)
	case "case-siblings":
		// repositories whose root paths are equal up to letter case (distinct directories on a
		// case-sensitive file system), each with its own configuration, action and workflow
		c10AddRepo(l, r, "Deploy", "cs1", r.Range(1, 2), true)
		c10AddRepo(l, r, "deploy", "cs2", r.Range(1, 2), true)
		if r.Chance(1, 2) {
			c10AddRepo(l, r, filepath.Join("sub", "DEPLOY"), "cs3", 1, true)
			c10AddRepo(l, r, filepath.Join("Sub", "DEPLOY"), "cs4", 1, true)
		}
	case "nested-repos":
		c10AddRepo(l, r, "outer", "out", r.Range(1, 2), true)
		innerGitFile := r.Chance(1, 2) // a submodule: ".git" of the inner repository is a file
		if innerGitFile {
			l.Traits = append(l.Traits, "git-file-nested-inner")
		}
		c10AddRepoGit(l, r, filepath.Join("outer", "sub", "inner"), "inn", r.Range(1, 2), true, innerGitFile)
	case "repo-and-loose-files":
		c10AddRepo(l, r, "proj", "pj", r.Range(1, 2), true)
		for i := 0; i < 2; i++ {
			p := filepath.Join("loose", fmt.Sprintf("x%d.yml", i))
			l.Files[p] = c10Workflow(r, "loose", false)
			l.Lint = append(l.Lint, p)
		}
	case "one-repo-many-files":
		c10AddRepo(l, r, "many", "mn", r.Range(6, 12), true)
	case "monorepo-mirror-cwd-inside":
		// the linter runs from a directory strictly inside the repository, and that directory mirrors
		// the repository's workflow layout with a DIFFERENT reusable workflow interface at the same
		// relative path: a path resolved against the wrong base directory finds the wrong callee
		c10AddRepo(l, r, "mono", "mo", r.Range(1, 3), true)
		l.Files[filepath.Join("mono", "pkg", ".github", "workflows", "reusable.yml")] = c10Reusable("other")
		l.Files[filepath.Join("mono", "pkg", "act", "action.yml")] = c10Action("other")
		cm := filepath.Join("mono", ".github", "workflows", "callmirror.yml")
		l.Files[cm] = "on: push\njobs:\n  call:\n    uses: ./pkg/.github/workflows/reusable.yml\n    with:\n      rin_other: x\n    secrets:\n      sec_other: ${{ secrets.S }}\n  after:\n    needs: [call]\n    runs-on: ubuntu-latest\n    steps:\n      - run: echo ${{ needs.call.outputs.rout_other }}\n      - uses: ./pkg/act\n        with:\n          in_other: x\n"
		l.Lint = append(l.Lint, cm)
		l.Cwd = r.Pick([]string{"mono/pkg", "mono/pkg", "mono/.github", "mono"})
	}
	sort.Strings(l.Lint)
	return l
}

// ---------------------------------------------------------------------------
// worker

func c10Key(e *actionlint.Error) string {
	return fmt.Sprintf("%d:%d: %s [%s]", e.Line, e.Column, e.Message, e.Kind)
}

func c10WorkerMain(args []string) {
	if len(args) != 6 {
		fmt.Fprintln(os.Stderr, "usage: c10-worker tier seed family from to scratch")
		os.Exit(10)
	}
	tier := args[0]
	seed, _ := strconv.ParseUint(args[1], 10, 64)
	fam := args[2]
	from, _ := strconv.Atoi(args[3])
	to, _ := strconv.Atoi(args[4])
	scratch := args[5]
	out := newWorkerOut()
	defer func() { out.w.WriteString("DONE\n"); out.flush() }()
	for idx := from; idx < to; idx++ {
		r := NewRand(seed, "C10", fam).Sub(idx)
		root := filepath.Join(scratch, fmt.Sprintf("c%d", idx))
		c10IsolationCase(out, r, idx, root, tier)
		os.RemoveAll(root)
		out.flush()
	}
}

func c10IsolationCase(out *workerOut, r *Rand, idx int, root, tier string) {
	lay := c10GenLayout(r, idx)
	os.MkdirAll(root, 0o755)
	writeFiles(root, lay.Files)
	for link, target := range lay.Symlinks {
		os.MkdirAll(filepath.Dir(filepath.Join(root, link)), 0o755)
		if err := os.Symlink(target, filepath.Join(root, link)); err != nil {
			out.viol(idx, "C10:harness", "symlink failed: "+err.Error(), nil)
			return
		}
	}
	for _, t := range lay.Traits {
		out.count("layout_trait_"+t, 1)
	}
	detail := func(extra map[string]interface{}) map[string]interface{} {
		d := map[string]interface{}{"layout": lay.Name, "files": lay.Files, "symlinks": lay.Symlinks, "traits": lay.Traits}
		for k, v := range extra {
			d[k] = v
		}
		return d
	}
	fp0 := actionlint.VerifTableFingerprints()
	cwd := filepath.Join(root, lay.Cwd)
	os.MkdirAll(cwd, 0o755)

	// reference: every file alone, fresh linter
	alone := map[string][]string{}
	for _, f := range lay.Lint {
		l, err := actionlint.NewLinter(io.Discard, &actionlint.LinterOptions{WorkingDir: cwd})
		if err != nil {
			out.viol(idx, "C10:harness", "NewLinter failed: "+err.Error(), nil)
			return
		}
		errs, err := l.LintFile(filepath.Join(root, f), nil)
		if err != nil {
			out.viol(idx, "C10:alone-fatal", "linting a generated file alone failed: "+err.Error(), detail(map[string]interface{}{"file": f}))
			return
		}
		var ks []string
		for _, e := range errs {
			ks = append(ks, c10Key(e))
		}
		alone[f] = ks
	}
	// attribution, absolutely: a probe workflow is clean iff it was checked with the configuration,
	// the local action and the reusable workflow of the repository that contains it
	for _, f := range lay.Clean {
		if len(alone[f]) > 0 {
			out.viol(idx, "C10:attribution:"+lay.Name+":probe-of-own-repository-not-clean:"+c10MsgClass(alone[f][0]), fmt.Sprintf("file %s uses only its own repository's label, variable, local action and reusable workflow, yet linted alone it gets diagnostics (layout %s, traits %v): it was not checked against the repository that contains it", f, lay.Name, lay.Traits),
				detail(map[string]interface{}{"file": f, "alone": alone[f]}))
			return
		}
		out.count("clean_probes_confirmed", 1)
	}
	for f, want := range lay.Dirty {
		ok := len(alone[f]) == len(want)
		for _, w := range want {
			n := 0
			for _, k := range alone[f] {
				if strings.Contains(k[:strings.Index(k+" available", " available")], w) || strings.HasPrefix(k[strings.Index(k, ": ")+2:], "input "+w) || strings.HasPrefix(k[strings.Index(k, ": ")+2:], "missing input "+w) || strings.HasPrefix(k[strings.Index(k, ": ")+2:], "secret "+w) {
					n++
				}
			}
			if n < 1 {
				ok = false
			}
		}
		if !ok {
			out.viol(idx, "C10:attribution:"+lay.Name+":misuse-of-own-action-or-workflow-not-reported-exactly", fmt.Sprintf("file %s misuses its own repository's local action and reusable workflow (undefined input, missing required input, missing secret); linted alone it must get exactly one diagnostic naming each of %v (layout %s, traits %v)", f, want, lay.Name, lay.Traits),
				detail(map[string]interface{}{"file": f, "alone": alone[f], "must_name": want}))
			return
		}
		out.count("dirty_probes_confirmed", 1)
	}
	// config hashes of every repository (explicit Project objects for the shared-config check)
	nvar := 6
	if tier == "thorough" {
		nvar = 16
	}
	// small file sets: every subset of >= 2 files, each in the written and in the reversed order
	// (exhaustive over subsets; argument orders beyond these two are sampled by the random variants)
	var exhaustive [][]string
	if n := len(lay.Lint); n >= 2 && n <= 5 && (tier == "thorough" || n <= 3) {
		for mask := 1; mask < 1<<uint(n); mask++ {
			var sub []string
			for i := 0; i < n; i++ {
				if mask&(1<<uint(i)) != 0 {
					sub = append(sub, lay.Lint[i])
				}
			}
			if len(sub) < 2 {
				continue
			}
			rev := make([]string, len(sub))
			for i := range sub {
				rev[len(sub)-1-i] = sub[i]
			}
			exhaustive = append(exhaustive, sub, rev)
		}
		out.count("cases_with_exhaustive_subsets", 1)
	}
	for v := 0; v < nvar+len(exhaustive); v++ {
		// subset + order
		var files []string
		switch {
		case v >= nvar:
			files = exhaustive[v-nvar]
		case v == 0:
			files = append(files, lay.Lint...)
		case v == 1:
			for i := len(lay.Lint) - 1; i >= 0; i-- {
				files = append(files, lay.Lint[i])
			}
		default:
			p := r.Perm(len(lay.Lint))
			n := r.Range(2, len(lay.Lint))
			for _, i := range p[:n] {
				files = append(files, lay.Lint[i])
			}
		}
		if len(files) < 2 {
			continue
		}
		procs := []int{1, 2, 16, 4}[v%4]
		prev := runtime.GOMAXPROCS(procs)
		delay := 0
		if v%3 != 0 {
			delay = []int{200, 2000, 8000}[r.Intn(3)]
		}
		var abs []string
		for _, f := range files {
			abs = append(abs, filepath.Join(root, f))
		}
		// log output: the per-file goroutines of LintFiles all write to the caller's LogWriter; a writer
		// without synchronisation of its own (like bytes.Buffer) lets the race detector see unserialised writes
		lopts := &actionlint.LinterOptions{WorkingDir: cwd}
		logw := &c10PlainLog{}
		switch (v + idx) % 3 {
		case 1:
			lopts.Verbose, lopts.LogWriter = true, logw
			out.count("multi_runs_with_verbose_log", 1)
		case 2:
			lopts.Debug, lopts.LogWriter = true, logw
			out.count("multi_runs_with_debug_log", 1)
		}
		l, err := actionlint.NewLinter(io.Discard, lopts)
		if err != nil {
			runtime.GOMAXPROCS(prev)
			return
		}
		only := []string{"", "check.", "rwcache.", "actioncache."}[r.Intn(4)]
		actionlint.VerifTraceStart(r.U64(), delay, only)
		errs, lerr := l.LintFiles(abs, nil)
		trace := actionlint.VerifTraceStop()
		runtime.GOMAXPROCS(prev)
		out.eval(1)
		if lerr != nil {
			out.viol(idx, "C10:multi-fatal", "LintFiles failed although every file lints alone: "+lerr.Error(), detail(map[string]interface{}{"lint": files}))
			continue
		}
		got := map[string][]string{}
		for _, e := range errs {
			fp := e.Filepath // printed relative to the working directory: normalise to the scratch root
			if !filepath.IsAbs(fp) {
				fp = filepath.Join(cwd, fp)
			}
			if rel, rerr := filepath.Rel(root, fp); rerr == nil {
				fp = rel
			}
			got[fp] = append(got[fp], c10Key(e))
		}
		// interleaving bookkeeping
		var order []string
		firstWrite := map[string]string{}
		for _, ev := range trace {
			if ev.Name == "check.begin" {
				order = append(order, filepath.Base(filepath.Dir(filepath.Dir(filepath.Dir(ev.Arg))))+"/"+filepath.Base(ev.Arg))
			}
			if strings.HasPrefix(ev.Name, "rwcache.write.") {
				if _, ok := firstWrite[ev.Arg]; !ok {
					firstWrite[ev.Arg] = strings.TrimPrefix(ev.Name, "rwcache.write.")
				}
			}
		}
		out.set("check_begin_orders", fmt.Sprintf("%x", hashStr(strings.Join(order, ","))))
		for _, w := range firstWrite {
			out.count("rwcache_first_derivation_"+w, 1)
		}
		out.count("trace_events", len(trace))
		bad := false
		for _, f := range files {
			a, g := alone[f], got[f]
			if strings.Join(a, "\n") != strings.Join(g, "\n") {
				bad = true
				sig := "C10:isolation:" + lay.Name + ":" + c10DiffClass(a, g)
				out.viol(idx, sig, fmt.Sprintf("file %s gets different diagnostics in a multi-file run (layout %s, GOMAXPROCS=%d, delay<=%dus at %q) than alone", f, lay.Name, procs, delay, only),
					detail(map[string]interface{}{"file": f, "lint_order": files, "alone": a, "together": g, "check_begin_order": order}))
				break
			}
		}
		if !bad && len(errs) > 0 {
			out.nontrivial(fmt.Sprintf("iso|%d|%d|%s", idx, v, strings.Join(files, ",")))
		}
		if idx < 2 && v == 0 {
			out.sample(map[string]interface{}{"layout": lay.Name, "lint": files, "diagnostics_per_file": got, "check_begin_order": order})
		}
	}
	// shared configuration: one explicit Project, hash before / after a concurrent run
	for _, d := range c10RepoDirs(lay) {
		proj, err := actionlint.NewProject(filepath.Join(root, d))
		if err != nil || proj.Config() == nil {
			continue
		}
		h0 := actionlint.VerifHashConfig(proj.Config())
		var abs []string
		for _, f := range lay.Lint {
			if strings.HasPrefix(f, d+string(filepath.Separator)) && !strings.HasPrefix(f, filepath.Join(d, "sub")+string(filepath.Separator)) {
				abs = append(abs, filepath.Join(root, f))
			}
		}
		if len(abs) < 2 {
			continue
		}
		l, _ := actionlint.NewLinter(io.Discard, &actionlint.LinterOptions{WorkingDir: root})
		l.LintFiles(abs, proj)
		out.eval(1)
		if h1 := actionlint.VerifHashConfig(proj.Config()); h1 != h0 {
			out.viol(idx, "C10:shared-config-modified", "the shared configuration object changed during a multi-file run (e.g. sorted in place)", detail(map[string]interface{}{"repo": d, "config_after": fmt.Sprintf("%+v", proj.Config())}))
		} else {
			out.count("config_hash_checks", 1)
		}
	}
	fp1 := actionlint.VerifTableFingerprints()
	for k, v := range fp0 {
		if fp1[k] != v {
			out.viol(idx, "C10:table-modified:"+k, "built-in table "+k+" changed during linting (fingerprint differs before/after)", detail(nil))
		}
	}
	out.count("table_fingerprint_checks", len(fp0))
}

func c10RepoDirs(l *c10Layout) []string {
	seen := map[string]bool{}
	var out []string
	for p := range l.Files {
		if strings.HasSuffix(p, filepath.Join(".git", "HEAD")) || filepath.Base(p) == ".git" {
			d := filepath.Dir(filepath.Dir(p))
			if filepath.Base(p) == ".git" {
				d = filepath.Dir(p)
			}
			if !seen[d] {
				seen[d] = true
				out = append(out, d)
			}
		}
	}
	sort.Strings(out)
	return out
}

// c10DiffClass names what differs between the alone and the together diagnostics.
func c10DiffClass(alone, together []string) string {
	as, ts := map[string]int{}, map[string]int{}
	for _, a := range alone {
		as[a]++
	}
	for _, t := range together {
		ts[t]++
	}
	same := len(as) == len(ts)
	for k, v := range as {
		if ts[k] != v {
			same = false
		}
	}
	if same {
		return "order"
	}
	for _, a := range alone {
		if ts[a] == 0 {
			return "lost-or-changed:" + c10MsgClass(a)
		}
	}
	for _, t := range together {
		if as[t] == 0 {
			return "extra:" + c10MsgClass(t)
		}
	}
	return "count"
}

func c10MsgClass(k string) string {
	if i := strings.Index(k, ": "); i >= 0 {
		k = k[i+2:]
	}
	kind := ""
	if j := strings.LastIndex(k, " ["); j >= 0 {
		kind = strings.Trim(k[j+2:], "]")
		k = k[:j]
	}
	return kind + ":" + c02MsgClass(k)
}

// ---------------------------------------------------------------------------
// derivations agree (in-process)

// c10BoolSpelling writes a YAML boolean in one of the spellings of the core schema.
func c10BoolSpelling(r *Rand, v bool) string {
	if !v && r.Chance(1, 6) {
		// a value given by an expression is not known statically: both derivations must treat it
		// as "not required" (only used where the reference says false)
		return r.Pick([]string{"${{ true }}", "${{ false }}", "${{ 1 == 1 }}", "\"${{ !true }}\""})
	}
	if v {
		return r.Pick([]string{"true", "true", "True", "TRUE"})
	}
	return r.Pick([]string{"false", "false", "False", "FALSE"})
}

func c10Derivations(c *Case) {
	root := mkScratch("c10d")
	defer os.RemoveAll(root)
	os.MkdirAll(filepath.Join(root, ".git"), 0o755)
	// generate a well-formed workflow_call interface
	var b strings.Builder
	b.WriteString("on:\n  workflow_call:\n")
	type in struct {
		name, typ string
		req, def  bool
	}
	var ins []in
	ni := c.R.Intn(5)
	if ni > 0 {
		b.WriteString("    inputs:\n")
	}
	for i := 0; i < ni; i++ {
		x := in{name: caseVariant(c.R, fmt.Sprintf("In_%d", i)), typ: c.R.Pick([]string{"string", "number", "boolean"})}
		x.req = c.R.Chance(1, 2)
		x.def = !x.req && c.R.Chance(1, 2) // required + default is diagnosed in the callee itself: not well-formed
		ins = append(ins, x)
		b.WriteString("      " + x.name + ":\n        type: " + x.typ + "\n")
		if c.R.Chance(1, 2) || x.req {
			b.WriteString("        required: " + c10BoolSpelling(c.R, x.req) + "\n")
		}
		if x.def {
			b.WriteString("        default: " + map[string]string{"string": "abc", "number": "3", "boolean": "true"}[x.typ] + "\n")
		}
		if c.R.Chance(1, 3) {
			b.WriteString("        description: some input\n")
		}
	}
	ns := c.R.Intn(4)
	if ns > 0 {
		b.WriteString("    secrets:\n")
	}
	type sec struct {
		name string
		req  bool
	}
	var secs []sec
	for i := 0; i < ns; i++ {
		s := sec{caseVariant(c.R, fmt.Sprintf("Sec_%d", i)), c.R.Chance(1, 2)}
		secs = append(secs, s)
		if c.R.Chance(1, 4) && !s.req {
			b.WriteString("      " + s.name + ":\n        description: d\n")
		} else {
			b.WriteString(fmt.Sprintf("      %s:\n        required: %s\n", s.name, c10BoolSpelling(c.R, s.req)))
		}
	}
	no := c.R.Intn(4)
	if no > 0 {
		b.WriteString("    outputs:\n")
	}
	for i := 0; i < no; i++ {
		b.WriteString("      " + caseVariant(c.R, fmt.Sprintf("Out_%d", i)) + ":\n        value: ${{ jobs.j.outputs.o }}\n")
	}
	b.WriteString("jobs:\n  j:\n    runs-on: ubuntu-latest\n    outputs:\n      o: x\n    steps:\n      - run: echo\n")
	src := b.String()
	rel := ".github/workflows/callee.yml"
	writeFiles(root, map[string]string{rel: src})
	ds, err := lintSrc(src)
	c.Eval(1)
	if err != nil || len(ds) > 0 {
		c.Count("callee_not_clean_skipped", 1)
		c.Logf("callee not clean: %v %v\n%s", err, ds, src)
		return
	}
	proj, err := actionlint.NewProject(root)
	if err != nil {
		return
	}
	spec := "./" + rel
	fileCache := actionlint.NewLocalReusableWorkflowCache(proj, root, nil)
	mf, err := fileCache.FindMetadata(spec)
	if err != nil || mf == nil {
		c.Violation("C10:derivation-file-failed", fmt.Sprintf("FindMetadata failed for a well-formed reusable workflow: %v", err), map[string]interface{}{"src": src})
		return
	}
	w, perrs := actionlint.Parse([]byte(src))
	if w == nil || len(perrs) > 0 {
		return
	}
	var ev *actionlint.WorkflowCallEvent
	for _, e := range w.On {
		if x, ok := e.(*actionlint.WorkflowCallEvent); ok {
			ev = x
		}
	}
	if ev == nil {
		return
	}
	astCache := actionlint.NewLocalReusableWorkflowCache(proj, root, nil)
	astCache.WriteWorkflowCallEvent(filepath.Join(root, rel), ev)
	ma, err := astCache.FindMetadata(spec)
	if err != nil || ma == nil {
		c.Violation("C10:derivation-ast-failed", fmt.Sprintf("metadata registered from the AST is not found under the spec %q: %v", spec, err), map[string]interface{}{"src": src})
		return
	}
	ser := func(m *actionlint.ReusableWorkflowMetadata) string {
		var ls []string
		for k, i := range m.Inputs {
			if i == nil {
				ls = append(ls, "input "+k+" <nil>")
				continue
			}
			ls = append(ls, fmt.Sprintf("input %s name=%s required=%v type=%s", k, i.Name, i.Required, i.Type.String()))
		}
		for k, s := range m.Secrets {
			if s == nil {
				ls = append(ls, "secret "+k+" <nil>")
				continue
			}
			ls = append(ls, fmt.Sprintf("secret %s name=%s required=%v", k, s.Name, s.Required))
		}
		for k, o := range m.Outputs {
			if o == nil {
				ls = append(ls, "output "+k+" <nil>")
				continue
			}
			ls = append(ls, fmt.Sprintf("output %s name=%s", k, o.Name))
		}
		sort.Strings(ls)
		return strings.Join(ls, "\n")
	}
	a, f := ser(ma), ser(mf)
	if a != f {
		cls := "entries"
		al, fl := strings.Split(a, "\n"), strings.Split(f, "\n")
		if len(al) == len(fl) {
			for i := range al {
				if al[i] == fl[i] {
					continue
				}
				x, y := strings.Fields(al[i]), strings.Fields(fl[i])
				cls = "other-field"
				for k := 0; k < len(x) && k < len(y); k++ {
					if x[k] != y[k] {
						cls = x[0] + "-" + strings.SplitN(x[k], "=", 2)[0]
						break
					}
				}
				break
			}
		}
		c.Violation("C10:derivations-disagree:"+cls, "the interface of a well-formed reusable workflow derived from its file differs from the one derived from its AST", map[string]interface{}{"src": src, "from_file": f, "from_ast": a})
		return
	}
	if ni+ns+no > 0 {
		c.Nontrivial("deriv|" + src)
	}
	c.Count("derivation_pairs_compared", 1)
	if c.Idx < 2 {
		c.Sample(map[string]interface{}{"callee": src, "interface": a})
	}
}

// ---------------------------------------------------------------------------

func runC10(r *Run) {
	r.Rule = "generated multi-repository layouts (one repo, two repos with different configs, sibling directories sharing a name prefix, nested repositories, files outside any repository, many files) whose workflows use their own repository's config, local action and reusable workflow and produce diagnostics built from shared tables; per case: every file alone with a fresh Linter, then LintFiles over subsets / argument orders with GOMAXPROCS 1/2/4/16 and seeded delays at the hook points, per-file diagnostics compared; table and config fingerprints before/after; a share of the cases under the race detector; file- vs AST-derived reusable workflow interfaces compared. Non-trivial = distinct multi-file run with >= 1 diagnostic whose per-file results equal the alone results / distinct non-empty interface."
	r.Assume("referenced local actions and reusable workflows are well-formed (they lint clean on their own), as the statement requires")
	r.Assume("race reports are attributed by the first actionlint frame of each stack; a report without any actionlint frame would be counted as non-actionlint")
	if r.ReplayOf != nil {
		switch r.ReplayOf.Family {
		case "derivations":
			r.RunFamilies([]*Family{{Name: "derivations", N: r.ReplayOf.Index + 1, Do: c10Derivations}})
		default:
			t := wkTask{Family: r.ReplayOf.Family, From: r.ReplayOf.Index, To: r.ReplayOf.Index + 1, Race: strings.HasSuffix(r.ReplayOf.Family, "-race")}
			runWorkerPool(r, "c10-worker", []wkTask{t}, 1, nil)
		}
		return
	}
	r.RunFamilies([]*Family{{Name: "derivations", N: r.Q(2000, 50000), Do: c10Derivations}})
	var tasks []wkTask
	n := r.Q(96, 2400)
	for from := 0; from < n; from += 6 {
		tasks = append(tasks, wkTask{Family: "isolation", From: from, To: from + 6})
	}
	nr := r.Q(48, 600)
	if _, err := os.Stat(filepath.Join(binDir(), "verifmon-race")); err != nil {
		r.Inconclusive("race build of the monitor is missing")
	} else {
		for from := 0; from < nr; from += 6 {
			tasks = append(tasks, wkTask{Family: "isolation-race", From: from, To: from + 6, Race: true})
		}
	}
	// fewer processes than cores: each case is itself parallel (LintFiles) and changes GOMAXPROCS
	runWorkerPool(r, "c10-worker", tasks, 8, nil)
	if r.Counter("rwcache_first_derivation_file") == 0 || r.Counter("rwcache_first_derivation_ast") == 0 {
		r.Inconclusive(fmt.Sprintf("both cache-write interleavings must be observed (file first: %d, ast first: %d)", r.Counter("rwcache_first_derivation_file"), r.Counter("rwcache_first_derivation_ast")))
	}
	if r.SetLen("check_begin_orders") < 10 {
		r.Inconclusive("too few distinct file start orders observed")
	}
	if r.Counter("multi_runs_with_verbose_log") < 50 || r.Counter("multi_runs_with_debug_log") < 50 {
		r.Inconclusive("too few multi-file runs wrote verbose / debug logs to an unsynchronised LogWriter")
	}
	for _, t := range []string{"git-file", "git-file-nested-inner", "symlinked-callee", "symlinked-action"} {
		if r.Counter("layout_trait_"+t) == 0 {
			r.Inconclusive("no layout with the trait " + t + " was generated")
		}
	}
	if r.Counter("clean_probes_confirmed") < 50 {
		r.Inconclusive(fmt.Sprintf("too few attribution probes confirmed (%d)", r.Counter("clean_probes_confirmed")))
	}
	if r.Counter("tasks_under_race_build") == 0 {
		r.Inconclusive("no workload ran under the race detector")
	}
}

// c10PlainLog is a LogWriter without synchronisation of its own (what bytes.Buffer is).
type c10PlainLog struct {
	n    int
	last []byte
}

func (w *c10PlainLog) Write(p []byte) (int, error) {
	w.n += len(p)
	w.last = append(w.last[:0], p...)
	return len(p), nil
}
