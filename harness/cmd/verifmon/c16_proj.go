package main

// C16, family project: a repository on disk (.git, .github/workflows, local actions, a reusable
// workflow, .github/actionlint.yaml) so that the diagnostics which echo text of *other* files
// (action metadata, reusable workflow interfaces, configuration, file system errors for local
// paths) are produced too. Linted with Linter.LintFile in every mode.

import (
	"bytes"
	"fmt"
	"os"
	"path/filepath"

	"github.com/rhysd/actionlint"
)

func (g *c16G) actionYAML() string {
	r := g.r
	if r.Chance(1, 6) {
		// broken metadata: YAML type errors / syntax errors
		return r.Pick([]string{
			"name: x\ninputs: [a, b]\nruns: 1\n",
			"name: [1]\ndescription: {a: b}\nruns:\n  using: node20\n  main: 1\n",
			"name: x\ninputs:\n  a: 1\n  b: [x]\nruns:\n  using: node20\n",
			"name: 'x\n",
			"- a\n- b\n",
			"name: x\ndescription: d\nruns:\n  using: node20\n  main: [1]\n  steps: 3\n",
			"name: x\ndescription: d\ninputs:\n  a:\n    description: d\n    required: \"a\\rb\"\nruns:\n  using: node20\n  main: index.js\n",
			"name: x\ndescription: d\ninputs:\n  a:\n    description: d\n    required: \"\\e[31m [x]\\tb\"\nruns:\n  using: node20\n  main: index.js\n",
		})
	}
	m := c16M("name", g.u("text", "My action"), "description", g.u("text", "does things"))
	if r.Chance(1, 8) {
		m.put("author", g.u("text", "me"))
	}
	ins := c16M()
	for i, n := 0, r.Range(0, 3); i < n; i++ {
		d := c16M("description", g.u("text", "an input"))
		if r.Bool() {
			d.put("required", g.u("bool", "true"))
		}
		if r.Chance(1, 3) {
			d.put("default", g.u("text", "x"))
		}
		if r.Chance(1, 6) {
			d.put("deprecationMessage", g.u("text", "old"))
		}
		ins.put(g.uf("inputname", r.Pick([]string{"name", "level", "token", "Path"}), 1, 4), d)
	}
	if len(ins.k) > 0 {
		m.put("inputs", ins)
	}
	if r.Chance(1, 2) {
		m.put("outputs", c16M(g.u("inputname", "result"), c16M("description", g.u("text", "d"), "value", g.u("expr", "${{ steps.a.outputs.b }}"))))
	}
	runs := c16M()
	using := r.Pick([]string{"node20", "node16", "node12", "composite", "docker", "node20"})
	runs.put("using", g.u("using", using))
	switch using {
	case "composite":
		if r.Chance(4, 5) {
			runs.put("steps", c16Q(c16M("run", "echo hi", "shell", "bash")))
		}
		if r.Chance(1, 4) {
			runs.put("main", g.u("text", "index.js"))
		}
	case "docker":
		if r.Chance(4, 5) {
			runs.put("image", g.u("image", r.Pick([]string{"Dockerfile", "docker://alpine:3", "nonexistent/Dockerfile"})))
		}
		if r.Chance(1, 3) {
			runs.put("entrypoint", g.u("text", "entry.sh"))
		}
		if r.Chance(1, 4) {
			runs.put("steps", c16Q(c16M("run", "echo hi", "shell", "bash")))
		}
	default:
		if r.Chance(4, 5) {
			runs.put("main", g.u("text", r.Pick([]string{"index.js", "missing.js"})))
		}
		if r.Chance(1, 3) {
			runs.put("pre", g.u("text", "pre.js"))
		}
		if r.Chance(1, 3) {
			runs.put("post", g.u("text", "index.js"))
		}
		if r.Chance(1, 4) {
			runs.put("image", g.u("text", "Dockerfile"))
		}
	}
	if r.Chance(1, 10) {
		runs.put(g.u("key", "mainn"), "x")
	}
	m.put("runs", runs)
	if r.Chance(1, 3) {
		m.put("branding", c16M("icon", g.u("brand", r.Pick([]string{"activity", "zap", "nope"})), "color", g.u("brand", r.Pick([]string{"blue", "red", "pink"}))))
	}
	if r.Chance(1, 12) {
		m.put(g.u("key", "inputz"), "x")
	}
	return c16Emit(r, m)
}

func (g *c16G) calleeYAML() string {
	r := g.r
	if r.Chance(1, 6) {
		return r.Pick([]string{
			"on:\n  workflow_call:\n    inputs: [a]\njobs: {}\n",
			"on:\n  workflow_call:\n    inputs:\n      a: 1\n    secrets: x\n",
			"on: 'x\n",
			"on: push\njobs:\n  a:\n    runs-on: ubuntu-latest\n    steps:\n      - run: echo\n",
			"on:\n  workflow_call:\n    inputs:\n      a:\n        type: [string]\n",
			"on:\n  workflow_call:\n    inputs:\n      a:\n        type: string\n        required: \"a\\r\\nb\"\njobs: {}\n",
			"on:\n  workflow_call:\n    secrets:\n      a:\n        required: \"a\\rb [x]\"\njobs: {}\n",
		})
	}
	ins := c16M()
	for i, n := 0, r.Range(1, 3); i < n; i++ {
		d := c16M("type", g.u("inputtype", r.Pick([]string{"string", "boolean", "number"})))
		if r.Bool() {
			d.put("required", g.u("bool", "true"))
		}
		if r.Chance(1, 3) {
			d.put("default", g.u("default", "1"))
		}
		ins.put(g.uf("inputname", r.Pick([]string{"name", "level", "flag", "Name"}), 1, 4), d)
	}
	call := c16M()
	if len(ins.k) > 0 || r.Bool() {
		call.put("inputs", ins)
	}
	if r.Chance(5, 6) {
		secs := c16M()
		for i, n := 0, r.Range(1, 3)+r.Intn(2); i < n && i < 3; i++ {
			secs.put(g.uf("inputname", []string{"token", "key", "pw"}[i], 1, 2), c16M("required", g.u("bool", r.Pick([]string{"true", "false"}))))
		}
		call.put("secrets", secs)
	}
	if r.Bool() {
		call.put("outputs", c16M(g.u("inputname", "out"), c16M("value", "${{ jobs.a.outputs.x }}")))
	}
	root := c16M(c16Raw("on"), c16M("workflow_call", call), "jobs", c16M("a", c16M("runs-on", "ubuntu-latest", "steps", c16Q(c16M("run", "echo")))))
	return c16Emit(r, root)
}

func (g *c16G) projectWorkflow() string {
	r := g.r
	root := c16M()
	root.put(c16Raw("on"), g.on())
	jobs := c16M()
	// a job using local actions
	steps := c16Q()
	for i, n := 0, r.Range(1, 3); i < n; i++ {
		st := c16M("uses", g.u("localaction", r.Pick([]string{"./.github/actions/x", "./.github/actions/y", "./.github/actions/missing", "./"})))
		if r.Chance(3, 4) {
			w := c16M()
			for j, k := 0, r.Range(1, 3); j < k; j++ {
				w.put(g.u("withname", r.Pick([]string{"name", "level", "token", "path", "zq-input"})), g.u("expr", "v"))
			}
			st.put("with", w)
		}
		steps.e = append(steps.e, st)
	}
	if r.Bool() {
		steps.e = append(steps.e, g.step(9))
	}
	jobs.put("local", c16M("runs-on", g.runsOn(), "steps", steps))
	// a job calling the local reusable workflow
	call := c16M("uses", g.u("localworkflow", r.Pick([]string{"./.github/workflows/callee.yml", "./.github/workflows/callee.yml", "./.github/workflows/callee.yml", "./.github/workflows/nothere.yml", "./.github/workflows"})))
	if r.Chance(3, 4) {
		w := c16M()
		for j, k := 0, r.Range(1, 3); j < k; j++ {
			w.put(g.u("withname", r.Pick([]string{"name", "level", "flag", "zq-input"})), g.u("expr", r.Pick([]string{"v", "1", "true", "${{ 1 }}"})))
		}
		call.put("with", w)
	}
	if r.Chance(3, 4) {
		if r.Chance(1, 5) {
			call.put("secrets", "inherit")
		} else {
			sm := c16M(g.u("withname", r.Pick([]string{"token", "other", "zq-secret"})), "${{ secrets.T }}")
			if r.Bool() {
				sm.put(g.u("withname", "zq-secret2"), "${{ secrets.U }}")
			}
			call.put("secrets", sm)
		}
	}
	jobs.put("call", call)
	if r.Chance(1, 3) {
		jobs.put(g.u("jobid", "more"), g.job([]string{"local", "call"}, 2))
	}
	if r.Chance(1, 3) {
		jobs.put("vars", c16M("runs-on", "ubuntu-latest", "steps", c16Q(c16M("run", "echo ${{ vars.MY_VAR }} ${{ vars.ZQ_UNDEF }}"))))
	}
	root.put("jobs", jobs)
	return c16Emit(r, root)
}

func c16ProjectCase(c *Case, m *c16Matcher, scratch string) {
	r := c.R
	g := &c16G{r: r, den: []int{4, 8, 20}[r.Intn(3)], used: map[string]int{}}
	if r.Chance(2, 3) {
		g.focus = r.Pick([]string{"inputname", "withname", "localaction", "localworkflow", "using", "brand", "cfglabel", "cfgvar", "text", "inputtype", "image", "label", "bool", "bool", "default", "key"})
	}
	dir := filepath.Join(scratch, fmt.Sprintf("proj-%d", c.Idx))
	files := map[string]string{
		".github/actions/x/action.yml":  g.actionYAML(),
		".github/actions/y/action.yaml": g.actionYAML(),
		".github/actions/x/index.js":    "",
		".github/actions/x/Dockerfile":  "FROM alpine\n",
		".github/workflows/callee.yml":  g.calleeYAML(),
		".github/workflows/w.yml":       "",
	}
	if r.Chance(2, 3) {
		cfg := c16M()
		if r.Chance(3, 4) {
			cfg.put("self-hosted-runner", c16M("labels", g.strList("cfglabel", "my-label", "gpu-*", "linux-[0-9]")))
		}
		if r.Chance(3, 4) {
			cfg.put("config-variables", g.strList("cfgvar", "MY_VAR", "OTHER"))
		}
		if len(cfg.k) > 0 {
			files[".github/actionlint.yaml"] = c16Emit(r, cfg)
		}
	}
	src := g.projectWorkflow()
	files[".github/workflows/w.yml"] = src
	if err := os.MkdirAll(filepath.Join(dir, ".git"), 0o755); err != nil {
		fmt.Fprintf(os.Stderr, "scratch mkdir failed: %v\n", err)
		os.Exit(10)
	}
	defer os.RemoveAll(dir)
	writeFiles(dir, files)

	k := &c16Checker{c: c, m: m, tag: "project", scrub: scratch}
	defer k.flush()
	in := &c16Input{
		srcOf:  func(string) (string, bool) { return src, true },
		detail: map[string]interface{}{"family": k.tag, "files": files, "src": src},
	}
	path := filepath.Join(dir, ".github", "workflows", "w.yml")
	for mi, md := range c16Modes {
		var buf bytes.Buffer
		l, err := actionlint.NewLinter(&buf, &actionlint.LinterOptions{Oneline: md.oneline, Format: md.format, WorkingDir: dir})
		if err != nil {
			c.Violation("C16:formatter-error", "NewLinter failed: "+err.Error(), in.detail)
			return
		}
		errs, err := l.LintFile(path, nil)
		c.Eval(1)
		if err != nil {
			c.Count("project_lint_returned_fatal_error", 1)
			c.SetAdd("project_fatal_errors", truncate(fmt.Sprintf("%q", err.Error()), 120))
			c.Logf("fatal error: %v", err)
			return
		}
		if mi == 0 {
			c.Count("project_cases_linted", 1)
			k.record(errs, src)
			for _, e := range errs {
				// strip the scratch path so that the key does not depend on the temp dir name
				c.SetAdd("project_kinds", e.Kind)
			}
			if k.checkMessages(errs, in) {
				c.Count("workflows_with_linebreak_message", 1)
				return
			}
		}
		c.Logf("--- mode %s: %d diagnostics\n%s", md.name, len(errs), buf.String())
		if md.format == "" {
			k.checkPretty(md.name, md.oneline, false, errs, buf.String(), in)
		} else {
			k.checkJSON(md.name, md.jsonl, errs, buf.String(), in)
		}
	}
}
