package main

// C12, part 6: list-valued positions. An earlier rule may mutate the syntax tree the expression rule
// reads (filtering a label list in place, sorting, truncating), and loops over lists have their own
// `continue` / early-return paths. So every list-valued position is probed at every element index
// of lists of 2-4 elements, with the probed element given as a whole-value placeholder and as text
// mixed with a placeholder (text before / after / both), and with literal, whole-value-expression
// and mixed siblings. The verdict must not depend on the index, the siblings or the probe shape.

import (
	"fmt"
	"strings"
)

type c12ListPos struct {
	Name, Key  string
	Noise      string
	Head, Tail string   // text before the first element line / after the last
	Indent     int      // indentation of the "- " of an element
	ItemKey    string   // "" or e.g. "cron: " for lists of one-key mappings
	Lits       []string // three literal sibling values, YAML-ready
}

type c12LCase struct {
	Pos      string
	Len, Idx int
	Siblings string
	Cl       *c12Class
}

var c12ListShapes = []struct{ Name, Pre, Post string }{
	{"whole-value", "", ""},
	{"text-before", "lx-", ""},
	{"text-after", "", "-sfx"},
	{"text-both", "lx-", "-sfx"},
}

func c12ListPositions() []c12ListPos {
	const job = "jobs:\n  build:\n    runs-on: ubuntu-latest\n    steps:\n      - run: echo\n"
	const steps = "    steps:\n      - run: echo\n"
	const glob = `\[glob\]$`
	const events = `\[events\]$`
	ps := []c12ListPos{
		{Name: "jobs.<id>.runs-on[*]", Key: "jobs.<job_id>.runs-on", Head: "on: push\njobs:\n  build:\n    runs-on:\n", Tail: steps, Indent: 6, Lits: []string{"self-hosted", "linux", "x64"}},
		{Name: "jobs.<id>.runs-on.labels[*]", Key: "jobs.<job_id>.runs-on", Head: "on: push\njobs:\n  build:\n    runs-on:\n      labels:\n", Tail: steps, Indent: 8, Lits: []string{"self-hosted", "linux", "x64"}},
		{Name: "jobs.<id>.runs-on.labels[*] (group before)", Key: "jobs.<job_id>.runs-on", Head: "on: push\njobs:\n  build:\n    runs-on:\n      group: g1\n      labels:\n", Tail: steps, Indent: 8, Lits: []string{"self-hosted", "linux", "x64"}},
		{Name: "jobs.<id>.runs-on.labels[*] (group after)", Key: "jobs.<job_id>.runs-on", Head: "on: push\njobs:\n  build:\n    runs-on:\n      labels:\n", Tail: "      group: ${{ github.ref_name }}\n" + steps, Indent: 8, Lits: []string{"self-hosted", "linux", "x64"}},
		{Name: "jobs.<id>.needs[*]", Key: "", Noise: `which does not exist in this workflow \[job-needs\]$`,
			Head: "on: push\njobs:\n  first:\n    runs-on: ubuntu-latest\n    steps:\n      - run: echo\n  second:\n    runs-on: ubuntu-latest\n    steps:\n      - run: echo\n  third:\n    runs-on: ubuntu-latest\n    steps:\n      - run: echo\n  build:\n    needs:\n",
			Tail: "    runs-on: ubuntu-latest\n" + steps, Indent: 6, Lits: []string{"first", "second", "third"}},
		{Name: "on.pull_request.types[*]", Noise: events, Head: "on:\n  pull_request:\n    types:\n", Tail: job, Indent: 6, Lits: []string{"opened", "closed", "reopened"}},
		{Name: "on.workflow_run.workflows[*]", Head: "on:\n  workflow_run:\n    workflows:\n", Tail: job, Indent: 6, Lits: []string{"CI", "Build", "Test"}},
		{Name: "on.repository_dispatch.types[*]", Head: "on:\n  repository_dispatch:\n    types:\n", Tail: job, Indent: 6, Lits: []string{"alpha", "beta", "gamma"}},
		{Name: "on.schedule[*].cron", Noise: events, Head: "on:\n  schedule:\n", Tail: job, Indent: 4, ItemKey: "cron: ", Lits: []string{"'0 0 * * *'", "'30 5 * * 1'", "'15 3 1 * *'"}},
		{Name: "on.workflow_dispatch.inputs.<id>.options[*]", Head: "on:\n  workflow_dispatch:\n    inputs:\n      p:\n        type: choice\n        options:\n", Tail: job, Indent: 10, Lits: []string{"one", "two", "three"}},
		{Name: "jobs.<id>.container.ports[*]", Key: "jobs.<job_id>.container", Head: "on: push\njobs:\n  build:\n    runs-on: ubuntu-latest\n    container:\n      image: img\n      ports:\n", Tail: steps, Indent: 8, Lits: []string{"80", "8080:80", "443"}},
		{Name: "jobs.<id>.container.volumes[*]", Key: "jobs.<job_id>.container", Head: "on: push\njobs:\n  build:\n    runs-on: ubuntu-latest\n    container:\n      image: img\n      ports:\n        - 80\n      volumes:\n", Tail: steps, Indent: 8, Lits: []string{"/a:/b", "/c:/d", "/e:/f"}},
		{Name: "jobs.<id>.services.<id>.ports[*]", Key: "jobs.<job_id>.services", Head: "on: push\njobs:\n  build:\n    runs-on: ubuntu-latest\n    services:\n      db:\n        image: img\n        volumes:\n          - /a:/b\n        ports:\n", Tail: steps, Indent: 10, Lits: []string{"80", "8080:80", "443"}},
		{Name: "jobs.<id>.services.<id>.volumes[*]", Key: "jobs.<job_id>.services", Head: "on: push\njobs:\n  build:\n    runs-on: ubuntu-latest\n    services:\n      db:\n        image: img\n        volumes:\n", Tail: steps, Indent: 10, Lits: []string{"/a:/b", "/c:/d", "/e:/f"}},
		{Name: "jobs.<id>.strategy.matrix.<row>[*]", Key: c12StrategyKey, Head: "on: push\njobs:\n  build:\n    runs-on: ubuntu-latest\n    strategy:\n      matrix:\n        os:\n", Tail: steps, Indent: 10, Lits: []string{"m1", "m2", "m3"}},
		{Name: "jobs.<id>.strategy.matrix.<row>[*][*]", Key: c12StrategyKey, Head: "on: push\njobs:\n  build:\n    runs-on: ubuntu-latest\n    strategy:\n      matrix:\n        os:\n          - - p\n            - q\n          -\n", Tail: steps, Indent: 12, Lits: []string{"m1", "m2", "m3"}},
		{Name: "jobs.<id>.strategy.matrix.include[*].<key>[*]", Key: c12StrategyKey, Head: "on: push\njobs:\n  build:\n    runs-on: ubuntu-latest\n    strategy:\n      matrix:\n        os: [a, b]\n        include:\n          - os: a\n            extra:\n", Tail: steps, Indent: 14, Lits: []string{"m1", "m2", "m3"}},
	}
	for _, f := range []string{"branches", "branches-ignore", "tags", "tags-ignore", "paths", "paths-ignore"} {
		ps = append(ps, c12ListPos{Name: "on.push." + f + "[*]", Noise: glob, Head: "on:\n  push:\n    " + f + ":\n", Tail: job, Indent: 6, Lits: []string{"main", "dev", "rel"}})
	}
	return ps
}

func c12ListCases() []c12LCase {
	var out []c12LCase
	for _, p := range c12ListPositions() {
		for n := 2; n <= 4; n++ {
			for idx := 0; idx < n; idx++ {
				for _, sib := range []string{"literal", "whole-value expressions", "mixed text and expressions"} {
					var b strings.Builder
					b.WriteString(p.Head)
					k := 0
					for e := 0; e < n; e++ {
						v := c12Marker
						if e != idx {
							lit := p.Lits[k%len(p.Lits)]
							k++
							switch sib {
							case "literal":
								v = lit
							case "whole-value expressions":
								v = "${{ '" + strings.Trim(lit, "'") + "' }}"
							default:
								v = "sib-${{ 'v' }}-" + fmt.Sprint(e)
							}
						}
						b.WriteString(strings.Repeat(" ", p.Indent) + "- " + p.ItemKey + v + "\n")
					}
					b.WriteString(p.Tail)
					cl := &c12Class{Name: p.Name, Key: p.Key, Kind: c12Str, Noise: p.Noise, Src: b.String()}
					out = append(out, c12LCase{Pos: p.Name, Len: n, Idx: idx, Siblings: sib, Cl: cl})
				}
			}
		}
	}
	return out
}

func c12ListID(lc c12LCase, shape string) string {
	return fmt.Sprintf("%s | %d elements, probe at index %d, siblings %s | %s", lc.Pos, lc.Len, lc.Idx, lc.Siblings, shape)
}

func c12ListCase(c *Case, g map[string]*c12Avail, lc c12LCase) {
	cl := lc.Cl
	if g[cl.Key] == nil {
		c.Inconclusive(fmt.Sprintf("list position %q refers to key %q which is not in the transcribed table", cl.Name, cl.Key))
		return
	}
	if !c12Baseline(c, g, cl) {
		return
	}
	names, isFn := c12AllNames()
	for si, sh := range c12ListShapes {
		id := c12ListID(lc, sh.Name)
		due, dueMissed, bad := 0, 0, 0
		var first *c12Result
		var firstExp map[c12Obs]bool
		// pairs of names covering all 17: (0,1) (2,3) ... (16,0)
		for a := 0; a < len(names); a += 2 {
			b := (a + 1) % len(names)
			p := c12Join2(c12Leaf(names[a], isFn[a]), c12Leaf(names[b], isFn[b]), a/2+si+lc.Idx)
			res, exp := c12Run(c, g, cl, p, sh.Pre, sh.Post, false, false)
			c.Count("list_element_lints", 1)
			c.Nontrivial("list|" + id + "|" + names[a])
			due += len(exp)
			dueMissed += len(res.Missing)
			if !res.ok() {
				bad++
				if first == nil {
					first, firstExp = res, exp
				}
			} else if len(exp) > 0 {
				c.SetAdd("list_cases_with_due_and_correct_report", id)
			}
			if c.Idx%397 == 11 && si == 1 && a == 0 {
				c.Sample(map[string]interface{}{"class": cl.Name, "list": id, "table_key": c12KeyLabel(cl.Key), "src": res.Src, "expected": c12ObsList(exp), "diags": c12ShortDiags(res.Diags)})
			}
		}
		if bad == 0 {
			continue
		}
		d := c12Detail(cl, first, firstExp)
		d["list"] = id
		switch {
		case first.Err != nil:
			c.Violation("C12:fatal-error", "linting a probe returned a fatal error: "+first.Err.Error(), d)
		case due > 0 && dueMissed == due:
			c.Violation("C12:list-element-not-checked:"+cl.Name,
				fmt.Sprintf("list position %q (key %s): none of the %d due reports appears for [%s] - this element of the list is not checked", cl.Name, c12KeyLabel(cl.Key), due, id), d)
		default:
			pol := "not-reported"
			if len(first.Missing) == 0 {
				pol = "wrongly-reported"
			}
			c.Violation("C12:list-element:"+pol+":"+cl.Name,
				fmt.Sprintf("list position %q (key %s), [%s]: missing=%v spurious=%v", cl.Name, c12KeyLabel(cl.Key), id, first.Missing, first.Spurious), d)
		}
	}
}

// c12ListFloors: every list position x length x element index x sibling kind x probe shape must have
// been exercised with a clean baseline and a due and correct report.
func c12ListFloors(r *Run, cases []c12LCase) {
	bad, total := 0, 0
	for _, lc := range cases {
		for _, sh := range c12ListShapes {
			total++
			id := c12ListID(lc, sh.Name)
			if !r.SetHas("list_cases_with_due_and_correct_report", id) {
				if bad++; bad <= 8 {
					r.Inconclusive("list case without a due and correct report: " + id)
				}
			}
		}
	}
	r.Extra("list_cases", total)
}
