package main

// Core plumbing shared by all monitors: seeded PRNG, case families, parallel
// runner with panic capture, evidence bookkeeping, known findings, replay files
// and the three-valued verdict (exit 0 / 1 / 2).

import (
	"encoding/json"
	"fmt"
	"hash/fnv"
	"os"
	"path/filepath"
	"runtime"
	"runtime/debug"
	"sort"
	"strings"
	"sync"
	"sync/atomic"
	"time"
)

// ---------------------------------------------------------------------------
// PRNG (splitmix64); sub-streams are derived from (seed, property, family, index)

type Rand struct{ s uint64 }

func mix64(z uint64) uint64 {
	z += 0x9e3779b97f4a7c15
	z = (z ^ (z >> 30)) * 0xbf58476d1ce4e5b9
	z = (z ^ (z >> 27)) * 0x94d049bb133111eb
	return z ^ (z >> 31)
}

func hashStr(s string) uint64 {
	h := fnv.New64a()
	h.Write([]byte(s))
	return h.Sum64()
}

func NewRand(seed uint64, parts ...string) *Rand {
	s := mix64(seed)
	for _, p := range parts {
		s = mix64(s ^ hashStr(p))
	}
	return &Rand{s}
}

func (r *Rand) Sub(i int) *Rand { return &Rand{mix64(r.s ^ mix64(uint64(i)+0x1234567))} }

func (r *Rand) U64() uint64 {
	r.s += 0x9e3779b97f4a7c15
	z := r.s
	z = (z ^ (z >> 30)) * 0xbf58476d1ce4e5b9
	z = (z ^ (z >> 27)) * 0x94d049bb133111eb
	return z ^ (z >> 31)
}

// Intn returns a value in [0,n). n<=0 yields 0.
func (r *Rand) Intn(n int) int {
	if n <= 1 {
		return 0
	}
	return int(r.U64() % uint64(n))
}

// Range returns a value in [lo,hi].
func (r *Rand) Range(lo, hi int) int { return lo + r.Intn(hi-lo+1) }
func (r *Rand) Bool() bool           { return r.U64()&1 == 1 }

// Chance returns true with probability num/den.
func (r *Rand) Chance(num, den int) bool { return r.Intn(den) < num }
func (r *Rand) Pick(xs []string) string  { return xs[r.Intn(len(xs))] }
func (r *Rand) Perm(n int) []int {
	p := make([]int, n)
	for i := range p {
		p[i] = i
	}
	for i := n - 1; i > 0; i-- {
		j := r.Intn(i + 1)
		p[i], p[j] = p[j], p[i]
	}
	return p
}

// ---------------------------------------------------------------------------
// Known findings

type KnownFinding struct {
	Property    string `json:"property"`
	Signature   string `json:"signature"`
	Status      string `json:"status"` // "open" or "fixed"
	Commit      string `json:"commit,omitempty"`
	Description string `json:"description"`
}

type knownFile struct {
	Comment  string         `json:"comment"`
	Findings []KnownFinding `json:"findings"`
}

func verifDir() string {
	if d := os.Getenv("VERIF_DIR"); d != "" {
		return d
	}
	return "/verif"
}

// evidenceDir is /verif/evidence unless the check is pointed at a scratch copy of the repository
// (mutant validation), whose results must never overwrite the evidence of the real tree.
func evidenceDir() string {
	if d := os.Getenv("VERIF_EVIDENCE_DIR"); d != "" {
		return d
	}
	return filepath.Join(verifDir(), "evidence")
}

func loadKnown(prop string) []KnownFinding {
	b, err := os.ReadFile(filepath.Join(verifDir(), "known_findings.json"))
	if err != nil {
		return nil
	}
	var kf knownFile
	if err := json.Unmarshal(b, &kf); err != nil {
		fmt.Fprintf(os.Stderr, "known_findings.json unreadable: %v\n", err)
		os.Exit(10)
	}
	var out []KnownFinding
	for _, f := range kf.Findings {
		if f.Property == prop && f.Status == "open" {
			out = append(out, f)
		}
	}
	return out
}

// ---------------------------------------------------------------------------
// Run: one execution of one property's check

type violation struct {
	Sig    string
	What   string
	Replay string
	Count  int
}

type Run struct {
	Prop     string
	Tier     string // "quick" | "thorough"
	Seed     uint64
	Level    string
	Rule     string
	Verbose  bool
	ReplayOf *ReplayFile

	mu          sync.Mutex
	evals       int64
	nontriv     map[uint64]struct{}
	samples     []interface{}
	counters    map[string]int64
	sets        map[string]map[string]struct{}
	extra       map[string]interface{}
	viol        map[string]*violation
	violOrder   []string
	knownHits   map[string]int
	known       []KnownFinding
	inconcl     []string
	assumptions []string
	exhaustive  bool
	start       time.Time
}

func NewRun(prop, tier string, seed uint64) *Run {
	return &Run{
		Prop: prop, Tier: tier, Seed: seed, Level: "exploration",
		nontriv:   map[uint64]struct{}{},
		counters:  map[string]int64{},
		sets:      map[string]map[string]struct{}{},
		extra:     map[string]interface{}{},
		viol:      map[string]*violation{},
		knownHits: map[string]int{},
		known:     loadKnown(prop),
		start:     time.Now(),
	}
}

func (r *Run) Thorough() bool { return r.Tier == "thorough" }

// Q picks the case count for the tier.
func (r *Run) Q(quick, thorough int) int {
	if r.Thorough() {
		return thorough
	}
	return quick
}

func (r *Run) Eval(n int) { atomic.AddInt64(&r.evals, int64(n)) }

// Nontrivial records a distinct non-trivial case by key.
func (r *Run) Nontrivial(key string) {
	h := hashStr(key)
	r.mu.Lock()
	r.nontriv[h] = struct{}{}
	r.mu.Unlock()
}

func (r *Run) Count(name string, n int) {
	r.mu.Lock()
	r.counters[name] += int64(n)
	r.mu.Unlock()
}

func (r *Run) Counter(name string) int64 {
	r.mu.Lock()
	defer r.mu.Unlock()
	return r.counters[name]
}

// SetAdd adds elem to the named distinct-set (reported as a count and, for small sets, as a list).
func (r *Run) SetAdd(set, elem string) {
	r.mu.Lock()
	m := r.sets[set]
	if m == nil {
		m = map[string]struct{}{}
		r.sets[set] = m
	}
	m[elem] = struct{}{}
	r.mu.Unlock()
}

func (r *Run) SetLen(set string) int {
	r.mu.Lock()
	defer r.mu.Unlock()
	return len(r.sets[set])
}

func (r *Run) SetHas(set, elem string) bool {
	r.mu.Lock()
	defer r.mu.Unlock()
	_, ok := r.sets[set][elem]
	return ok
}

func (r *Run) Extra(k string, v interface{}) {
	r.mu.Lock()
	r.extra[k] = v
	r.mu.Unlock()
}

func (r *Run) Assume(s string) {
	r.mu.Lock()
	r.assumptions = append(r.assumptions, s)
	r.mu.Unlock()
}

func (r *Run) SetExhaustive(b bool) { r.exhaustive = b }

// Sample keeps up to 12 samples; callers restrict themselves to low case indices so that the
// set of samples is reproducible.
func (r *Run) Sample(v interface{}) {
	r.mu.Lock()
	if len(r.samples) < 12 {
		r.samples = append(r.samples, v)
	}
	r.mu.Unlock()
}

func (r *Run) Inconclusive(msg string) {
	r.mu.Lock()
	r.inconcl = append(r.inconcl, msg)
	r.mu.Unlock()
	fmt.Printf("INCONCLUSIVE property=%s %s\n", r.Prop, msg)
}

type ReplayFile struct {
	Property string      `json:"property"`
	Tier     string      `json:"tier"`
	Seed     uint64      `json:"seed"`
	Family   string      `json:"family"`
	Index    int         `json:"index"`
	Sig      string      `json:"signature"`
	What     string      `json:"what"`
	Detail   interface{} `json:"detail"`
}

func sanitizeName(s string) string {
	var b strings.Builder
	for _, c := range s {
		if c >= 'a' && c <= 'z' || c >= 'A' && c <= 'Z' || c >= '0' && c <= '9' || c == '-' || c == '_' {
			b.WriteRune(c)
		} else {
			b.WriteByte('_')
		}
		if b.Len() > 60 {
			break
		}
	}
	return b.String()
}

// violationAt records a violation. sig is the narrow class of the witness; a signature listed as an
// open known finding prints KNOWN-FINDING instead. Only the first witness per signature gets a
// replay file and a VIOLATION line.
func (r *Run) violationAt(fam string, idx int, sig, what string, detail interface{}) {
	r.mu.Lock()
	defer r.mu.Unlock()
	for _, k := range r.known {
		if k.Signature == sig {
			r.knownHits[sig]++
			if r.knownHits[sig] == 1 {
				fmt.Printf("KNOWN-FINDING: property=%s %s (%s)\n", r.Prop, k.Description, sig)
			}
			return
		}
	}
	if v, ok := r.viol[sig]; ok {
		v.Count++
		return
	}
	v := &violation{Sig: sig, What: what, Count: 1}
	r.viol[sig] = v
	r.violOrder = append(r.violOrder, sig)
	if len(r.viol) > 40 {
		return // enough witnesses written
	}
	dir := filepath.Join(evidenceDir(), "replay")
	os.MkdirAll(dir, 0o755)
	name := fmt.Sprintf("%s-%s-%016x.json", r.Prop, sanitizeName(sig), hashStr(fmt.Sprintf("%s/%s/%d/%d", sig, fam, idx, r.Seed)))
	path := filepath.Join(dir, name)
	rf := ReplayFile{r.Prop, r.Tier, r.Seed, fam, idx, sig, what, detail}
	b, err := json.MarshalIndent(rf, "", " ")
	if err != nil {
		b, _ = json.MarshalIndent(ReplayFile{r.Prop, r.Tier, r.Seed, fam, idx, sig, what, fmt.Sprintf("%+v", detail)}, "", " ")
	}
	os.WriteFile(path, b, 0o644)
	v.Replay = path
	fmt.Printf("VIOLATION property=%s replay=%s\n", r.Prop, path)
	fmt.Printf("  signature: %s\n  what: %s\n", sig, truncate(what, 600))
}

func truncate(s string, n int) string {
	if len(s) <= n {
		return s
	}
	return s[:n] + "…"
}

// ---------------------------------------------------------------------------
// Families and cases

type Case struct {
	*Run
	Fam string
	Idx int
	R   *Rand
}

func (c *Case) Violation(sig, what string, detail interface{}) {
	c.Run.violationAt(c.Fam, c.Idx, sig, what, detail)
}

// Logf prints only in replay / verbose mode.
func (c *Case) Logf(format string, args ...interface{}) {
	if c.Verbose {
		fmt.Printf(format+"\n", args...)
	}
}

type Family struct {
	Name   string
	N      int         // number of cases
	Do     func(*Case) // one case; must be deterministic given c.R
	Serial bool        // run cases one after another (e.g. cases that are internally parallel)
	Par    int         // override worker count (0 = NumCPU)
}

func (r *Run) runCase(f *Family, idx int) {
	c := &Case{Run: r, Fam: f.Name, Idx: idx, R: NewRand(r.Seed, r.Prop, f.Name).Sub(idx)}
	r.wdEnter(f.Name, idx)
	defer r.wdLeave(f.Name, idx)
	defer func() {
		if p := recover(); p != nil {
			st := string(debug.Stack())
			c.Violation("panic:"+f.Name+":"+panicSite(st), fmt.Sprintf("panic in case %s[%d]: %v", f.Name, idx, p), map[string]interface{}{"panic": fmt.Sprint(p), "stack": st})
		}
	}()
	f.Do(c)
}

// panicSite extracts the first actionlint (or harness) frame below the panic for the signature.
func panicSite(stack string) string {
	lines := strings.Split(stack, "\n")
	seenPanic := false
	for i, l := range lines {
		if strings.HasPrefix(l, "panic(") {
			seenPanic = true
			continue
		}
		if seenPanic && strings.Contains(l, "actionlint") && !strings.HasPrefix(l, "\t") {
			fn := l
			if j := strings.LastIndex(fn, "("); j > 0 {
				fn = fn[:j]
			}
			_ = i
			return fn
		}
	}
	return "unknown"
}

func (r *Run) RunFamilies(fams []*Family) {
	if r.ReplayOf != nil {
		for _, f := range fams {
			if f.Name == r.ReplayOf.Family {
				r.Verbose = true
				fmt.Printf("replaying %s %s[%d] seed=%d tier=%s\n", r.Prop, f.Name, r.ReplayOf.Index, r.Seed, r.Tier)
				r.runCase(f, r.ReplayOf.Index)
				return
			}
		}
		r.Inconclusive("replay: unknown family " + r.ReplayOf.Family)
		return
	}
	r.wdStart()
	for _, f := range fams {
		if only := os.Getenv("VERIF_ONLY_FAMILY"); only != "" && only != f.Name {
			continue // development aid; never set by registered commands
		}
		t0 := time.Now()
		par := f.Par
		if par <= 0 {
			par = runtime.NumCPU()
		}
		if f.Serial {
			par = 1
		}
		if par > f.N {
			par = f.N
		}
		var next int64 = -1
		var wg sync.WaitGroup
		for w := 0; w < par; w++ {
			wg.Add(1)
			go func() {
				defer wg.Done()
				for {
					i := int(atomic.AddInt64(&next, 1))
					if i >= f.N {
						return
					}
					r.runCase(f, i)
				}
			}()
		}
		wg.Wait()
		fmt.Printf("[%s] family %-28s cases=%-8d %.1fs\n", r.Prop, f.Name, f.N, time.Since(t0).Seconds())
	}
}

// ---------------------------------------------------------------------------
// Finish: evidence + exit status

func (r *Run) Finish() {
	r.mu.Lock()
	cov := map[string]interface{}{
		"evaluations":         atomic.LoadInt64(&r.evals),
		"distinct_nontrivial": len(r.nontriv),
		"rule":                r.Rule,
		"samples":             r.samples,
		"exhaustive":          r.exhaustive,
	}
	for k, v := range r.counters {
		cov[k] = v
	}
	for k, m := range r.sets {
		cov[k+"_distinct"] = len(m)
		if len(m) <= 80 {
			l := make([]string, 0, len(m))
			for e := range m {
				l = append(l, e)
			}
			sort.Strings(l)
			cov[k] = l
		}
	}
	for k, v := range r.extra {
		cov[k] = v
	}
	if len(r.inconcl) > 0 {
		cov["inconclusive"] = r.inconcl
	}
	nv := 0
	var vlist []map[string]interface{}
	for _, s := range r.violOrder {
		v := r.viol[s]
		nv += v.Count
		vlist = append(vlist, map[string]interface{}{"signature": v.Sig, "what": truncate(v.What, 300), "count": v.Count, "replay": v.Replay})
	}
	if len(vlist) > 0 {
		cov["violation_list"] = vlist
	}
	if len(r.knownHits) > 0 {
		cov["known_findings_hit"] = r.knownHits
	}
	ev := map[string]interface{}{
		"property_id": r.Prop,
		"tier":        r.Tier,
		"seed":        r.Seed,
		"level":       r.Level,
		"coverage":    cov,
		"assumptions": r.assumptions,
		"wall_s":      time.Since(r.start).Seconds(),
		"violations":  nv,
	}
	if ev["assumptions"] == nil || len(r.assumptions) == 0 {
		ev["assumptions"] = []string{}
	}
	nInc := len(r.inconcl)
	ntr := len(r.nontriv)
	evals := atomic.LoadInt64(&r.evals)
	r.mu.Unlock()

	if r.ReplayOf == nil {
		dir := evidenceDir()
		os.MkdirAll(dir, 0o755)
		b, err := json.MarshalIndent(ev, "", " ")
		if err != nil {
			fmt.Fprintf(os.Stderr, "evidence marshal: %v\n", err)
			os.Exit(10)
		}
		tmp := filepath.Join(dir, "."+r.Prop+".json.tmp")
		os.WriteFile(tmp, append(b, '\n'), 0o644)
		os.Rename(tmp, filepath.Join(dir, r.Prop+".json"))
	}
	fmt.Printf("[%s] tier=%s seed=%d evaluations=%d distinct_nontrivial=%d violations=%d known=%d wall=%.1fs\n",
		r.Prop, r.Tier, r.Seed, evals, ntr, nv, len(r.knownHits), time.Since(r.start).Seconds())
	if nv > 0 {
		os.Exit(1)
	}
	if r.ReplayOf != nil {
		fmt.Printf("replay: no violation reproduced\n")
		os.Exit(0)
	}
	if nInc > 0 {
		os.Exit(10)
	}
	if ntr < 2 || evals < 1 {
		fmt.Printf("INCONCLUSIVE property=%s observed too little (evaluations=%d nontrivial=%d)\n", r.Prop, evals, ntr)
		os.Exit(10)
	}
	os.Exit(0)
}
