package main

// C17, rule level: whole workflows. The `on:` mapping lists 1-5 events in random order, webhook
// events (push, pull_request, pull_request_target, workflow_run, and filter-less ones) mixed with
// events that are not webhook events (workflow_dispatch, schedule, repository_dispatch,
// workflow_call). Webhook events carry 0-3 of the six filter keys with 1-3 patterns each, written as
// a scalar, a block sequence or a flow sequence, plain or quoted.
//
// Oracle: the glob diagnostics of the workflow are exactly the union, over all patterns, of the
// validator reports for that pattern in its mode (ref / path), each placed at the pattern's scalar
// plus the in-pattern column -- independent of where the event stands in `on:` and of what stands
// next to it. Independently of the validators, a pattern the reference model rejects must carry at
// least one diagnostic and a pattern it accepts none. Diagnostics of other kinds (events,
// syntax-check, ...) are foreign to the property and ignored.

import (
	"fmt"
	"sort"
	"strings"
	"unicode/utf8"

	"github.com/rhysd/actionlint"
)

// c17WB is a text builder whose column counts characters (patterns may be non-ASCII and several
// of them may share a line in a flow sequence).
type c17WB struct {
	sb        strings.Builder
	line, col int
}

func (b *c17WB) w(s string) {
	for _, r := range s {
		if r == '\n' {
			b.line++
			b.col = 1
		} else {
			b.col++
		}
	}
	b.sb.WriteString(s)
}

var c17WfFilterHooks = []string{"push", "pull_request", "pull_request_target", "workflow_run"}
var c17WfPlainHooks = []string{"issues", "release", "merge_group", "create", "issue_comment", "label"}
var c17WfNonWebhook = []string{"workflow_dispatch", "schedule", "repository_dispatch", "workflow_call"}

var c17WfFormNames = []string{"scalar", "block", "flow"}

type c17WfPat struct {
	c17Scalar
	event      string
	form       int
	afterNonWH bool // an event that is not a webhook event is written before this pattern's event
	lastEvent  bool // the pattern's event is the last one of on:
}

type c17WfFilter struct {
	key  string
	form int
	pats []*c17WfPat
}

type c17WfEvent struct {
	name    string
	webhook bool
	filters []*c17WfFilter
}

func c17WfStyleOK(p string, style, form int) bool {
	if !c17StyleOK(p, style) {
		return false
	}
	// plain scalars inside a flow sequence: no flow indicators; '?' and ':' confuse go-yaml's flow scanner
	if form == 2 && style == 0 && strings.ContainsAny(p, ",[]{}?:") {
		return false
	}
	return true
}

func c17WfGen(r *Rand) []*c17WfEvent {
	n := r.Range(1, 5)
	used := map[string]bool{}
	var placed []string
	var evs []*c17WfEvent
	for len(evs) < n {
		var name string
		webhook := true
		switch k := r.Intn(20); {
		case k < 9:
			name = c17WfFilterHooks[r.Intn(len(c17WfFilterHooks))]
		case k < 12:
			name = c17WfPlainHooks[r.Intn(len(c17WfPlainHooks))]
		default:
			name = c17WfNonWebhook[r.Intn(len(c17WfNonWebhook))]
			webhook = false
		}
		if used[name] {
			continue
		}
		used[name] = true
		ev := &c17WfEvent{name: name, webhook: webhook}
		isFilterHook := false
		for _, h := range c17WfFilterHooks {
			if h == name {
				isFilterHook = true
			}
		}
		if isFilterHook {
			keys := c17FilterKeys
			maxKeys := 3
			if name == "workflow_run" {
				keys = c17FilterKeys[:2]
				maxKeys = 2
			}
			nk := r.Intn(maxKeys + 1)
			if r.Intn(3) != 0 && nk == 0 {
				nk = 1
			}
			perm := r.Perm(len(keys))
			for _, ki := range perm[:nk] {
				f := &c17WfFilter{key: keys[ki], form: r.Intn(3)}
				nv := r.Range(1, 3)
				if f.form == 0 {
					nv = 1
				}
				for len(f.pats) < nv {
					pat := c17LintPattern(r)
					// the same string under several filter keys / events of one workflow (a pattern that is
					// fine as a path filter may be invalid as a ref filter): verdicts must not be shared
					if len(placed) > 0 && r.Chance(1, 3) {
						pat = placed[r.Intn(len(placed))]
					}
					style := r.Intn(3)
					if !c17WfStyleOK(pat, style, f.form) {
						style = 1
						if !c17WfStyleOK(pat, style, f.form) {
							continue
						}
					}
					placed = append(placed, pat)
					f.pats = append(f.pats, &c17WfPat{c17Scalar: c17Scalar{key: f.key, pat: pat, style: style}, event: name, form: f.form})
				}
				ev.filters = append(ev.filters, f)
			}
		}
		evs = append(evs, ev)
	}
	seenNonWH := false
	for i, ev := range evs {
		for _, f := range ev.filters {
			for _, p := range f.pats {
				p.afterNonWH = seenNonWH
				p.lastEvent = i == len(evs)-1
			}
		}
		if !ev.webhook {
			seenNonWH = true
		}
	}
	return evs
}

func c17WfRender(r *Rand, evs []*c17WfEvent) string {
	b := &c17WB{line: 1, col: 1}
	if r.Intn(4) == 0 {
		b.w("name: wf\n")
	}
	b.w("on:\n")
	writePat := func(p *c17WfPat) {
		q := []string{"", "'", "\""}[p.style]
		p.pos = Pos{b.line, b.col}
		b.w(q)
		p.content = b.col
		b.w(p.pat + q)
	}
	for _, ev := range evs {
		b.w("  " + ev.name + ":\n")
		switch ev.name {
		case "schedule":
			b.w("    - cron: '0 3 * * 1'\n")
		case "workflow_dispatch":
			if r.Bool() {
				b.w("    inputs:\n      level:\n        description: d\n        type: string\n")
			}
		case "repository_dispatch":
			if r.Bool() {
				b.w("    types: [deploy]\n")
			}
		case "workflow_call":
			if r.Bool() {
				b.w("    inputs:\n      who:\n        type: string\n        required: false\n")
			}
		case "workflow_run":
			b.w("    workflows: [ci]\n")
		case "issues", "release", "issue_comment", "label":
			if r.Bool() {
				b.w("    types: [created]\n")
			}
		case "pull_request", "pull_request_target":
			if r.Intn(3) == 0 {
				b.w("    types: [opened, synchronize]\n")
			}
		}
		for _, f := range ev.filters {
			switch f.form {
			case 0:
				b.w("    " + f.key + ": ")
				writePat(f.pats[0])
				b.w("\n")
			case 1:
				b.w("    " + f.key + ":\n")
				ind := strings.Repeat(" ", r.Range(4, 8))
				for _, p := range f.pats {
					b.w(ind + "- ")
					writePat(p)
					b.w("\n")
				}
			default:
				b.w("    " + f.key + ": [")
				for i, p := range f.pats {
					if i > 0 {
						b.w([]string{", ", ","}[r.Intn(2)])
					}
					writePat(p)
				}
				b.w("]\n")
			}
		}
	}
	b.w("jobs:\n  t:\n    runs-on: ubuntu-latest\n    steps:\n      - run: echo\n")
	return b.sb.String()
}

// c17WfRoundTrip verifies that the parser sees exactly the events, filters, pattern texts and
// pattern positions that were written; anything else is outside the domain of this family.
func c17WfRoundTrip(src string, evs []*c17WfEvent) string {
	wf, _ := actionlint.Parse([]byte(src))
	if wf == nil {
		return "no-ast"
	}
	if len(wf.On) != len(evs) {
		return "event-count"
	}
	for i, e := range wf.On {
		ev := evs[i]
		w, ok := e.(*actionlint.WebhookEvent)
		if ok != ev.webhook {
			return "event-kind"
		}
		if !ok {
			continue
		}
		if w.Hook == nil || w.Hook.Value != ev.name {
			return "event-name"
		}
		got := map[string]*actionlint.WebhookEventFilter{"branches": w.Branches, "branches-ignore": w.BranchesIgnore, "tags": w.Tags, "tags-ignore": w.TagsIgnore, "paths": w.Paths, "paths-ignore": w.PathsIgnore}
		nf := 0
		for _, f := range got {
			if f != nil {
				nf++
			}
		}
		if nf != len(ev.filters) {
			return "filter-count"
		}
		for _, f := range ev.filters {
			g := got[f.key]
			if g == nil || len(g.Values) != len(f.pats) {
				return "filter-values"
			}
			for k, p := range f.pats {
				v := g.Values[k]
				if v.Value != p.pat || v.Quoted != (p.style != 0) {
					return "pattern-text"
				}
				if v.Pos == nil || v.Pos.Line != p.pos.Line || v.Pos.Col != p.pos.Col {
					return "pattern-position"
				}
			}
		}
	}
	return ""
}

type c17WfRep struct {
	col int
	msg string
}

func c17WfRepStrings(rs []c17WfRep) []string {
	out := make([]string, len(rs))
	for i, r := range rs {
		out[i] = fmt.Sprintf("col %d: %s", r.col, strings.TrimSuffix(r.msg, c17NoteSuffix))
	}
	sort.Strings(out)
	return out
}

func c17WfSameCols(a, b []c17WfRep) bool {
	if len(a) != len(b) {
		return false
	}
	x, y := make([]int, len(a)), make([]int, len(b))
	for i := range a {
		x[i], y[i] = a[i].col, b[i].col
	}
	sort.Ints(x)
	sort.Ints(y)
	for i := range x {
		if x[i] != y[i] {
			return false
		}
	}
	return true
}

func c17WfCase(c *Case, st *c17Stats) {
	evs := c17WfGen(c.R)
	src := c17WfRender(c.R, evs)
	var pats []*c17WfPat
	var order []string
	for _, ev := range evs {
		order = append(order, ev.name)
		st.add("wf_event_kinds", ev.name)
		for _, f := range ev.filters {
			pats = append(pats, f.pats...)
		}
	}
	if why := c17WfRoundTrip(src, evs); why != "" {
		st.cnt["wf_roundtrip_skipped"]++
		st.cnt["wf_roundtrip_skipped_"+why]++
		return
	}
	ds, err := lintSrc(src)
	c.Eval(1)
	st.cnt["wf_workflows"]++
	if err != nil {
		c.Violation("C17:wf-fatal-error", "Lint returned a fatal error: "+err.Error(), map[string]interface{}{"src": src})
		return
	}
	got := make([][]c17WfRep, len(pats))
	want := make([][]c17WfRep, len(pats))
	det := func(extra map[string]interface{}) map[string]interface{} {
		var pl []map[string]interface{}
		for i, p := range pats {
			pl = append(pl, map[string]interface{}{"event": p.event, "key": p.key, "pattern": p.pat, "style": c17StyleNames[p.style], "form": c17WfFormNames[p.form],
				"line": p.pos.Line, "content_col": p.content, "after_non_webhook_event": p.afterNonWH,
				"expected": c17WfRepStrings(want[i]), "observed": c17WfRepStrings(got[i])})
		}
		d := map[string]interface{}{"src": src, "event_order": order, "patterns": pl, "observed_all": diagStrings(ds)}
		for k, v := range extra {
			d[k] = v
		}
		return d
	}
	for i, p := range pats {
		isRef := !strings.HasPrefix(p.key, "paths")
		var errs []actionlint.InvalidGlobPattern
		if isRef {
			errs = actionlint.ValidateRefGlob(p.pat)
		} else {
			errs = actionlint.ValidatePathGlob(p.pat)
		}
		for _, e := range errs {
			col := p.content
			if e.Column > 0 {
				col += e.Column - 1
			}
			want[i] = append(want[i], c17WfRep{col, e.Message + c17NoteSuffix})
		}
	}
	// attribute every glob diagnostic to the pattern whose scalar text it points into
	for _, d := range ds {
		if d.Kind != "glob" {
			st.add("wf_foreign_kinds", d.Kind)
			continue
		}
		st.cnt["wf_glob_diags"]++
		owner := -1
		for i, p := range pats {
			n := utf8.RuneCountInString(p.pat)
			if p.pos.Line == d.Line && d.Col >= p.content && d.Col < p.content+n {
				owner = i
			}
		}
		if owner < 0 {
			c.Logf("src:\n%s\nglob diagnostic outside every pattern: %s", src, d.String())
			c.Violation("C17:wf-report-not-on-a-pattern", "glob diagnostic does not point into any filter pattern of the workflow: "+d.String(), det(nil))
			return
		}
		got[owner] = append(got[owner], c17WfRep{d.Col, d.Msg})
		// named-character oracle on the rule's own text, for every report
		{
			p := pats[owner]
			isRef := !strings.HasPrefix(p.key, "paths")
			if sig, what := c17ReportSig([]rune(p.pat), isRef, d.Msg, d.Col-p.content+1, len(p.pat)); sig != "" {
				c.Logf("src:\n%s\n%s: %s", src, d.String(), what)
				c.Violation(sig, fmt.Sprintf("through Lint (workflow), on.%s.%s pattern %q: %s", p.event, p.key, p.pat, what), det(map[string]interface{}{"pattern_index": owner, "diagnostic": d.String()}))
			} else if named, ok := c17NamedChar(d.Msg); ok {
				st.cnt["wf_named_char_checked"]++
				if named == '%' {
					st.cnt["wf_reports_naming_percent"]++
					st.add("wf_keys_named_percent", p.key)
				}
			}
		}
	}
	anyDue := false
	for i, p := range pats {
		isRef := !strings.HasPrefix(p.key, "paths")
		g, w := c17WfRepStrings(got[i]), c17WfRepStrings(want[i])
		ctx := "no-non-webhook-event-before"
		if p.afterNonWH {
			ctx = "after-non-webhook-event"
		}
		same := len(g) == len(w)
		for k := 0; same && k < len(g); k++ {
			same = g[k] == w[k]
		}
		st.cnt["wf_patterns"]++
		if len(w) > 0 {
			anyDue = true
			st.cnt["wf_patterns_due"]++
		}
		describe := fmt.Sprintf("on.%s.%s pattern %q (%s, %s) with events in order %v", p.event, p.key, p.pat, c17StyleNames[p.style], c17WfFormNames[p.form], order)
		switch {
		case !same && len(w) > 0 && len(g) == 0:
			c.Logf("src:\n%s\n%s: expected %q, observed nothing", src, describe, w)
			c.Violation("C17:wf-filter-not-validated:"+ctx, describe+": the validator reports "+fmt.Sprint(w)+" but the workflow has no glob diagnostic for it", det(map[string]interface{}{"pattern_index": i}))
			continue
		case !same && c17WfSameCols(got[i], want[i]):
			c.Logf("src:\n%s\n%s: expected %q, observed %q", src, describe, w, g)
			c.Violation("C17:wf-message-not-validator-message-plus-note", describe+": the glob diagnostics stand at the right columns but their text is not the validator's message followed by the fixed note: "+fmt.Sprint(g)+" instead of "+fmt.Sprint(w), det(map[string]interface{}{"pattern_index": i}))
			continue
		case !same:
			c.Logf("src:\n%s\n%s: expected %q, observed %q", src, describe, w, g)
			c.Violation("C17:wf-reports-differ:"+ctx, describe+": glob diagnostics differ from the validator reports mapped onto the scalar", det(map[string]interface{}{"pattern_index": i}))
			continue
		}
		// independent of the validators: the reference model's verdict
		switch v, why := c17Reference([]rune(p.pat), isRef); v {
		case c17Reject:
			st.cnt["wf_reference_reject"]++
			if len(g) == 0 {
				c.Violation("C17:wf-invalid-pattern-not-reported:"+ctx, describe+": violates the documented syntax ("+why+") but carries no glob diagnostic", det(map[string]interface{}{"pattern_index": i}))
				continue
			}
		case c17Accept:
			st.cnt["wf_reference_accept"]++
			if len(g) != 0 {
				c.Violation("C17:wf-valid-pattern-reported:"+ctx, describe+": satisfies the documented syntax but is reported: "+g[0], det(map[string]interface{}{"pattern_index": i}))
				continue
			}
		}
		if len(w) > 0 { // a due report, delivered correctly
			st.add("wf_forms_with_reports", c17WfFormNames[p.form]+"/"+c17StyleNames[p.style])
			st.add("wf_events_with_reports", p.event)
			if p.afterNonWH {
				st.cnt["wf_due_after_non_webhook"]++
				st.add("wf_keys_ok_after_non_webhook", p.key)
			}
			if p.lastEvent {
				st.add("wf_keys_ok_in_last_event", p.key)
			}
			if !p.afterNonWH && !p.lastEvent {
				st.add("wf_keys_ok_elsewhere", p.key)
			}
		}
	}
	if anyDue {
		c.Nontrivial("wf|" + src)
	}
	if c.Idx < 2 && anyDue && c.R.Intn(8) == 0 {
		var gl []string
		for _, d := range ds {
			if d.Kind == "glob" {
				gl = append(gl, d.String())
			}
		}
		c.Sample(map[string]interface{}{"src": src, "glob_diags": gl})
	}
}

func c17WfFamily(r *Run) *Family {
	return &Family{Name: "lint-workflows", N: r.Q(160, 2000), Do: func(c *Case) {
		st := c17NewStats()
		for k := 0; k < 25; k++ {
			c17WfCase(c, st)
		}
		st.flush(c)
	}}
}

func c17WfFloors(r *Run) {
	if v := r.Counter("wf_due_after_non_webhook"); v < 100 {
		r.Inconclusive(fmt.Sprintf("coverage floor: only %d due glob reports in events written after a non-webhook event", v))
	}
	if sk, n := r.Counter("wf_roundtrip_skipped"), r.Counter("wf_workflows"); sk*10 > n {
		r.Inconclusive(fmt.Sprintf("coverage floor: %d generated workflows were re-interpreted by the parser (only %d linted)", sk, n))
	}
	for _, k := range c17FilterKeys {
		if !r.SetHas("wf_keys_named_percent", k) {
			r.Inconclusive("coverage floor: no glob diagnostic naming '%' (correctly, at its column) for " + k + " at rule level")
		}
		if !r.SetHas("wf_keys_ok_after_non_webhook", k) {
			r.Inconclusive("coverage floor: no due and correct glob report for " + k + " in an event written after a non-webhook event")
		}
		if !r.SetHas("wf_keys_ok_in_last_event", k) {
			r.Inconclusive("coverage floor: no due and correct glob report for " + k + " in the last event of on:")
		}
	}
	for _, l := range [][]string{c17WfFilterHooks, c17WfPlainHooks, c17WfNonWebhook} {
		for _, e := range l {
			if !r.SetHas("wf_event_kinds", e) {
				r.Inconclusive("coverage floor: event " + e + " was never generated")
			}
		}
	}
	for _, e := range c17WfFilterHooks {
		if !r.SetHas("wf_events_with_reports", e) {
			r.Inconclusive("coverage floor: no due and correct glob report in an " + e + " event")
		}
	}
	for _, f := range c17WfFormNames {
		for _, s := range c17StyleNames {
			if !r.SetHas("wf_forms_with_reports", f+"/"+s) {
				r.Inconclusive("coverage floor: no due and correct glob report on a " + s + " pattern in " + f + " form")
			}
		}
	}
}
