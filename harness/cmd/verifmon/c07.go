package main

// C07 — diagnostics point at the exact source position.
//
// Three oracles over the real Linter:
//  (a) bounds: every diagnostic that is not a YAML-level syntax error has 1 <= Line <= lines(file)
//      and Column >= 1 — over the repository's test workflows, byte / line mutations of them and
//      everything the generator below produces;
//  (b) absolute position: the generator places one diagnosed construct (expression error, key,
//      value, glob character) at a position it records while writing the text; inside the
//      statement's exactness domain (one line, plain or quoted without escapes, ASCII) the
//      reported line:column must be that position;
//  (c) metamorphic shift: the same case re-emitted with k more columns before the construct on
//      its line (indentation of an enclosing block, blanks after "key:" / "-" / inside flow
//      brackets, longer text or one more placeholder before it in the same scalar) or k more
//      lines above must move every diagnostic of the construct by exactly k.

import (
	"fmt"
	"os"
	"path/filepath"
	"regexp"
	"sort"
	"strings"

	"gopkg.in/yaml.v3"
)

func init() { registry["C07"] = runC07 }

const c07YAMLErrPrefix = "could not parse as YAML"

// c07SplitLines splits the text into lines the way a YAML reader does (LF, CRLF, CR, NEL, LS, PS all
// break a line); a trailing break does not open a further line. This is the most generous
// reading of "number of lines of the file", which keeps the bounds oracle sound.
func c07SplitLines(src string) []string {
	var out []string
	i, start := 0, 0
	for i < len(src) {
		w := 0
		switch {
		case src[i] == '\r':
			w = 1
			if i+1 < len(src) && src[i+1] == '\n' {
				w = 2
			}
		case src[i] == '\n':
			w = 1
		case src[i] == 0xC2 && i+1 < len(src) && src[i+1] == 0x85:
			w = 2
		case src[i] == 0xE2 && i+2 < len(src) && src[i+1] == 0x80 && (src[i+2] == 0xA8 || src[i+2] == 0xA9):
			w = 3
		}
		if w == 0 {
			i++
			continue
		}
		out = append(out, src[start:i])
		i += w
		start = i
	}
	if start < len(src) {
		out = append(out, src[start:])
	}
	return out
}

func c07CountLines(src string) int { return len(c07SplitLines(src)) }

var c07PosInMsg = regexp.MustCompile(`line:\d+,col:\d+`)

func c07NormMsg(m string) string { return c07PosInMsg.ReplaceAllString(m, "line:L,col:C") }

// c07EscapedBreakScalar reports whether the source holds a double-quoted scalar whose value
// contains line breaks written as escape sequences, starting at or before the given line (an
// expression in it - placeholder or bare if: condition - is located by counting the breaks of
// the value, which the source text does not have).
func c07EscapedBreakScalar(src string, line int) bool {
	var doc yaml.Node
	if err := yaml.Unmarshal([]byte(src), &doc); err != nil {
		return false
	}
	lines := c07SplitLines(src)
	found := false
	var walk func(n *yaml.Node)
	walk = func(n *yaml.Node) {
		if n == nil || found {
			return
		}
		if n.Kind == yaml.ScalarNode && n.Style&yaml.DoubleQuotedStyle != 0 && strings.Contains(n.Value, "\n") && n.Line >= 1 && n.Line <= len(lines) && n.Line <= line {
			// escaped breaks: the value has breaks although the source text of the scalar has an
			// escape sequence for a line break on its first line
			l := lines[n.Line-1]
			if n.Column-1 < len(l) {
				l = l[n.Column-1:]
			}
			if strings.Contains(l, `\n`) || strings.Contains(l, `\r`) || strings.Contains(l, `\N`) || strings.Contains(l, `\L`) || strings.Contains(l, `\P`) || strings.Contains(l, `\x0a`) || strings.Contains(l, `\x0A`) || strings.Contains(l, `\u000a`) || strings.Contains(l, `\u000A`) {
				found = true
				return
			}
		}
		for _, c := range n.Content {
			walk(c)
		}
	}
	walk(&doc)
	return found
}

// c07ImplicitNullAt reports whether the YAML reader places an empty implicit null node (the missing
// value of a "? key" entry) at the given position.
func c07ImplicitNullAt(src string, line, col int) bool {
	var doc yaml.Node
	if err := yaml.Unmarshal([]byte(src), &doc); err != nil {
		return false
	}
	found := false
	var walk func(n *yaml.Node)
	walk = func(n *yaml.Node) {
		if n == nil || found {
			return
		}
		if n.Kind == yaml.ScalarNode && n.Tag == "!!null" && n.Value == "" && n.Line == line && n.Column == col {
			found = true
			return
		}
		for _, c := range n.Content {
			walk(c)
		}
	}
	walk(&doc)
	return found
}

// c07Bounds applies oracle (a) to one lint result. origin names the workload for the signature.
func c07Bounds(c *Case, origin, src string, ds []Diag, detail func() map[string]interface{}) bool {
	nl := c07CountLines(src)
	if nl == 0 {
		nl = 1 // an empty file has no line to point at: line 1 is accepted
	}
	ok := true
	for _, d := range ds {
		if strings.HasPrefix(d.Msg, c07YAMLErrPrefix) {
			c.Count("yaml_level_errors_exempted", 1)
			continue
		}
		c.Count("bounds_checked_diagnostics", 1)
		var what, sig string
		switch {
		case d.Line < 1:
			what, sig = "line < 1", "C07:bounds:line-below-1:"+d.Kind
		case d.Col < 1:
			what, sig = "column < 1", "C07:bounds:column-below-1:"+d.Kind
		case d.Line > nl:
			what, sig = fmt.Sprintf("line %d beyond the %d lines of the file", d.Line, nl), "C07:bounds:line-beyond-eof:"+d.Kind
			if d.Kind == "expression" && c07EscapedBreakScalar(src, d.Line) {
				sig = "C07:line-beyond-eof:expr-in-scalar-with-escaped-newlines"
			} else if d.Line == nl+1 && c07ImplicitNullAt(src, d.Line, d.Col) {
				sig = "C07:line-beyond-eof:implicit-null-value-placed-after-last-line"
			}
		default:
			continue
		}
		ok = false
		det := detail()
		det["src"] = src
		det["diagnostic"] = d.String()
		det["lines_of_file"] = nl
		det["workload"] = origin
		c.Violation(sig, fmt.Sprintf("diagnostic out of bounds (%s): %s", what, d.String()), det)
	}
	return ok
}

// ---------------------------------------------------------------------------
// corpus + mutations (bounds only)

func c07Corpus() ([]string, []string) {
	var names, srcs []string
	for _, sub := range []string{"testdata/ok", "testdata/err", "testdata/examples"} {
		dir := filepath.Join(repoDir(), sub)
		var files []string
		filepath.Walk(dir, func(p string, info os.FileInfo, err error) error {
			if err == nil && !info.IsDir() && (strings.HasSuffix(p, ".yaml") || strings.HasSuffix(p, ".yml")) {
				files = append(files, p)
			}
			return nil
		})
		sort.Strings(files)
		for _, f := range files {
			b, err := os.ReadFile(f)
			if err != nil || len(b) > 256*1024 {
				continue
			}
			rel, _ := filepath.Rel(repoDir(), f)
			names = append(names, rel)
			srcs = append(srcs, string(b))
		}
	}
	return names, srcs
}

var c07MutTokens = []string{"${{", "}}", "${{ x. }}", "'", "\"", "\\n", "\\n\\n", ": ", "- ", "#", "[", "]", "{", "}", ",", "|", ">", "&a ", "*a", "!!str ", "\t", "  ", "\n", "\r\n", "\r", "\u0085", " ", "?", "~", "null", "${{ github.", "${{ \\n\\n x. }}", "!!float nan", "!/a", "true }} x", "%", "@", "`", "é", "日本", "\x00", "\\", "\\x0a"}

func c07Mutate(r *Rand, src string) (string, string) {
	if src == "" {
		return "x", "empty"
	}
	lines := strings.SplitAfter(src, "\n")
	switch r.Intn(13) {
	case 0: // byte replacement
		b := []byte(src)
		n := 1 + r.Intn(3)
		for i := 0; i < n; i++ {
			b[r.Intn(len(b))] = byte(r.Intn(256))
		}
		return string(b), "byte-replace"
	case 1: // token insertion
		n := 1 + r.Intn(3)
		for i := 0; i < n; i++ {
			p := r.Intn(len(src) + 1)
			src = src[:p] + c07MutTokens[r.Intn(len(c07MutTokens))] + src[p:]
		}
		return src, "token-insert"
	case 2: // byte deletion
		p := r.Intn(len(src))
		q := p + 1 + r.Intn(4)
		if q > len(src) {
			q = len(src)
		}
		return src[:p] + src[q:], "byte-delete"
	case 3: // line deletion
		i := r.Intn(len(lines))
		return strings.Join(append(append([]string{}, lines[:i]...), lines[i+1:]...), ""), "line-delete"
	case 4: // line duplication
		i := r.Intn(len(lines))
		out := append([]string{}, lines[:i+1]...)
		out = append(out, lines[i])
		out = append(out, lines[i+1:]...)
		return strings.Join(out, ""), "line-duplicate"
	case 5: // line swap
		if len(lines) < 2 {
			return src + src, "double"
		}
		i := r.Intn(len(lines) - 1)
		out := append([]string{}, lines...)
		out[i], out[i+1] = out[i+1], out[i]
		return strings.Join(out, ""), "line-swap"
	case 6: // truncation
		return src[:r.Intn(len(src))], "truncate"
	case 7: // indentation change of one line
		i := r.Intn(len(lines))
		out := append([]string{}, lines...)
		if r.Bool() {
			out[i] = strings.Repeat(" ", 1+r.Intn(4)) + out[i]
		} else {
			out[i] = strings.TrimLeft(out[i], " ")
		}
		return strings.Join(out, ""), "reindent-line"
	case 8: // quote a plain value after "key: " with double quotes and put escaped breaks inside
		i := r.Intn(len(lines))
		for k := 0; k < len(lines); k++ {
			j := (i + k) % len(lines)
			l := strings.TrimRight(lines[j], "\r\n")
			p := strings.Index(l, ": ")
			if p < 0 || strings.ContainsAny(l[p+2:], "\"\\#|>") || strings.TrimSpace(l[p+2:]) == "" {
				continue
			}
			v := l[p+2:]
			if q := strings.Index(v, "${{"); q >= 0 {
				v = v[:q+3] + strings.Repeat("\\n", 1+r.Intn(3)) + v[q+3:]
			} else {
				v = strings.Repeat("\\n", 1+r.Intn(3)) + v
			}
			out := append([]string{}, lines...)
			out[j] = l[:p+2] + "\"" + v + "\"" + lines[j][len(l):]
			return strings.Join(out, ""), "escaped-breaks"
		}
		return src + "\n", "append-newline"
	case 9: // drop the final line break / add blank lines at the end
		if r.Bool() {
			return strings.TrimRight(src, "\n"), "no-final-newline"
		}
		return src + strings.Repeat("\n", 1+r.Intn(3)), "trailing-blank-lines"
	case 10: // break an expression: delete a token inside some placeholder
		var idx []int
		for p := 0; ; {
			q := strings.Index(src[p:], "${{")
			if q < 0 {
				break
			}
			idx = append(idx, p+q)
			p += q + 3
		}
		if len(idx) == 0 {
			return src + "  x: ${{ nope. }}\n", "append-expr"
		}
		p := idx[r.Intn(len(idx))] + 3
		ins := []string{" . ", " nope ", " ( ", " ) ", " ' ", " # ", " 1 2 ", " && ", "\\n", " }} ${{ "}
		return src[:p] + ins[r.Intn(len(ins))] + src[p:], "break-expression"
	case 11: // CRLF line ends
		return strings.ReplaceAll(src, "\n", "\r\n"), "crlf"
	default: // keep only the first / last part of the lines
		i := r.Intn(len(lines))
		if r.Bool() {
			return strings.Join(lines[i:], ""), "drop-head"
		}
		return strings.Join(lines[:i+1], ""), "drop-tail"
	}
}

// ---------------------------------------------------------------------------
// generated cases: oracles (b) and (c)

type c07Obs struct {
	exp  c07Expect
	got  []Diag
	want Pos
}

// c07Match assigns the diagnostics of one rendering to the expectations of the case. It returns
// the diagnostics per expectation, or ok == false when a diagnostic belongs to no expectation or a
// required expectation has no diagnostic (such cases are not compared, only counted).
func c07Match(b *c07Built, ds []Diag) (obs []c07Obs, unmatched []Diag, missing []string) {
	obs = make([]c07Obs, len(b.expects))
	for i, e := range b.expects {
		obs[i].exp = e
		obs[i].want = b.anchorPos(e)
	}
	for _, d := range ds {
		hit := false
		for i, e := range b.expects {
			if c07MsgMatches(d.Msg, e.msg) {
				obs[i].got = append(obs[i].got, d)
				hit = true
				break
			}
		}
		if !hit {
			unmatched = append(unmatched, d)
		}
	}
	for i, e := range b.expects {
		if !e.optional && len(obs[i].got) == 0 {
			missing = append(missing, e.msg)
		}
	}
	return
}

// c07MsgMatches: pattern is a list of alternatives separated by "|OR|"; each is a substring.
func c07MsgMatches(msg, pattern string) bool {
	for _, alt := range strings.Split(pattern, "|OR|") {
		if strings.Contains(msg, alt) {
			return true
		}
	}
	return false
}

func c07Detail(b *c07Built, ds []Diag, extra map[string]interface{}) map[string]interface{} {
	m := map[string]interface{}{
		"src":         b.src,
		"diagnostics": diagStrings(ds),
		"group":       b.group,
		"site":        b.site,
		"kind":        b.kind,
		"mode":        b.mode,
		"style":       b.styleName(),
		"in_flow":     b.inFlow,
		"scalar":      c07ScalarText(b.target),
		"scalar_at":   b.target.pos,
	}
	for k, v := range extra {
		m[k] = v
	}
	return m
}

func c07SiteNames(b *c07Built) string {
	for k := range b.info {
		if strings.HasPrefix(k, "site:") {
			return k[5:]
		}
	}
	return "?"
}

func c07GenCase(c *Case, group string, cat *c07Catalogue, nShifts int) {
	seed := c.R.U64()
	base := c07Build(group, seed, c07Shift{}, cat, 0, 0, false)
	if !base.ok {
		c.Count("gen_not_built", 1)
		c.Logf("not built: %s", base.why)
		if os.Getenv("C07_DEBUG") != "" {
			fmt.Printf("NOTBUILT %s %s\n", group, base.why)
		}
		return
	}
	if !c07YAMLHasScalarAt(base.src, base.target.pos, base.target.val) {
		c.Count("gen_selfcheck_failed", 1)
		c.Logf("self check failed (scalar %q expected at %v):\n%s", base.target.val, base.target.pos, base.src)
		if os.Getenv("C07_DEBUG") != "" {
			fmt.Printf("SELFCHECK %s %q at %v\n%s\n", group, base.target.val, base.target.pos, base.src)
		}
		return
	}
	ds0, err := lintSrc(base.src)
	c.Eval(1)
	if err != nil {
		c.Violation("C07:fatal-error", "linting a generated workflow returned a fatal error: "+err.Error(), map[string]interface{}{"src": base.src})
		return
	}
	c.Logf("---- base (%s / %s / %s / %s, style %s, flow %v)\n%s", group, c07SiteNames(base), base.kind, base.mode, base.styleName(), base.inFlow, base.src)
	c.Logf("diagnostics: %s", strings.Join(diagStrings(ds0), "\n             "))
	if !c07Bounds(c, "generated:"+group, base.src, ds0, func() map[string]interface{} { return c07Detail(base, ds0, nil) }) {
		return
	}
	obs0, unmatched, missing := c07Match(base, ds0)
	siteName := c07SiteNames(base)
	if len(unmatched) > 0 {
		c.Count("skipped_unexpected_extra_diagnostic", 1)
		c.SetAdd("skipped_extra_at_site", siteName+"/"+base.kind)
		c.Logf("skipped: diagnostics outside the expectations: %v", diagStrings(unmatched))
		if os.Getenv("C07_DEBUG") != "" {
			fmt.Printf("EXTRA %s %s %s: %v\n%s\n", group, siteName, base.kind, diagStrings(unmatched), base.src)
		}
		return
	}
	if len(missing) > 0 {
		c.Count("skipped_expected_diagnostic_absent", 1)
		c.SetAdd("skipped_absent_at_site", siteName+"/"+base.kind)
		c.Logf("skipped: expected diagnostics absent: %v", missing)
		if os.Getenv("C07_DEBUG") != "" {
			fmt.Printf("MISSING %s %s %s: %v got %v\n%s\n", group, siteName, base.kind, missing, diagStrings(ds0), base.src)
		}
		return
	}
	// coverage bookkeeping
	c.Count("cases_compared", 1)
	c.Count("cases_"+group, 1)
	c.SetAdd("diagnostic_kinds", base.kind)
	c.SetAdd("sites", siteName)
	c.SetAdd("styles", base.styleName())
	c.SetAdd("placement_classes", fmt.Sprintf("%s|%s|flow=%v", base.mode, base.styleName(), base.inFlow))
	c.SetAdd("kind_x_style", base.kind+"|"+base.styleName())
	c.SetAdd("indentation_of_line", fmt.Sprint(c07LineIndent(base.src, base.target.pos.Line)))
	c.SetAdd("nesting_depth", fmt.Sprint(base.depth))
	for k := range base.info {
		if strings.HasPrefix(k, "sub:") {
			c.SetAdd("sub_node_anchors", k[4:])
		}
		if strings.HasPrefix(k, "pair:") {
			c.SetAdd("pairs_of_rules_in_one_scalar", k[5:]+"|"+base.styleClass())
			c.Count("cases_with_two_constructs_in_one_scalar", 1)
		}
	}
	if base.kind == "runner-label-via-matrix" || base.kind == "action-missing-input" {
		c.SetAdd("indirect_sites", siteName+"|"+base.styleName())
		c.SetAdd("indirect_sites_holder", fmt.Sprintf("%s|flow=%v", siteName, base.inFlow))
		msgClass := "unknown-label"
		if strings.Contains(obs0[0].exp.msg, "conflicts with") {
			msgClass = "conflicting-label"
		} else if strings.Contains(obs0[0].exp.msg, "missing input") {
			msgClass = "missing-input"
		}
		c.SetAdd("indirect_messages", siteName+"|"+msgClass)
	}
	if strings.HasPrefix(siteName, "u.") {
		c.SetAdd("non_ascii_before_sites", siteName)
		c.SetAdd("non_ascii_before", group+"|"+base.styleName())
		c.Count("cases_with_non_ascii_text_before", 1)
	}
	if base.info["lead"] > 0 {
		c.SetAdd("blanks_inside_quotes", fmt.Sprintf("%s|%d", base.mode, base.info["lead"]))
		c.SetAdd("blanks_inside_quotes_modes", base.mode)
	}
	if base.mode == "emb" {
		c.SetAdd("earlier_placeholders", fmt.Sprint(base.info["ph"]))
		c.SetAdd("text_before", fmt.Sprint(base.info["text"]))
	}
	c.Nontrivial(fmt.Sprintf("%s|%s|%s|%s|%v|%v", siteName, base.kind, base.mode, base.styleName(), base.inFlow, base.target.pos))

	// (b) absolute position
	absOK := true
	for _, o := range obs0 {
		for _, d := range o.got {
			if !o.exp.abs {
				c.Count("shift_only_diagnostics", 1)
				continue
			}
			c.Count("absolute_positions_checked", 1)
			if d.Line != o.want.Line || d.Col != o.want.Col {
				absOK = false
				sig := fmt.Sprintf("C07:abs:%s:%s:%s:dl=%+d,dc=%+d", base.group, base.site, base.styleClass(), d.Line-o.want.Line, d.Col-o.want.Col)
				c.Violation(sig,
					fmt.Sprintf("%s diagnostic at a %s %s (%s scalar, site %s) reported at %d:%d but the offending token/key/value is at %d:%d: %s", base.kind, base.mode, base.group, base.styleName(), siteName, d.Line, d.Col, o.want.Line, o.want.Col, d.Msg),
					c07Detail(base, ds0, map[string]interface{}{"expected": o.want, "observed": Pos{d.Line, d.Col}, "message": d.Msg}))
			}
		}
	}
	_ = absOK
	if c.Idx < 3 {
		c.Sample(map[string]interface{}{"group": group, "site": siteName, "kind": base.kind, "style": base.styleName(), "scalar": c07ScalarText(base.target), "expected_at": obs0[0].want, "diagnostics": diagStrings(ds0)})
	}

	// (d) style / holder invariance: the same construct written in the other quoting styles and in
	// the other holder style (block <-> flow)
	for _, st := range []byte{c07Plain, c07Single, c07Double} {
		if st != base.style {
			fm := byte('b')
			if base.inFlow {
				fm = 'f'
			}
			c07Variant(c, base, ds0, obs0, group, seed, cat, st, fm, "style")
		}
	}
	if base.inFlow {
		c07Variant(c, base, ds0, obs0, group, seed, cat, base.style, 'b', "holder")
	} else if base.flowAllowed {
		c07Variant(c, base, ds0, obs0, group, seed, cat, base.style, 'f', "holder")
	}

	// (g) no final line break: when the construct is on the last line of the file, the same file
	// without its final line break must give the same diagnostics at the same positions
	if nl := c07CountLines(base.src); base.target.pos.Line == nl && strings.HasSuffix(base.src, "\n") {
		src2 := strings.TrimSuffix(base.src, "\n")
		ds2, err := lintSrc(src2)
		c.Eval(1)
		if err == nil {
			c07Bounds(c, "generated:"+group+":no-final-line-break", src2, ds2, func() map[string]interface{} { return c07Detail(base, ds2, nil) })
			c.Count("last_line_without_final_break_compared", 1)
			c.SetAdd("last_line_without_final_break", group+"|"+base.styleName())
			a, b := sortedDiagStrings(ds0), sortedDiagStrings(ds2)
			if strings.Join(a, "\n") != strings.Join(b, "\n") {
				c.Violation(fmt.Sprintf("C07:no-final-line-break:%s:%s", base.group, base.site),
					fmt.Sprintf("%s construct on the last line (site %s): removing the final line break of the file changed the diagnostics", base.kind, siteName),
					map[string]interface{}{"src_without_final_break": src2, "with": a, "without": b})
			}
		}
	}

	// (e) no interference: a second diagnosed construct in a neighbouring scalar must not move
	// the report of the first one
	c07Neighbour(c, base, ds0, group, seed, cat)

	// (f) node properties: the same construct written with an anchor and / or an explicit tag
	c07Properties(c, base, ds0, obs0, group, seed, cat)

	// (c) shifts
	kinds := base.shifts
	for s := 0; s < nShifts; s++ {
		sr := c.R.Sub(500 + s)
		sh := c07Shift{kind: kinds[sr.Intn(len(kinds))], sel: sr.Intn(1 << 20)}
		switch sh.kind {
		case "col":
			sh.k = sr.Range(1, 12)
			if sr.Intn(4) == 0 {
				sh.k = sr.Range(13, 40)
			}
		case "lines":
			sh.k = sr.Range(1, 25)
		case "pretext":
			sh.k = sr.Range(1, 40)
		case "placeholder":
			sh.k = sr.Range(6, 40)
		case "innerspace":
			sh.k = sr.Range(1, 6)
			if base.style == c07Plain {
				// blanks at the start of a scalar need quotes: not applicable to a plain rendering
				c.Count("shift_not_applicable", 1)
				continue
			}
		}
		fm := byte('b')
		if base.inFlow {
			fm = 'f'
		}
		sb := c07Build(group, seed, sh, cat, base.style, fm, false)
		if !sb.ok {
			c.Count("shift_not_applicable", 1)
			continue
		}
		// generator consistency: same construct, same style, anchor moved by exactly k
		dl, dc := 0, sh.k
		if sh.kind == "lines" {
			dl, dc = sh.k, 0
		}
		w0, w1 := obs0[0].want, sb.anchorPos(sb.expects[0])
		if sb.style != base.style || sb.inFlow != base.inFlow || len(sb.expects) != len(base.expects) || w1.Line-w0.Line != dl || w1.Col-w0.Col != dc ||
			!c07YAMLHasScalarAt(sb.src, sb.target.pos, sb.target.val) {
			c.Count("gen_shift_inconsistent", 1)
			c.SetAdd("gen_shift_inconsistent_kinds", sh.kind+"/"+base.mode)
			c.Logf("shift %v: generator inconsistent (anchor %v -> %v)\n%s", sh, w0, w1, sb.src)
			if os.Getenv("C07_DEBUG") != "" {
				fmt.Printf("INCONSISTENT %v %v->%v style %c/%c flow %v/%v\n%s\n----\n%s\n", sh, w0, w1, base.style, sb.style, base.inFlow, sb.inFlow, base.src, sb.src)
			}
			continue
		}
		ds1, err := lintSrc(sb.src)
		c.Eval(1)
		if err != nil {
			c.Violation("C07:fatal-error", "linting a generated workflow returned a fatal error: "+err.Error(), map[string]interface{}{"src": sb.src})
			return
		}
		c.Logf("---- shift %s k=%d\n%s", sh.kind, sh.k, sb.src)
		c.Logf("diagnostics: %s", strings.Join(diagStrings(ds1), "\n             "))
		c07Bounds(c, "generated:"+group, sb.src, ds1, func() map[string]interface{} { return c07Detail(sb, ds1, nil) })
		c.Count("shifts_compared", 1)
		c.SetAdd("shift_kinds", sh.kind)
		if sh.kind == "innerspace" {
			c.SetAdd("innerspace_shift_modes", base.mode)
		}
		c.SetAdd("shift_kind_x_group", sh.kind+"|"+group)
		// expected: every diagnostic of the base, moved by the move of its anchor
		type key struct {
			line, col int
			kind, msg string
		}
		want := map[key]int{}
		for i, o := range obs0 {
			a0 := o.want
			a1 := sb.anchorPos(sb.expects[i])
			for _, d := range o.got {
				want[key{d.Line + a1.Line - a0.Line, d.Col + a1.Col - a0.Col, d.Kind, c07NormMsg(d.Msg)}]++
			}
		}
		got := map[key]int{}
		for _, d := range ds1 {
			got[key{d.Line, d.Col, d.Kind, c07NormMsg(d.Msg)}]++
		}
		same := len(want) == len(got)
		for k, n := range want {
			if got[k] != n {
				same = false
			}
		}
		if !same {
			// classify: same messages at other positions, or another set of diagnostics
			m0, m1 := map[string]int{}, map[string]int{}
			for k, n := range want {
				m0[k.kind+"|"+k.msg] += n
			}
			for k, n := range got {
				m1[k.kind+"|"+k.msg] += n
			}
			sameMsgs := len(m0) == len(m1)
			for k, n := range m0 {
				if m1[k] != n {
					sameMsgs = false
				}
			}
			if !sameMsgs && (base.mode == "emb" && (sh.kind == "pretext" || sh.kind == "placeholder") || sh.kind == "innerspace") && c07OnlyScalarEchoDiffers(m0, m1) {
				// some messages quote the whole scalar, which a content shift changes by design
				c.Count("shift_message_echoes_scalar", 1)
				continue
			}
			cls := "position"
			if !sameMsgs {
				cls = "diagnostic-set"
			}
			sig := fmt.Sprintf("C07:shift:%s:%s:%s:%s:%s", sh.kind, base.group, base.site, base.styleClass(), cls)
			var ws []string
			for k, n := range want {
				ws = append(ws, fmt.Sprintf("%dx %d:%d: %s [%s]", n, k.line, k.col, k.msg, k.kind))
			}
			sort.Strings(ws)
			c.Violation(sig,
				fmt.Sprintf("inserting %d %s before a %s construct (%s, %s scalar, site %s) did not move its diagnostics by exactly %d", sh.k, map[bool]string{true: "lines above", false: "columns"}[sh.kind == "lines"], base.kind, sh.kind, base.styleName(), siteName, sh.k),
				map[string]interface{}{"base": c07Detail(base, ds0, nil), "shifted": c07Detail(sb, ds1, nil), "shift": map[string]interface{}{"kind": sh.kind, "k": sh.k}, "expected_after_shift": ws})
		}
	}
}

// c07Variant renders the same case in another quoting style or holder style and requires, for every
// diagnostic of the construct, the same offset from the construct's recorded position as in the
// base rendering (no convention needed); expectations with an absolute position get the absolute
// oracle again.
func c07Variant(c *Case, base *c07Built, ds0 []Diag, obs0 []c07Obs, group string, seed uint64, cat *c07Catalogue, style, flowMode byte, label string) {
	vb := c07Build(group, seed, c07Shift{}, cat, style, flowMode, false)
	if !vb.ok {
		c.Count("variant_not_applicable_"+label, 1)
		return
	}
	if label == "holder" && vb.inFlow == base.inFlow {
		c.Count("variant_not_applicable_"+label, 1)
		return
	}
	if label == "style" && vb.inFlow != base.inFlow {
		c.Count("variant_not_applicable_"+label, 1)
		return
	}
	if len(vb.expects) != len(base.expects) || vb.target.val != base.target.val || !c07YAMLHasScalarAt(vb.src, vb.target.pos, vb.target.val) {
		c.Count("gen_variant_inconsistent", 1)
		c.Logf("variant %s: generator inconsistent\n%s", label, vb.src)
		if os.Getenv("C07_DEBUG") != "" {
			fmt.Printf("VARIANT-INCONSISTENT %s %q vs %q\n%s\n", label, base.target.val, vb.target.val, vb.src)
		}
		return
	}
	ds1, err := lintSrc(vb.src)
	c.Eval(1)
	if err != nil {
		c.Violation("C07:fatal-error", "linting a generated workflow returned a fatal error: "+err.Error(), map[string]interface{}{"src": vb.src})
		return
	}
	c.Logf("---- %s variant (style %s, flow %v)\n%s", label, vb.styleName(), vb.inFlow, vb.src)
	c.Logf("diagnostics: %s", strings.Join(diagStrings(ds1), "\n             "))
	c07Bounds(c, "generated:"+group, vb.src, ds1, func() map[string]interface{} { return c07Detail(vb, ds1, nil) })
	obs1, unmatched, missing := c07Match(vb, ds1)
	if len(unmatched) > 0 || len(missing) > 0 {
		c.Count("variant_skipped_other_diagnostics", 1)
		c.SetAdd("variant_skipped_at", c07SiteNames(base)+"/"+base.kind+"/"+label)
		if os.Getenv("C07_DEBUG") != "" {
			fmt.Printf("VARIANT-SKIP %s %s %s: extra %v missing %v\n%s\n", label, c07SiteNames(base), base.kind, diagStrings(unmatched), missing, vb.src)
		}
		return
	}
	c.Count("variants_compared_"+label, 1)
	c.SetAdd("variant_kind", label+"|"+base.kind)
	c.SetAdd("variant_pairs", label+"|"+base.styleName()+">"+vb.styleName()+fmt.Sprintf("|flow=%v>%v", base.inFlow, vb.inFlow))
	siteName := c07SiteNames(base)
	for i := range obs1 {
		o0, o1 := obs0[i], obs1[i]
		if o1.exp.abs {
			for _, d := range o1.got {
				c.Count("absolute_positions_checked", 1)
				if d.Line != o1.want.Line || d.Col != o1.want.Col {
					sig := fmt.Sprintf("C07:abs:%s:%s:%s:dl=%+d,dc=%+d", vb.group, vb.site, vb.styleClass(), d.Line-o1.want.Line, d.Col-o1.want.Col)
					c.Violation(sig,
						fmt.Sprintf("%s diagnostic at a %s %s (%s scalar, flow holder %v, site %s) reported at %d:%d but the offending token/key/value is at %d:%d: %s", vb.kind, vb.mode, vb.group, vb.styleName(), vb.inFlow, siteName, d.Line, d.Col, o1.want.Line, o1.want.Col, d.Msg),
						c07Detail(vb, ds1, map[string]interface{}{"expected": o1.want, "observed": Pos{d.Line, d.Col}, "message": d.Msg}))
				}
			}
			continue
		}
		// no convention: offsets from the recorded position must agree between the renderings
		off := func(o c07Obs) []string {
			var out []string
			for _, d := range o.got {
				out = append(out, fmt.Sprintf("%+d,%+d", d.Line-o.want.Line, d.Col-o.want.Col))
			}
			sort.Strings(out)
			return out
		}
		a, b := off(o0), off(o1)
		if len(a) == 0 && len(b) == 0 {
			continue
		}
		c.Count("offset_invariance_checked", 1)
		c.SetAdd("offset_invariance_classes", label+"|"+base.kind+"|"+base.mode)
		if strings.Join(a, " ") != strings.Join(b, " ") {
			from, to := base.styleClass(), vb.styleClass()
			if label == "holder" {
				from, to = map[bool]string{true: "flow", false: "block"}[base.inFlow], map[bool]string{true: "flow", false: "block"}[vb.inFlow]
			}
			sig := fmt.Sprintf("C07:invariance:%s:%s:%s:%s:%s-vs-%s", label, base.group, base.site, base.kind, from, to)
			if label == "style" && from != to && len(a) == 1 && len(b) == 1 {
				// plain against quoted: the plain rendering is the reference, the witness class is
				// the one of the absolute oracle ("in a quoted scalar the report is off by ...")
				pl, qu := o0.got[0], o1.got[0]
				plw, quw := o0.want, o1.want
				if from == "quoted" {
					pl, qu, plw, quw = qu, pl, quw, plw
				}
				sig = fmt.Sprintf("C07:abs:%s:%s:quoted:dl=%+d,dc=%+d", base.group, base.site, (qu.Line-quw.Line)-(pl.Line-plw.Line), (qu.Col-quw.Col)-(pl.Col-plw.Col))
			}
			c.Violation(sig,
				fmt.Sprintf("%s diagnostic (site %s): offset of the report from the construct is %v in a %s scalar (flow %v) but %v in a %s scalar (flow %v): %s", base.kind, siteName, a, base.styleName(), base.inFlow, b, vb.styleName(), vb.inFlow, o1.exp.msg),
				map[string]interface{}{"base": c07Detail(base, ds0, nil), "variant": c07Detail(vb, ds1, nil), "offsets_base": a, "offsets_variant": b})
		}
	}
}

// c07Properties re-emits the case with node properties (&anchor, !!tag, both in either order, 1-3
// blanks after each) before the scalar that carries the construct - value or key. The properties
// are not part of the scalar text: every diagnostic must keep its offset from the construct's
// recorded position (checked against the base rendering, so no convention is needed and other
// open defects do not interfere), and k more blanks between the properties and the text must
// move the report by exactly k. A report that is displaced by exactly the width of the properties
// (= counted from the anchor / tag, where the YAML library places such a node) gets the narrow
// signature C07:abs:<group>:anchored|tagged|anchored+tagged.
func c07Properties(c *Case, base *c07Built, ds0 []Diag, obs0 []c07Obs, group string, seed uint64, cat *c07Catalogue) {
	if base.kind == "schedule-item" {
		return // reported at the sequence element, whose first character IS the property of its first key
	}
	r := c.R.Sub(900)
	anchor := r.Pick([]string{"a", "anc", "anchor_1", "x-y_z"})
	tag := "!!str"
	if base.allowedStyles == "p" {
		tag = "" // the plain form is required because the value is a number: a !!str tag would change the case
	}
	b1, b2 := c07Spaces(r.Range(1, 3)), c07Spaces(r.Range(1, 3))
	var prop, class string
	choice := r.Intn(6)
	if tag == "" && choice != 0 {
		choice = 0
	}
	switch choice {
	case 5:
		// the non-specific tag "!" (forces the string type); the library does not mark it as a tag
		prop, class, anchor, tag = "!"+b1, "nonspecific-tag", "", ""
	case 0, 1:
		prop, class = "&"+anchor+b1, "anchored"
	case 2:
		prop, class, anchor = tag+b1, "tagged", ""
	case 3:
		prop, class = "&"+anchor+b1+tag+b2, "anchored+tagged"
	default:
		prop, class = tag+b1+"&"+anchor+b2, "anchored+tagged"
	}
	tagged := strings.Contains(prop, "!!")
	fm := byte('b')
	if base.inFlow {
		fm = 'f'
	}
	build := func(pr string) (*c07Built, []Diag, []c07Obs, bool) {
		vb := c07Build(group, seed, c07Shift{}, cat, base.style, fm, false, pr)
		if !vb.ok || vb.inFlow != base.inFlow || vb.target.val != base.target.val || len(vb.expects) != len(base.expects) {
			c.Count("property_variant_not_applicable", 1)
			return nil, nil, nil, false
		}
		if vb.target.pos.Line != base.target.pos.Line || vb.target.pos.Col != base.target.pos.Col+len(pr) || !c07YAMLHasPropScalarAt(vb.src, vb.target.propPos, vb.target.val, anchor, tagged) {
			c.Count("gen_property_variant_inconsistent", 1)
			c.SetAdd("gen_property_variant_inconsistent_at", c07SiteNames(base)+"|"+class)
			if os.Getenv("C07_DEBUG") != "" {
				fmt.Printf("PROP-INCONSISTENT %s %q\n%s\n", class, pr, vb.src)
			}
			return nil, nil, nil, false
		}
		ds, err := lintSrc(vb.src)
		c.Eval(1)
		if err != nil {
			c.Violation("C07:fatal-error", "linting a generated workflow returned a fatal error: "+err.Error(), map[string]interface{}{"src": vb.src})
			return nil, nil, nil, false
		}
		c.Logf("---- property variant %q\n%s", pr, vb.src)
		c.Logf("diagnostics: %s", strings.Join(diagStrings(ds), "\n             "))
		c07Bounds(c, "generated:"+group, vb.src, ds, func() map[string]interface{} { return c07Detail(vb, ds, nil) })
		obs, unmatched, missing := c07Match(vb, ds)
		if len(unmatched) > 0 || len(missing) > 0 {
			c.Count("property_variant_skipped_other_diagnostics", 1)
			c.SetAdd("property_variant_skipped_at", c07SiteNames(base)+"/"+base.kind+"/"+class)
			if os.Getenv("C07_DEBUG") != "" {
				fmt.Printf("PROP-SKIP %s %s %s: extra %v missing %v\n%s\n", class, c07SiteNames(base), base.kind, diagStrings(unmatched), missing, vb.src)
			}
			return nil, nil, nil, false
		}
		return vb, ds, obs, true
	}
	offs := func(o c07Obs) [][2]int {
		var out [][2]int
		for _, d := range o.got {
			out = append(out, [2]int{d.Line - o.want.Line, d.Col - o.want.Col})
		}
		sort.Slice(out, func(i, j int) bool {
			if out[i][0] != out[j][0] {
				return out[i][0] < out[j][0]
			}
			return out[i][1] < out[j][1]
		})
		return out
	}
	report := func(vb *c07Built, ds []Diag, what string, dl, dc, width int, extra map[string]interface{}) {
		sig := fmt.Sprintf("C07:abs:%s:%s", base.group, class)
		if !(dl == 0 && dc == -width) {
			sig = fmt.Sprintf("C07:properties:%s:%s:%s:dl=%+d,dc=%+d", base.group, base.site, class, dl, dc)
		}
		det := map[string]interface{}{"base": c07Detail(base, ds0, nil), "with_properties": c07Detail(vb, ds, nil), "properties": vb.target.prop, "scalar_text_at": vb.target.pos, "properties_at": vb.target.propPos}
		for k, v := range extra {
			det[k] = v
		}
		c.Violation(sig, what, det)
	}
	v1, ds1, obs1, ok := build(prop)
	if !ok {
		return
	}
	c.Count("property_variants_compared", 1)
	c.SetAdd("property_classes", group+"|"+class+"|"+base.styleName())
	c.SetAdd("property_kind_x_class", base.kind+"|"+class)
	if strings.HasPrefix(c07SiteNames(base), "u.") {
		c.SetAdd("non_ascii_before_with_properties", group+"|"+class)
		c.Count("non_ascii_before_property_variants", 1)
	}
	if base.isKey {
		c.SetAdd("property_on_keys", class)
	}
	siteName := c07SiteNames(base)
	good := true
	for i := range obs1 {
		a, b := offs(obs0[i]), offs(obs1[i])
		if len(a) != len(b) {
			c.Count("property_variant_diag_count_differs", 1)
			good = false
			continue
		}
		for j := range a {
			c.Count("property_offsets_checked", 1)
			if a[j] != b[j] {
				good = false
				dl, dc := b[j][0]-a[j][0], b[j][1]-a[j][1]
				report(v1, ds1, fmt.Sprintf("%s diagnostic (site %s, %s scalar): with the node properties %q before the scalar the report is displaced by %+d lines %+d columns from where it is without them (properties are %d characters wide; the scalar text starts at %d:%d): %s",
					base.kind, siteName, base.styleName(), prop, dl, dc, len(prop), v1.target.pos.Line, v1.target.pos.Col, obs1[i].exp.msg), dl, dc, len(prop), nil)
			}
		}
	}
	// the same rendering as the last line of a file without final line break
	if c07CountLines(v1.src) == v1.target.pos.Line && strings.HasSuffix(v1.src, "\n") {
		src2 := strings.TrimSuffix(v1.src, "\n")
		if dsn, err := lintSrc(src2); err == nil {
			c.Eval(1)
			c.Count("last_line_without_final_break_with_properties", 1)
			a, b := sortedDiagStrings(ds1), sortedDiagStrings(dsn)
			if strings.Join(a, "\n") != strings.Join(b, "\n") {
				c.Violation(fmt.Sprintf("C07:no-final-line-break:%s:%s", base.group, class),
					fmt.Sprintf("%s construct with node properties %q on the last line (site %s): removing the final line break of the file changed the diagnostics", base.kind, prop, siteName),
					map[string]interface{}{"src_without_final_break": src2, "with": a, "without": b})
			}
		}
	}
	// shift: k more blanks between the properties and the scalar text
	k := r.Range(1, 5)
	v2, ds2, obs2, ok := build(prop + c07Spaces(k))
	if !ok {
		return
	}
	c.Count("property_blank_shifts_compared", 1)
	for i := range obs2 {
		if len(obs1[i].got) != len(obs2[i].got) {
			continue
		}
		// positions (not offsets): the text moved k columns to the right
		p1, p2 := obs1[i].got, obs2[i].got
		sort.Slice(p1, func(x, y int) bool { return p1[x].Col < p1[y].Col })
		sort.Slice(p2, func(x, y int) bool { return p2[x].Col < p2[y].Col })
		for j := range p1 {
			moved := p2[j].Col - p1[j].Col
			if p2[j].Line != p1[j].Line || moved != k {
				if !good && moved == 0 {
					continue // already reported above: the position is counted from the properties
				}
				if moved == 0 && p2[j].Line == p1[j].Line {
					report(v2, ds2, fmt.Sprintf("%s diagnostic (site %s): %d more blanks between the node properties %q and the scalar text did not move the report (%d:%d)", base.kind, siteName, k, prop, p2[j].Line, p2[j].Col), 0, -len(prop)-k, len(prop)+k, map[string]interface{}{"k": k})
				} else {
					c.Violation(fmt.Sprintf("C07:shift:property-blanks:%s:%s:%s", base.group, base.site, class),
						fmt.Sprintf("%s diagnostic (site %s): %d more blanks between the node properties and the scalar text moved the report by %d columns", base.kind, siteName, k, moved),
						map[string]interface{}{"first": c07Detail(v1, ds1, nil), "second": c07Detail(v2, ds2, nil), "k": k})
				}
			}
		}
	}
}

// c07Neighbour re-lints the base case with one more erroneous construct added after the target in
// the same holder. Every diagnostic of the base must still be reported at the same position; a
// diagnostic whose message disappeared is not compared (the added entry may legitimately change
// what is checked), one whose message is still there but elsewhere is a violation.
func c07Neighbour(c *Case, base *c07Built, ds0 []Diag, group string, seed uint64, cat *c07Catalogue) {
	fm := byte('b')
	if base.inFlow {
		fm = 'f'
	}
	nb := c07Build(group, seed, c07Shift{}, cat, base.style, fm, true)
	if !nb.ok || nb.inFlow != base.inFlow || nb.target.val != base.target.val || len(nb.expects) != len(base.expects) {
		c.Count("neighbour_not_applicable", 1)
		return
	}
	if a, b := base.anchorPos(base.expects[0]), nb.anchorPos(nb.expects[0]); a != b || !c07YAMLHasScalarAt(nb.src, nb.target.pos, nb.target.val) {
		c.Count("neighbour_not_applicable", 1) // the added entry changed the layout (it never should)
		c.SetAdd("neighbour_moved_layout", c07SiteNames(base))
		return
	}
	ds1, err := lintSrc(nb.src)
	c.Eval(1)
	if err != nil {
		c.Violation("C07:fatal-error", "linting a generated workflow returned a fatal error: "+err.Error(), map[string]interface{}{"src": nb.src})
		return
	}
	c.Logf("---- neighbour variant\n%s", nb.src)
	c.Logf("diagnostics: %s", strings.Join(diagStrings(ds1), "\n             "))
	c07Bounds(c, "generated:"+group, nb.src, ds1, func() map[string]interface{} { return c07Detail(nb, ds1, nil) })
	if len(ds1) > len(ds0) {
		c.Count("neighbour_added_diagnostics", 1)
	}
	c.Count("neighbours_compared", 1)
	for _, d := range ds0 {
		m := c07NormMsg(d.Msg)
		same, elsewhere := false, false
		var other Diag
		for _, e := range ds1 {
			if c07NormMsg(e.Msg) != m || e.Kind != d.Kind {
				continue
			}
			if e.Line == d.Line && e.Col == d.Col {
				same = true
			} else {
				elsewhere, other = true, e
			}
		}
		switch {
		case same:
			c.Count("neighbour_positions_confirmed", 1)
		case elsewhere:
			sig := fmt.Sprintf("C07:interference:neighbour:%s:%s:%s:dl=%+d,dc=%+d", base.group, base.site, base.styleClass(), other.Line-d.Line, other.Col-d.Col)
			c.Violation(sig,
				fmt.Sprintf("adding an independent diagnosed construct after a %s construct (site %s, %s scalar) in the same holder moved its report from %d:%d to %d:%d: %s", base.kind, c07SiteNames(base), base.styleName(), d.Line, d.Col, other.Line, other.Col, d.Msg),
				map[string]interface{}{"base": c07Detail(base, ds0, nil), "with_neighbour": c07Detail(nb, ds1, nil)})
		default:
			c.Count("neighbour_diagnostic_gone", 1)
		}
	}
}

// c07OnlyScalarEchoDiffers: the message multisets differ, but not in number — used only to set
// aside messages that echo the scalar text, which content shifts change.
func c07OnlyScalarEchoDiffers(m0, m1 map[string]int) bool {
	n0, n1 := 0, 0
	for _, n := range m0 {
		n0 += n
	}
	for _, n := range m1 {
		n1 += n
	}
	if n0 != n1 {
		return false
	}
	// every message of one side has a partner on the other side with the same text up to the
	// first double quote (messages echo values as %q)
	head := func(s string) string {
		if i := strings.Index(s, "\""); i >= 0 {
			return s[:i]
		}
		return s
	}
	h0, h1 := map[string]int{}, map[string]int{}
	for k, n := range m0 {
		h0[head(k)] += n
	}
	for k, n := range m1 {
		h1[head(k)] += n
	}
	if len(h0) != len(h1) {
		return false
	}
	for k, n := range h0 {
		if h1[k] != n {
			return false
		}
	}
	return true
}

func c07LineIndent(src string, line int) int {
	ls := strings.Split(src, "\n")
	if line < 1 || line > len(ls) {
		return -1
	}
	l := ls[line-1]
	return len(l) - len(strings.TrimLeft(l, " "))
}

// ---------------------------------------------------------------------------
// escaped line breaks inside a placeholder (outside the exactness domain, inside the bounds
// sentence)

func c07EscapedBreakCase(c *Case) {
	r := c.R
	b := NewYB()
	b.L(0, "on: push")
	b.L(0, "jobs:")
	b.L(2, "build:")
	b.L(4, "runs-on: ubuntu-latest")
	b.L(4, "steps:")
	b.L(6, "- run: echo")
	if r.Bool() {
		b.L(8, "name: first")
	}
	nb := 1 + r.Intn(4)
	esc := r.Pick([]string{`\n`, `\n`, `\r\n`, `\x0a`, `\N`})
	bad := r.Pick([]string{"nope", "github.", "1 +", "github.nope", "'abc"})
	before := strings.Repeat(esc, r.Intn(3))
	inside := strings.Repeat(esc, nb)
	bare := r.Intn(4) == 0
	if bare {
		b.Lf(8, `if: "%s%s%s"`, before, inside, bad) // bare condition
	}
	b.L(8, "env:")
	if bare {
		b.L(10, "MARK: x")
	} else {
		b.Lf(10, `MARK: "%s${{ %s%s }}"`, before, inside, bad)
	}
	tail := r.Intn(3) // lines after the scalar
	for i := 0; i < tail; i++ {
		b.Lf(10, "V%d: x", i)
	}
	src := b.String()
	ds, err := lintSrc(src)
	c.Eval(1)
	if err != nil {
		c.Violation("C07:fatal-error", "fatal error: "+err.Error(), map[string]interface{}{"src": src})
		return
	}
	c.Logf("%s\ndiagnostics: %v", src, diagStrings(ds))
	if len(ds) > 0 {
		c.Nontrivial("esc|" + src)
		c.Count("escaped_break_cases_with_diagnostic", 1)
	}
	c07Bounds(c, "escaped-line-breaks", src, ds, func() map[string]interface{} { return map[string]interface{}{} })
}

// c07ExplicitKeyCase: a "? key" entry without value at the end of the file; the YAML reader places
// the implicit null value at the next token, which is the end of the stream.
func c07ExplicitKeyCase(c *Case) {
	r := c.R
	b := NewYB()
	b.L(0, "on: push")
	b.L(0, "jobs:")
	b.L(2, "build:")
	b.L(4, "runs-on: ubuntu-latest")
	b.L(4, "steps:")
	b.L(6, "- run: echo")
	switch r.Intn(3) {
	case 0:
		b.L(2, "? "+r.Pick([]string{"second", "deploy", "x1"}))
	case 1:
		b.L(8, "env:")
		b.L(10, "A: x")
		b.L(8, "? with")
	default:
		b.L(4, "? "+r.Pick([]string{"env", "outputs", "container"}))
	}
	src := b.String()
	if r.Bool() {
		src = strings.TrimRight(src, "\n")
	}
	ds, err := lintSrc(src)
	c.Eval(1)
	if err != nil {
		c.Violation("C07:fatal-error", "fatal error: "+err.Error(), map[string]interface{}{"src": src})
		return
	}
	c.Logf("%s\ndiagnostics: %v", src, diagStrings(ds))
	if len(ds) > 0 {
		c.Nontrivial("explicit-key|" + src)
	}
	c07Bounds(c, "explicit-key-without-value", src, ds, func() map[string]interface{} { return map[string]interface{}{} })
}

// c07BOMCase: a file that starts with a UTF-8 byte order mark; the construct (an unknown event in
// a flow sequence, with or without node properties) is on line 1. The mark is not a character of
// the line.
func c07BOMCase(c *Case) {
	r := c.R
	ev := r.Pick([]string{"pushx", "bogus", "pull-request"})
	style := r.Intn(3)
	text := []string{ev, "'" + ev + "'", "\"" + ev + "\""}[style]
	prop, class := "", "none"
	switch r.Intn(5) {
	case 1:
		prop, class = "&a"+c07Spaces(r.Range(1, 3)), "anchored"
	case 2:
		prop, class = "!!str"+c07Spaces(r.Range(1, 3)), "tagged"
	case 3:
		prop, class = "&ev !!str ", "anchored+tagged"
	case 4:
		prop, class = "! ", "nonspecific-tag"
	}
	head := "on: [" + c07Spaces(r.Intn(3))
	if r.Bool() {
		head += "push, "
	}
	line1 := head + prop + text + "]"
	wantCol := len(head) + len(prop) + 1
	src := "\ufeff" + line1 + "\njobs:\n  build:\n    runs-on: ubuntu-latest\n    steps:\n      - run: echo\n"
	ds, err := lintSrc(src)
	c.Eval(1)
	if err != nil {
		c.Violation("C07:fatal-error", "fatal error: "+err.Error(), map[string]interface{}{"src": src})
		return
	}
	c.Logf("%q\ndiagnostics: %v", src, diagStrings(ds))
	c07Bounds(c, "bom-line1", src, ds, func() map[string]interface{} { return map[string]interface{}{} })
	var got *Diag
	for i := range ds {
		if strings.Contains(ds[i].Msg, "unknown Webhook event \""+ev+"\"") {
			got = &ds[i]
		}
	}
	if got == nil || len(ds) != 1 {
		c.Count("bom_cases_skipped", 1)
		return
	}
	c.Nontrivial("bom|" + line1)
	c.SetAdd("bom_classes", class+"|"+[]string{"plain", "single", "double"}[style])
	if got.Line != 1 || got.Col != wantCol {
		sig := "C07:abs:bom-line1:" + class
		if class == "none" || got.Col-wantCol != -len(prop) {
			sig = fmt.Sprintf("C07:abs:bom-line1:%s:dl=%+d,dc=%+d", class, got.Line-1, got.Col-wantCol)
		}
		c.Violation(sig, fmt.Sprintf("file starting with a byte order mark: unknown event reported at %d:%d but the value is at 1:%d (properties %q): %s", got.Line, got.Col, wantCol, prop, got.Msg),
			map[string]interface{}{"src": src, "diagnostics": diagStrings(ds), "expected": Pos{1, wantCol}})
	}
}

// ---------------------------------------------------------------------------

func runC07(r *Run) {
	r.Rule = "generated workflows (clean base + exactly one diagnosed construct written by a position-recording emitter): groups expr (lexer / parser / semantic / availability / untrusted-input / template errors at ~50 placeholder positions, embedded in text, whole-value, or bare if: condition), key (unexpected / duplicate / otherwise diagnosed keys), value (shell name, runner label, permission, event type, id, cron, action spec, typed literals ...), glob (offending character inside a filter pattern); layout drawn per case: indentation of every enclosing block, blanks after key:/-/brackets, block or flow holder, plain / single / double quoted, comment and blank lines, 0-3 earlier placeholders and 0-40 characters of text before the construct; sites pair.* hold a second construct diagnosed by another rule (glob, events, credentials, deprecated-commands, if-cond) in the same scalar, each with its own anchor; each case is linted as is (bounds + absolute position), re-linted with a further erroneous entry after it in the same holder (no interference), re-emitted with node properties (&anchor / !!str / both) before the scalar and again with k more blanks after them, re-emitted in the other quoting styles and the other holder style (style / holder invariance + absolute position again) and re-emitted with 3 shifts (columns via indentation / padding / longer text / extra placeholder, or lines above). Plus the bounds oracle over every workflow under testdata/{ok,err,examples} and 13 kinds of byte / line mutations of them. Non-trivial = distinct (site, kind, mode, style, flow, position) of a generated case whose expected diagnostic was produced, or a distinct mutated corpus file that produced a non-YAML-level diagnostic."
	r.Assume("the exactness oracle is applied only to constructs written on one line in a plain, single- or double-quoted scalar without escape sequences, in ASCII")
	r.Assume("'offending token' for a lexer error is the unexpected character, for a parser error the unexpected token (the end marker }} for unexpected end of input), for a semantic error the first token of the offending sub-expression (errorAtExpr convention named in the property's anchors); for key diagnostics the key, for value diagnostics the first character of the scalar including its quote, for glob diagnostics the character named in the message")
	r.Assume("diagnostics reported at the end of input of a bare if: condition and at an unterminated string literal have no absolute convention in the statement: they are subject to the shift relation and to style / holder invariance (same offset from the construct in plain, single- and double-quoted scalars and in block / flow holders; a plain-vs-quoted difference is reported under the absolute oracle's signature with the plain rendering as reference)")
	r.Assume("the diagnostic about an object / array / null evaluated in a template is about the placeholder and must be at its first character (the $ of ${{), the convention observed on plain scalars")
	r.Assume("no-interference oracle: a further erroneous entry appended after the construct in the same holder must leave every diagnostic of the base at its position; a diagnostic whose message disappears is not compared (the added entry may change what is checked)")
	r.Assume("blanks between the quotes and the text (0-6) are part of the layout of every expression site except if: placeholders (there they are diagnosed themselves as extra characters) and the two-rule sites")
	r.Assume("node properties (&anchor, !!str, both in either order, 1-3 blanks after each) are not part of the scalar text: a diagnostic must keep its offset from the construct whether or not the scalar (value or key) carries them, and blanks between them and the text shift the report; aliases carry no position claim and are not generated; a number-typed plain value only gets an anchor (a !!str tag would change its kind); the diagnostic about a schedule element is reported at the element, which starts at the properties of its first key, and is not compared")
	r.Assume("columns are counted in characters: sites u.* put 2-, 3- and 4-byte characters into EARLIER keys / flow siblings on the line of the construct; the diagnosed scalar itself stays ASCII")
	r.Assume("a UTF-8 byte order mark at the start of the file is not a character of line 1")
	r.Assume("an operand written with consecutive ! operators (!!x, ! !x, !  ! !x) is one sub-expression whose first character is the first !: a diagnostic about the operand (argument type, comparison, index, receiver) is anchored there, one about the inner expression after the last !")
	r.Assume("positions embedded in message texts (previously defined at line:L,col:C) are not compared")
	r.Assume("a generated case that yields a diagnostic outside its expectation list, or lacks the expected one, is counted and skipped (floor: < 3% of the cases)")
	r.Assume("lines are counted like the YAML reader does (LF, CRLF, CR, NEL, LS, PS)")

	cat := c07NewCatalogue()
	names, srcs := c07Corpus()
	var fams []*Family

	// (a) corpus and mutations
	mutPer := r.Q(24, 400)
	fams = append(fams, &Family{Name: "corpus-bounds", N: len(srcs), Do: func(c *Case) {
		src := srcs[c.Idx]
		ds, err := lintSrc(src)
		c.Eval(1)
		if err == nil {
			nd := 0
			for _, d := range ds {
				if !strings.HasPrefix(d.Msg, c07YAMLErrPrefix) {
					nd++
				}
			}
			if nd > 0 {
				c.Count("corpus_files_with_diagnostics", 1)
				c.Nontrivial("corpus|" + names[c.Idx])
			}
			c07Bounds(c, "corpus:"+names[c.Idx], src, ds, func() map[string]interface{} { return map[string]interface{}{"file": names[c.Idx]} })
		}
		for m := 0; m < mutPer; m++ {
			mr := c.R.Sub(m)
			ms, how := c07Mutate(mr, src)
			for extra := mr.Intn(3); extra > 0; extra-- {
				var h string
				ms, h = c07Mutate(mr, ms)
				how += "+" + h
			}
			ds, err := lintSrc(ms)
			c.Eval(1)
			if err != nil {
				continue
			}
			nd := 0
			for _, d := range ds {
				if !strings.HasPrefix(d.Msg, c07YAMLErrPrefix) {
					nd++
				}
			}
			if nd > 0 {
				c.Count("mutants_with_diagnostics", 1)
				if m < 4 {
					c.Nontrivial(fmt.Sprintf("mut|%s|%d", names[c.Idx], m))
				}
			} else {
				c.Count("mutants_without_checked_diagnostic", 1)
			}
			c.SetAdd("mutation_kinds", strings.SplitN(how, "+", 2)[0])
			c07Bounds(c, "mutated:"+names[c.Idx], ms, ds, func() map[string]interface{} {
				return map[string]interface{}{"file": names[c.Idx], "mutation": how, "mutation_index": m}
			})
		}
	}})
	fams = append(fams, &Family{Name: "escaped-line-breaks", N: r.Q(60, 2000), Do: c07EscapedBreakCase})
	fams = append(fams, &Family{Name: "explicit-key-at-eof", N: r.Q(30, 300), Do: c07ExplicitKeyCase})
	fams = append(fams, &Family{Name: "bom-line1", N: r.Q(150, 1500), Do: c07BOMCase})

	// (b) + (c)
	const nShifts = 3
	fams = append(fams,
		&Family{Name: "gen-expr", N: r.Q(3200, 120000), Do: func(c *Case) { c07GenCase(c, "expr", cat, nShifts) }},
		&Family{Name: "gen-key", N: r.Q(800, 30000), Do: func(c *Case) { c07GenCase(c, "key", cat, nShifts) }},
		&Family{Name: "gen-value", N: r.Q(1000, 35000), Do: func(c *Case) { c07GenCase(c, "value", cat, nShifts) }},
		&Family{Name: "gen-glob", N: r.Q(600, 25000), Do: func(c *Case) { c07GenCase(c, "glob", cat, nShifts) }},
	)
	r.RunFamilies(fams)
	if r.ReplayOf != nil || os.Getenv("VERIF_ONLY_FAMILY") != "" {
		return
	}

	// coverage floors
	if len(srcs) < 50 {
		r.Inconclusive(fmt.Sprintf("only %d corpus workflows found under %s/testdata", len(srcs), repoDir()))
	}
	if r.Counter("bounds_checked_diagnostics") < 1000 {
		r.Inconclusive("bounds oracle saw fewer than 1000 diagnostics")
	}
	total := int64(0)
	for _, f := range fams[4:] {
		total += int64(f.N)
	}
	compared := r.Counter("cases_compared")
	skipped := r.Counter("skipped_unexpected_extra_diagnostic") + r.Counter("skipped_expected_diagnostic_absent")
	if skipped*100 > total*3 {
		r.Inconclusive(fmt.Sprintf("%d of %d generated cases were skipped because their diagnostics did not match the expectation list (floor 3%%)", skipped, total))
	}
	if (r.Counter("gen_selfcheck_failed")+r.Counter("gen_not_built"))*100 > total*2 {
		r.Inconclusive(fmt.Sprintf("generator self check failed / case not built for %d of %d cases", r.Counter("gen_selfcheck_failed")+r.Counter("gen_not_built"), total))
	}
	if compared*100 < total*90 {
		r.Inconclusive(fmt.Sprintf("only %d of %d generated cases were compared", compared, total))
	}
	if r.Counter("gen_shift_inconsistent")*100 > compared*3*2 {
		r.Inconclusive(fmt.Sprintf("%d shifted renderings were inconsistent with their base", r.Counter("gen_shift_inconsistent")))
	}
	if r.Counter("shifts_compared") < compared*2 {
		r.Inconclusive(fmt.Sprintf("only %d shifts compared for %d cases", r.Counter("shifts_compared"), compared))
	}
	for _, k := range []string{"lexer", "lexer-eof", "parser", "sema-var", "sema-func", "sema-prop", "sema-type", "sema-arg", "sema-sub", "sema-not", "avail", "untrusted", "template", "unexpected-key", "duplicate-key", "shell-name", "runner-label", "permission-value", "event-type", "id-convention", "cron", "glob"} {
		for _, st := range []string{"plain", "single", "double"} {
			if k == "lexer-eof" && st == "single" {
				continue // the unterminated literal needs an apostrophe, which a single-quoted scalar cannot hold without an escape
			}
			if !r.SetHas("kind_x_style", k+"|"+st) {
				r.Inconclusive("diagnostic kind " + k + " never compared in a " + st + " scalar")
			}
		}
	}
	for _, sk := range []string{"col|expr", "lines|expr", "pretext|expr", "placeholder|expr", "innerspace|expr", "col|key", "lines|key", "col|value", "lines|value", "col|glob", "lines|glob", "pretext|glob"} {
		if !r.SetHas("shift_kind_x_group", sk) {
			r.Inconclusive("shift kind " + sk + " never exercised")
		}
	}
	for _, pc := range []string{"emb|plain|flow=false", "emb|single|flow=true", "emb|double|flow=true", "whole|plain|flow=false", "bare|plain|flow=false", "bare|single|flow=false", "bare|double|flow=false", "key|plain|flow=true", "key|single|flow=false", "value|plain|flow=true", "value|double|flow=true"} {
		if !r.SetHas("placement_classes", pc) {
			r.Inconclusive("placement class " + pc + " never compared")
		}
	}
	for _, vk := range []string{"style|lexer", "style|lexer-eof", "style|parser", "style|sema-var", "style|template", "style|untrusted", "style|avail", "style|glob", "style|unexpected-key", "style|duplicate-key", "style|shell-name", "style|cron",
		"holder|lexer", "holder|lexer-eof", "holder|parser", "holder|sema-prop", "holder|template", "holder|glob", "holder|unexpected-key", "holder|runner-label", "holder|permission-value"} {
		if !r.SetHas("variant_kind", vk) {
			r.Inconclusive("style / holder invariance never compared for " + vk)
		}
	}
	for _, ic := range []string{"style|lexer-eof|emb", "style|lexer-eof|bare", "style|parser|bare", "holder|lexer-eof|emb"} {
		if !r.SetHas("offset_invariance_classes", ic) {
			r.Inconclusive("offset invariance (diagnostics without an absolute convention) never compared for " + ic)
		}
	}
	if r.Counter("variants_compared_style") < compared || r.Counter("variants_compared_holder")*4 < compared {
		r.Inconclusive(fmt.Sprintf("too few style / holder variants compared (%d / %d for %d cases)", r.Counter("variants_compared_style"), r.Counter("variants_compared_holder"), compared))
	}
	for _, gs := range []string{"glob/ref/negated/ref name must not start with /", "glob/ref/ref name must not start with /", "glob/ref/negated/at least one character must follow", "glob/path/negated/at least one character must follow", "glob/ref/character '\\t' is invalid for bran"} {
		if !r.SetHas("sites", gs) {
			r.Inconclusive("glob position class never compared: " + gs)
		}
	}
	for _, sn := range []string{"sema-arg:startsWith/1", "sema-arg:startsWith/2", "sema-arg:endsWith/1", "sema-arg:endsWith/2", "sema-arg:fromJSON/1", "sema-arg:format/1", "sema-arg:contains/1", "sema-arg:contains/2", "sema-arg:join/1", "sema-arg:join/2",
		"sema-arg:hashFiles/1", "sema-arg:hashFiles/rest2", "sema-arg:hashFiles/rest3", "sema-arg:hashFiles/rest4", "sema-arg:hashFiles/rest5",
		"sema-sub:in-arg/2", "sema-sub:in-arg/3", "sema-sub:operand/2", "sema-sub:operand/3", "sema-sub:compare/1", "sema-sub:compare/2", "sema-sub:compare/3", "sema-sub:index/short", "sema-sub:index/long",
		"untrusted:in-arg/2", "untrusted:in-arg/3", "untrusted:operand/2", "avail:in-arg/3"} {
		if !r.SetHas("sub_node_anchors", sn) {
			r.Inconclusive("no compared case with a diagnostic anchored at sub-node " + sn)
		}
	}
	for _, ps := range []string{"pair.path-filter+expr", "pair.path-ignore-filter+expr", "pair.ref-filter+expr", "pair.branch-filter+expr", "pair.event-type+expr", "pair.cron+expr", "pair.password+expr",
		"pair.deprecated-command+expr", "pair.expr+deprecated-command", "pair.if-extra-characters+expr", "pair.job-if-extra-characters+expr"} {
		if !r.SetHas("pairs_of_rules_in_one_scalar", ps+"|quoted") {
			r.Inconclusive("two constructs of different rules in one quoted scalar never compared: " + ps)
		}
	}
	for _, ps := range []string{"pair.path-filter+expr", "pair.cron+expr", "pair.password+expr", "pair.deprecated-command+expr"} {
		if !r.SetHas("pairs_of_rules_in_one_scalar", ps+"|plain") {
			r.Inconclusive("two constructs of different rules in one plain scalar never compared: " + ps)
		}
	}
	for _, md := range []string{"emb", "whole", "bare"} {
		if !r.SetHas("blanks_inside_quotes_modes", md) {
			r.Inconclusive("no compared case with blanks between the opening quote and the construct in mode " + md)
		}
		if !r.SetHas("innerspace_shift_modes", md) {
			r.Inconclusive("the shift 'k blanks inserted inside the quotes' was never exercised in mode " + md)
		}
	}
	if r.Counter("neighbour_positions_confirmed") < compared/2 {
		r.Inconclusive(fmt.Sprintf("no-interference oracle confirmed only %d positions for %d cases", r.Counter("neighbour_positions_confirmed"), compared))
	}
	for _, vs := range []string{"matrix-label.row", "matrix-label.include", "uses.missing-required-input"} {
		for _, st := range []string{"plain", "single", "double"} {
			if !r.SetHas("indirect_sites", vs+"|"+st) {
				r.Inconclusive("diagnostic reported at a node other than the one that triggers the check never compared: " + vs + " / " + st)
			}
		}
	}
	for _, vs := range []string{"matrix-label.row|flow=true", "matrix-label.row|flow=false", "matrix-label.include|flow=true", "matrix-label.include|flow=false"} {
		if !r.SetHas("indirect_sites_holder", vs) {
			r.Inconclusive("label reached through the matrix never compared in holder style " + vs)
		}
	}
	for _, vs := range []string{"matrix-label.row|unknown-label", "matrix-label.row|conflicting-label", "matrix-label.include|unknown-label", "matrix-label.include|conflicting-label"} {
		if !r.SetHas("indirect_messages", vs) {
			r.Inconclusive("label reached through the matrix never compared: " + vs)
		}
	}
	for _, g := range []string{"expr", "key", "value", "glob"} {
		for _, st := range []string{"plain", "single", "double"} {
			if !r.SetHas("non_ascii_before", g+"|"+st) {
				r.Inconclusive("no compared case with non-ASCII text earlier on the line: " + g + " / " + st)
			}
		}
		for _, cl := range []string{"anchored", "tagged", "anchored+tagged", "nonspecific-tag"} {
			if !r.SetHas("non_ascii_before_with_properties", g+"|"+cl) {
				r.Inconclusive("non-ASCII text earlier on the line never combined with node properties: " + g + " / " + cl)
			}
		}
	}
	for _, cl := range []string{"none", "anchored", "tagged", "anchored+tagged", "nonspecific-tag"} {
		for _, st := range []string{"plain", "single", "double"} {
			if !r.SetHas("bom_classes", cl+"|"+st) {
				r.Inconclusive("byte order mark + construct on line 1 never compared: " + cl + " / " + st)
			}
		}
	}
	for _, us := range []string{"u.step-env-key", "u.job-env-key", "u.wf-env-key", "u.outputs-key", "u.env-flow", "u.with-flow", "u.matrix-row-flow", "u.step-flow.shell", "u.matrix-dup-flow", "u.permission-flow", "u.step-flow.unexpected", "u.env-flow.duplicate"} {
		if !r.SetHas("non_ascii_before_sites", us) {
			r.Inconclusive("site with non-ASCII text earlier on the line never compared: " + us)
		}
	}
	for _, g := range []string{"expr", "key", "value", "glob"} {
		for _, cl := range []string{"anchored", "tagged", "anchored+tagged", "nonspecific-tag"} {
			for _, st := range []string{"plain", "single", "double"} {
				if !r.SetHas("property_classes", g+"|"+cl+"|"+st) {
					r.Inconclusive("node properties never compared: " + g + " / " + cl + " / " + st + " scalar")
				}
			}
		}
	}
	for _, cl := range []string{"anchored", "tagged", "anchored+tagged"} {
		if !r.SetHas("property_on_keys", cl) {
			r.Inconclusive("node properties on a mapping key never compared: " + cl)
		}
	}
	if r.Counter("property_variants_compared")*10 < compared*9 || r.Counter("property_blank_shifts_compared")*10 < compared*9 {
		r.Inconclusive(fmt.Sprintf("node-property variants compared for only %d (blank shifts %d) of %d cases", r.Counter("property_variants_compared"), r.Counter("property_blank_shifts_compared"), compared))
	}
	{
		// operands with consecutive ! operators: every anchor kind with at least 3 different chains,
		// every chain (2, 3, 4 operators, with and without blanks) at 5 or more anchor kinds
		tmpl := []string{"arg1", "arg2", "arg1-overloads", "rest2", "rest3", "compare-left", "index", "deref-receiver", "filter-receiver", "inner"}
		chains := []string{"2", "2b", "3", "3b", "4"}
		for _, t := range tmpl {
			n := 0
			for _, nb := range chains {
				if r.SetHas("sub_node_anchors", "sema-not:"+t+"/"+nb) {
					n++
				}
			}
			if n < 3 {
				r.Inconclusive(fmt.Sprintf("operand with consecutive ! operators: anchor kind %s compared with only %d different chains", t, n))
			}
		}
		for _, nb := range chains {
			n := 0
			for _, t := range tmpl {
				if r.SetHas("sub_node_anchors", "sema-not:"+t+"/"+nb) {
					n++
				}
			}
			if n < 5 {
				r.Inconclusive(fmt.Sprintf("operand with consecutive ! operators: chain %s (b = blanks between them) compared at only %d anchor kinds", nb, n))
			}
		}
	}
	if r.Counter("last_line_without_final_break_with_properties") < 30 {
		r.Inconclusive(fmt.Sprintf("only %d cases with node properties on the last line of a file without final line break", r.Counter("last_line_without_final_break_with_properties")))
	}
	if r.Counter("last_line_without_final_break_compared") < 30 {
		r.Inconclusive(fmt.Sprintf("only %d cases with the construct on the last line of a file without final line break", r.Counter("last_line_without_final_break_compared")))
	}
	for n := 0; n <= 3; n++ {
		if !r.SetHas("earlier_placeholders", fmt.Sprint(n)) {
			r.Inconclusive(fmt.Sprintf("no compared case with %d earlier placeholders", n))
		}
	}
	if r.SetLen("text_before") < 30 {
		r.Inconclusive("fewer than 30 distinct amounts of text before the placeholder")
	}
	if r.SetLen("indentation_of_line") < 12 {
		r.Inconclusive("fewer than 12 distinct line indentations")
	}
	if r.SetLen("sites") < 100 {
		r.Inconclusive(fmt.Sprintf("only %d distinct sites compared", r.SetLen("sites")))
	}
}
