package main

// C13, family "jobkind": the key set of a job depends on its kind.
//
// Reference (written down from the workflow syntax as the unchanged tree implements it):
//   * in a job that calls a reusable workflow (`uses:`) the keys runs-on, environment, outputs, env, defaults,
//     steps, timeout-minutes, continue-on-error, container and services are outside the set (GitHub: only name,
//     uses, with, secrets, needs, if, permissions, strategy and concurrency are supported there);
//   * in an ordinary job (no `uses:`) the keys with and secrets are outside the set;
//   * name, needs, if, permissions, strategy, concurrency are accepted in both.
// Every foreign key is written in every value form the parser reads for it (scalar / sequence / mapping /
// expression / empty, `secrets: inherit`).
// 1, 2 and 3 keys of the other kind are put into a call job / an ordinary job, in every order and before /
// behind `uses:` resp. `steps:`. Every one of them has to be reported at its key, and every diagnostic of
// the base workflow (the siblings carry known diagnostics in the dirty rendering) has to survive.

import (
	"fmt"
	"strings"

	"gopkg.in/yaml.v3"
)

type c13JKEntry struct {
	Key   string
	Clean []string
	Dirty []string // same number of lines; nil = no dirty spelling
	// further value forms of a foreign key (Clean is form 0); every form is one the parser knows how to read
	FormNames []string
	Forms     [][]string
}

func (e *c13JKEntry) nForms() int { return 1 + len(e.Forms) }

func (e *c13JKEntry) form(i int) (string, []string) {
	if i == 0 || i > len(e.Forms) {
		if len(e.FormNames) > 0 {
			return e.FormNames[0], e.Clean
		}
		return "default", e.Clean
	}
	return e.FormNames[i], e.Forms[i-1]
}

const c13JKHeader = "on: push\njobs:\n  first:\n    runs-on: ubuntu-latest\n    steps:\n      - run: echo\n  target:\n"

var c13JKCallBase = []c13JKEntry{
	{Key: "name", Clean: []string{"    name: Call"}, Dirty: []string{"    name: ${{ foo }}"}},
	{Key: "needs", Clean: []string{"    needs: first"}, Dirty: []string{"    needs: ''"}},
	{Key: "if", Clean: []string{"    if: success()"}, Dirty: []string{"    if: foo"}},
	{Key: "uses", Clean: []string{"    uses: owner/repo/.github/workflows/w.yml@v1"}, Dirty: []string{"    uses: owner/repo@v1"}},
	{Key: "with", Clean: []string{"    with:", "      x: a"}, Dirty: []string{"    with:", "      x: ${{ foo }}"}},
	{Key: "secrets", Clean: []string{"    secrets:", "      s: b"}, Dirty: []string{"    secrets:", "      s: ${{ foo }}"}},
	{Key: "strategy", Clean: []string{"    strategy:", "      fail-fast: true"}, Dirty: []string{"    strategy:", "      fail-fast: maybe"}},
	{Key: "concurrency", Clean: []string{"    concurrency: grp"}, Dirty: []string{"    concurrency: ${{ foo }}"}},
	{Key: "permissions", Clean: []string{"    permissions:", "      contents: read"}, Dirty: []string{"    permissions:", "      contents: c13bogus"}},
}

var c13JKOrdinaryBase = []c13JKEntry{
	{Key: "name", Clean: []string{"    name: Build"}, Dirty: []string{"    name: ${{ foo }}"}},
	{Key: "needs", Clean: []string{"    needs: first"}, Dirty: []string{"    needs: ''"}},
	{Key: "runs-on", Clean: []string{"    runs-on: ubuntu-latest"}, Dirty: []string{"    runs-on: ${{ foo }}"}},
	{Key: "env", Clean: []string{"    env:", "      A_VAR: b"}, Dirty: []string{"    env:", "      A_VAR: ${{ foo }}"}},
	{Key: "timeout-minutes", Clean: []string{"    timeout-minutes: 5"}, Dirty: []string{"    timeout-minutes: 0"}},
	{Key: "steps", Clean: []string{"    steps:", "      - run: echo"}, Dirty: []string{"    steps:", "      - run: echo ${{ foo }}"}},
	{Key: "strategy", Clean: []string{"    strategy:", "      fail-fast: true"}, Dirty: []string{"    strategy:", "      fail-fast: maybe"}},
	{Key: "permissions", Clean: []string{"    permissions:", "      contents: read"}, Dirty: []string{"    permissions:", "      contents: c13bogus"}},
}

// keys of an ordinary job that are outside the key set of a call job
var c13JKStepsOnly = []c13JKEntry{
	{Key: "runs-on", Clean: []string{"    runs-on: ubuntu-latest"}, FormNames: []string{"scalar", "sequence", "mapping", "expression"},
		Forms: [][]string{{"    runs-on:", "      - ubuntu-latest"}, {"    runs-on:", "      group: grp", "      labels: ubuntu-latest"}, {"    runs-on: ${{ github.actor }}"}}},
	{Key: "environment", Clean: []string{"    environment: production"}, FormNames: []string{"scalar", "mapping"},
		Forms: [][]string{{"    environment:", "      name: production", "      url: https://example.com"}}},
	{Key: "outputs", Clean: []string{"    outputs:", "      o: v"}, FormNames: []string{"mapping", "expression-scalar"},
		Forms: [][]string{{"    outputs: ${{ github.actor }}"}}},
	{Key: "env", Clean: []string{"    env:", "      A_VAR: b"}, FormNames: []string{"mapping", "expression-scalar"},
		Forms: [][]string{{"    env: ${{ github.actor }}"}}},
	{Key: "defaults", Clean: []string{"    defaults:", "      run:", "        shell: bash"}, FormNames: []string{"mapping", "expression-scalar"},
		Forms: [][]string{{"    defaults: ${{ github.actor }}"}}},
	{Key: "steps", Clean: []string{"    steps:", "      - run: echo"}, FormNames: []string{"sequence", "empty", "empty-sequence"},
		Forms: [][]string{{"    steps:"}, {"    steps: []"}}},
	{Key: "timeout-minutes", Clean: []string{"    timeout-minutes: 5"}, FormNames: []string{"number", "expression"},
		Forms: [][]string{{"    timeout-minutes: ${{ 5 }}"}}},
	{Key: "continue-on-error", Clean: []string{"    continue-on-error: true"}, FormNames: []string{"boolean", "expression"},
		Forms: [][]string{{"    continue-on-error: ${{ true }}"}}},
	{Key: "container", Clean: []string{"    container: alpine:3"}, FormNames: []string{"scalar", "mapping"},
		Forms: [][]string{{"    container:", "      image: alpine:3"}}},
	{Key: "services", Clean: []string{"    services:", "      redis:", "        image: redis:7"}, FormNames: []string{"mapping", "scalar-service", "expression-scalar"},
		Forms: [][]string{{"    services:", "      redis: redis:7"}, {"    services: ${{ github.actor }}"}}},
}

// keys of a call job that are outside the key set of an ordinary job
var c13JKCallOnly = []c13JKEntry{
	{Key: "with", Clean: []string{"    with:", "      x: a"}, FormNames: []string{"mapping", "empty"}, Forms: [][]string{{"    with:"}}},
	{Key: "secrets", Clean: []string{"    secrets:", "      s: b"}, FormNames: []string{"mapping", "inherit", "other-scalar", "empty"},
		Forms: [][]string{{"    secrets: inherit"}, {"    secrets: c13other"}, {"    secrets:"}}},
}

type c13JKKind struct {
	Name    string
	Base    []c13JKEntry
	Foreign []c13JKEntry
	Pivot   string // the key that makes the kind: positions are "before" / "behind" it
}

var c13JKKinds = []c13JKKind{
	{"call-job", c13JKCallBase, c13JKStepsOnly, "uses"},
	{"ordinary-job", c13JKOrdinaryBase, c13JKCallOnly, "steps"},
}

// c13JKTuples: all ordered selections of 1..3 (at most n) foreign keys.
func c13JKTuples(n int) [][]int {
	var out [][]int
	for a := 0; a < n; a++ {
		out = append(out, []int{a})
	}
	for a := 0; a < n; a++ {
		for b := 0; b < n; b++ {
			if b != a {
				out = append(out, []int{a, b})
			}
		}
	}
	for a := 0; a < n; a++ {
		for b := 0; b < n; b++ {
			for d := 0; d < n; d++ {
				if a != b && a != d && b != d {
					out = append(out, []int{a, b, d})
				}
			}
		}
	}
	return out
}

type c13JKCase struct {
	Kind  int
	Tuple []int
}

func c13JKCases() []c13JKCase {
	var out []c13JKCase
	for ki := range c13JKKinds {
		for _, t := range c13JKTuples(len(c13JKKinds[ki].Foreign)) {
			out = append(out, c13JKCase{ki, t})
		}
	}
	return out
}

type c13JKDoc struct {
	Src      string
	BaseLine []int // new line of every line of the base text (1-based index, 0 unused)
	KeyLine  []int // line of every inserted key, in tuple order
	Keys     []string
	LineKey  map[int]string // base line -> key of the base entry of the target job it belongs to
}

// c13JKBuild writes the workflow: base entries (dirty[i] selects the spelling) with the foreign entries put
// into the given slots (slot s = in front of base entry s; len(base) = at the end).
func c13JKBuild(k *c13JKKind, dirty []bool, tuple []int, slots []int, forms []int) c13JKDoc {
	var d c13JKDoc
	var out []string
	hdr := strings.Split(strings.TrimSuffix(c13JKHeader, "\n"), "\n")
	out = append(out, hdr...)
	d.BaseLine = make([]int, 1, 64)
	for i := range hdr {
		d.BaseLine = append(d.BaseLine, i+1)
	}
	d.KeyLine = make([]int, len(tuple))
	d.LineKey = map[int]string{}
	baseLineNo := len(hdr)
	putForeign := func(slot int) {
		for j, fi := range tuple {
			if slots != nil && slots[j] == slot {
				d.KeyLine[j] = len(out) + 1
				_, lines := k.Foreign[fi].form(forms[j])
				out = append(out, lines...)
			}
		}
	}
	for s, e := range k.Base {
		putForeign(s)
		lines := e.Clean
		if dirty[s] && e.Dirty != nil {
			lines = e.Dirty
		}
		for _, l := range lines {
			out = append(out, l)
			baseLineNo++
			d.BaseLine = append(d.BaseLine, len(out))
			d.LineKey[baseLineNo] = e.Key
		}
	}
	putForeign(len(k.Base))
	for _, fi := range tuple {
		d.Keys = append(d.Keys, k.Foreign[fi].Key)
	}
	d.Src = strings.Join(out, "\n") + "\n"
	return d
}

// c13JKSelfCheck: the target job of the mutant has the intended keys at the predicted places.
func c13JKSelfCheck(k *c13JKKind, d *c13JKDoc, nForeign int) string {
	doc, err := c13ParseDoc(d.Src)
	if err != nil {
		return "does not parse: " + err.Error()
	}
	root := doc.Content[0]
	var job *yaml.Node
	for i := 0; i+1 < len(root.Content); i += 2 {
		if root.Content[i].Value == "jobs" {
			jobs := root.Content[i+1]
			for j := 0; j+1 < len(jobs.Content); j += 2 {
				if jobs.Content[j].Value == "target" {
					job = jobs.Content[j+1]
				}
			}
		}
	}
	if job == nil || job.Kind != yaml.MappingNode {
		return "target job not found"
	}
	if len(job.Content)/2 != len(k.Base)+nForeign {
		return fmt.Sprintf("target job has %d keys instead of %d", len(job.Content)/2, len(k.Base)+nForeign)
	}
	for j, key := range d.Keys[:nForeign] {
		found := false
		for i := 0; i+1 < len(job.Content); i += 2 {
			kn := job.Content[i]
			if kn.Value == key && kn.Line == d.KeyLine[j] && kn.Column == 5 {
				found = true
			}
		}
		if !found {
			return fmt.Sprintf("inserted key %q is not at %d:5", key, d.KeyLine[j])
		}
	}
	return ""
}

// c13JobKindCase: one ordered selection of foreign keys, in the clean and the all-dirty base (thorough: more
// dirty subsets), with every before/behind pattern for 1 and 2 keys (3 keys: one pattern in quick, all in thorough).
func c13JobKindCase(c *Case, jc c13JKCase, level int) {
	k := &c13JKKinds[jc.Kind]
	pivot := 0
	for i, e := range k.Base {
		if e.Key == k.Pivot {
			pivot = i
		}
	}
	nb := len(k.Base)
	nt := len(jc.Tuple)
	var patterns []int
	if nt < 3 || level > 0 {
		for p := 0; p < 1<<uint(nt); p++ {
			patterns = append(patterns, p)
		}
	} else {
		patterns = []int{c.R.Intn(1 << uint(nt))}
	}
	nVariants := 2
	if level > 0 {
		nVariants = 5
	}
	for v := 0; v < nVariants; v++ {
		dirty := make([]bool, nb)
		for i := range dirty {
			switch v {
			case 0:
			case 1:
				dirty[i] = true
			default:
				dirty[i] = c.R.Bool()
			}
		}
		base := c13JKBuild(k, dirty, nil, nil, nil)
		baseDiags, err := lintSrc(base.Src)
		c.Eval(1)
		if err != nil {
			c.Violation("C13:fatal-error", "linting a job-kind base returned a fatal error: "+err.Error(), map[string]interface{}{"src": base.Src})
			return
		}
		if v == 0 && len(baseDiags) > 0 {
			c.Run.Inconclusive(fmt.Sprintf("jobkind: the clean %s base is not clean: %s", k.Name, baseDiags[0].String()))
			return
		}
		type variantOfForms struct {
			pat   int
			forms []int
		}
		var todo []variantOfForms
		for _, pat := range patterns {
			if nt == 1 {
				// a single key: every value form the parser accepts for it
				for f := 0; f < k.Foreign[jc.Tuple[0]].nForms(); f++ {
					todo = append(todo, variantOfForms{pat, []int{f}})
				}
				continue
			}
			if len(k.Foreign) <= 3 {
				// few foreign keys (ordinary job): every combination of value forms
				total := 1
				for _, fi := range jc.Tuple {
					total *= k.Foreign[fi].nForms()
				}
				for x := 0; x < total; x++ {
					fs := make([]int, nt)
					y := x
					for j, fi := range jc.Tuple {
						fs[j] = y % k.Foreign[fi].nForms()
						y /= k.Foreign[fi].nForms()
					}
					todo = append(todo, variantOfForms{pat, fs})
				}
				continue
			}
			fs := make([]int, nt)
			for j := range fs {
				fs[j] = c.R.Intn(k.Foreign[jc.Tuple[j]].nForms())
			}
			todo = append(todo, variantOfForms{pat, fs})
		}
		for _, td := range todo {
			pat, forms := td.pat, td.forms
			slots := make([]int, nt)
			for j := range slots {
				if pat&(1<<uint(j)) == 0 {
					slots[j] = c.R.Intn(pivot + 1) // in front of the pivot key
				} else {
					slots[j] = pivot + 1 + c.R.Intn(nb-pivot)
				}
			}
			d := c13JKBuild(k, dirty, jc.Tuple, slots, forms)
			if prob := c13JKSelfCheck(k, &d, nt); prob != "" {
				c.SetAdd("selfcheck_failures", fmt.Sprintf("jobkind %s %v %v: %s", k.Name, d.Keys, slots, prob))
				continue
			}
			got, err := lintSrc(d.Src)
			c.Eval(1)
			c.Count("mutants_jobkind", 1)
			multiplicity := "alone"
			if nt > 1 {
				multiplicity = "one-of-several"
			}
			detail := func(extra map[string]interface{}) map[string]interface{} {
				m := map[string]interface{}{"kind": k.Name, "inserted_keys": d.Keys, "key_lines": d.KeyLine, "base_src": base.Src, "src": d.Src,
					"base_diags": diagStrings(baseDiags), "diags": diagStrings(got)}
				for kk, vv := range extra {
					m[kk] = vv
				}
				return m
			}
			c.Logf("--- %s: keys %v at lines %v (dirty variant %d)", k.Name, d.Keys, d.KeyLine, v)
			disagree := func(sig, what string, det map[string]interface{}) {
				c.Logf("DISAGREEMENT %s\n  %s\n  workflow:\n%s\n  base diagnostics:\n    %s\n  diagnostics:\n    %s", sig, what, d.Src,
					strings.Join(diagStrings(baseDiags), "\n    "), strings.Join(diagStrings(got), "\n    "))
				c.Violation(sig, what, det)
			}
			if err != nil {
				disagree("C13:fatal-error", "linting returned a fatal error: "+err.Error(), detail(nil))
				continue
			}
			// every diagnostic of the base survives (moved with its line)
			type dk struct {
				line, col int
				kind, msg string
			}
			avail := map[dk]int{}
			for _, g := range got {
				avail[dk{g.Line, g.Col, g.Kind, c13NormMsg(g.Msg)}]++
			}
			lostBy := map[string][]string{}
			for _, bd := range baseDiags {
				nl := bd.Line
				if bd.Line >= 1 && bd.Line < len(d.BaseLine) {
					nl = d.BaseLine[bd.Line]
				}
				key := dk{nl, bd.Col, bd.Kind, c13NormMsg(bd.Msg)}
				if avail[key] > 0 {
					avail[key]--
					continue
				}
				sib := base.LineKey[bd.Line]
				if sib == "" {
					sib = "other"
				}
				lostBy[sib] = append(lostBy[sib], bd.String())
			}
			if len(baseDiags) > 0 {
				c.Count("jobkind_mutants_with_sibling_diagnostics", 1)
			}
			for _, e := range k.Base { // fixed order of reporting
				if l := lostBy[e.Key]; len(l) > 0 {
					disagree("C13:sibling-diagnostic-lost:job-kind-foreign-key:"+k.Name+":"+e.Key,
						fmt.Sprintf("keys %v of the other job kind in a %s: the diagnostic of sibling %q disappeared: %s", d.Keys, k.Name, e.Key, l[0]),
						detail(map[string]interface{}{"lost": l}))
				}
			}
			if l := lostBy["other"]; len(l) > 0 {
				disagree("C13:sibling-diagnostic-lost:job-kind-foreign-key:"+k.Name+":other-job",
					fmt.Sprintf("keys %v of the other job kind in a %s: a diagnostic outside the job disappeared: %s", d.Keys, k.Name, l[0]), detail(map[string]interface{}{"lost": l}))
			}
			c.Nontrivial(fmt.Sprintf("jobkind|%s|%v|%v|%v|%d", k.Name, d.Keys, slots, forms, v))
			// every inserted key is reported at the key
			for j, key := range d.Keys {
				pos := "before-" + k.Pivot
				if pat&(1<<uint(j)) != 0 {
					pos = "behind-" + k.Pivot
				}
				c.SetAdd("jobkind_covered", k.Name+":"+key+":"+pos+":"+multiplicity)
				fname, _ := k.Foreign[jc.Tuple[j]].form(forms[j])
				c.SetAdd("jobkind_forms_covered", k.Name+":"+key+":"+fname+":"+multiplicity)
				ok := false
				for _, g := range got {
					if g.Line == d.KeyLine[j] && g.Col == 5 && strings.Contains(g.Msg, `"`+key+`"`) && avail[dk{g.Line, g.Col, g.Kind, c13NormMsg(g.Msg)}] > 0 {
						ok = true
					}
				}
				if !ok {
					sig := "C13:job-kind-foreign-key-not-reported:" + k.Name + ":" + key + ":" + multiplicity
					if forms[j] != 0 {
						sig += ":value-form=" + fname
					}
					disagree(sig,
						fmt.Sprintf("%q (value form %s) is not a key of a %s but is not reported at %d:5 (inserted keys, in tuple order: %v at lines %v)", key, fname, k.Name, d.KeyLine[j], d.Keys, d.KeyLine),
						detail(map[string]interface{}{"unreported_key": key}))
				}
			}
			if c.Idx == 12 && v == 1 && pat == patterns[0] && forms[0] == 0 {
				c.Sample(map[string]interface{}{"kind": k.Name, "inserted_keys": d.Keys, "key_lines": d.KeyLine, "diags_at_keys": len(got) - len(baseDiags)})
			}
		}
	}
}

func c13JobKindFloors(r *Run) {
	for ki := range c13JKKinds {
		k := &c13JKKinds[ki]
		for fi := range k.Foreign {
			for i := 0; i < k.Foreign[fi].nForms(); i++ {
				fname, _ := k.Foreign[fi].form(i)
				for _, m := range []string{"alone", "one-of-several"} {
					if !r.SetHas("jobkind_forms_covered", k.Name+":"+k.Foreign[fi].Key+":"+fname+":"+m) {
						r.Inconclusive(fmt.Sprintf("jobkind: key %q with value form %s was never put into a %s (%s)", k.Foreign[fi].Key, fname, k.Name, m))
					}
				}
			}
		}
		for _, f := range k.Foreign {
			for _, pos := range []string{"before-" + k.Pivot, "behind-" + k.Pivot} {
				for _, m := range []string{"alone", "one-of-several"} {
					if !r.SetHas("jobkind_covered", k.Name+":"+f.Key+":"+pos+":"+m) {
						r.Inconclusive(fmt.Sprintf("jobkind: key %q was never put %s of a %s (%s)", f.Key, pos, k.Name, m))
					}
				}
			}
		}
	}
}
