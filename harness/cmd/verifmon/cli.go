package main

import (
	"bytes"
	"os"
	"os/exec"
	"path/filepath"
	"syscall"
)

// CLIResult is what one execution of the real actionlint binary produced.
type CLIResult struct {
	Stdout string
	Stderr string
	Exit   int // exit status, -1 if killed by a signal
	Signal string
}

// runCLI executes the actionlint binary built from the repository's working tree (plain or -race
// build) in directory cwd. extraEnv entries are appended to the environment.
func runCLI(race bool, cwd string, stdin []byte, extraEnv []string, args ...string) CLIResult {
	bin := "actionlint"
	if race {
		bin = "actionlint-race"
	}
	return runCLIBin(bin, cwd, stdin, extraEnv, args...)
}

// runCLIBin runs a named build of the CLI from the bin directory (actionlint, actionlint-race,
// actionlint-go126).
func runCLIBin(name string, cwd string, stdin []byte, extraEnv []string, args ...string) CLIResult {
	bin := filepath.Join(binDir(), name)
	cmd := exec.Command(bin, args...)
	cmd.Dir = cwd
	cmd.Env = append(os.Environ(), extraEnv...)
	if stdin != nil {
		cmd.Stdin = bytes.NewReader(stdin)
	}
	var so, se bytes.Buffer
	cmd.Stdout = &so
	cmd.Stderr = &se
	err := cmd.Run()
	res := CLIResult{Stdout: so.String(), Stderr: se.String()}
	if err != nil {
		if ee, ok := err.(*exec.ExitError); ok {
			if ws, ok := ee.Sys().(syscall.WaitStatus); ok && ws.Signaled() {
				res.Exit = -1
				res.Signal = ws.Signal().String()
			} else {
				res.Exit = ee.ExitCode()
			}
		} else {
			res.Exit = -2
			res.Stderr += "\nexec error: " + err.Error()
		}
	}
	return res
}
