package main

// C06 — unknown (any) types never cause a diagnostic.
//
// Metamorphic monitor. Level (a): the real ExprSemanticsChecker is run on (G, e) and, when e is
// accepted under G, on (G', e) for EVERY single loosening G' of G (one type occurrence replaced by
// any, or one closed object opened). Oracle = the statement: errs(G,e) = {} => errs(G',e) = {}.
// Level (b) (c06_lint.go): clean workflows whose literal definitions are replaced by dynamic ones
// must stay clean.

import (
	"fmt"
	"regexp"
	"runtime/debug"
	"sort"
	"strings"

	"github.com/rhysd/actionlint"
)

func init() { registry["C06"] = runC06 }

var c06AllContexts = []string{"github", "env", "job", "steps", "runner", "secrets", "strategy", "matrix", "needs", "inputs", "vars", "jobs"}
var c06AllSpecial = []string{"always", "cancelled", "failure", "hashfiles", "success"}

type c06Result struct {
	Ty    string
	Errs  []string
	Parse string
	expr  actionlint.ExprNode
}

func c06Parse(src string) (actionlint.ExprNode, string) {
	p := actionlint.NewExprParser()
	e, err := p.Parse(actionlint.NewExprLexer(src + "}}"))
	if err != nil {
		return nil, err.Error()
	}
	return e, ""
}

// c06Run runs the real checker: fresh checker, fresh type trees, fresh syntax tree.
func c06Run(env *c06Env, src string) c06Result {
	expr, perr := c06Parse(src)
	if expr == nil {
		return c06Result{Parse: perr}
	}
	sema := actionlint.NewExprSemanticsChecker(false, nil)
	sema.SetContextAvailability(c06AllContexts)
	sema.SetSpecialFunctionAvailability(c06AllSpecial)
	mk := func(t *c06Ty) *actionlint.ObjectType {
		o := t.buildObj()
		if env.Copy {
			o = o.DeepCopy().(*actionlint.ObjectType)
		}
		return o
	}
	for i, n := range c06CtxNames {
		o := mk(env.Ty[i])
		switch n {
		case "matrix":
			sema.UpdateMatrix(o)
		case "steps":
			sema.UpdateSteps(o)
		case "needs":
			sema.UpdateNeeds(o)
		case "inputs":
			sema.UpdateInputs(o)
		case "secrets":
			sema.UpdateSecrets(o)
		case "jobs":
			sema.UpdateJobs(o)
		}
	}
	if env.Dispatch != nil {
		sema.UpdateDispatchInputs(mk(env.Dispatch))
	}
	ty, errs := sema.Check(expr)
	res := c06Result{Ty: ty.String(), expr: expr}
	for _, e := range errs {
		res.Errs = append(res.Errs, e.Error())
	}
	return res
}

var c06Classes = []struct {
	re   *regexp.Regexp
	name string
}{
	{regexp.MustCompile("cannot be filtered by object filtering"), "objfilter-no-object-member"},
	{regexp.MustCompile("elements of object at receiver of object filtering"), "objfilter-mapped-element"},
	{regexp.MustCompile("receiver of object filtering"), "objfilter-receiver"},
	{regexp.MustCompile("is not defined in object type .* as element of filtered array"), "property-undefined-in-filtered-element"},
	{regexp.MustCompile("is not defined in object type"), "property-undefined"},
	{regexp.MustCompile("receiver of object dereference"), "deref-receiver"},
	{regexp.MustCompile("property filtered by"), "filtered-property-element"},
	{regexp.MustCompile("index access of array must be type of number"), "array-index-type"},
	{regexp.MustCompile("property access of object must be type of string"), "object-index-type"},
	{regexp.MustCompile("index access operand must be"), "index-operand"},
	{regexp.MustCompile(`argument of function call is not assignable.*called function type is "(\w+)`), "argument-not-assignable"},
	{regexp.MustCompile("number of arguments is wrong"), "argument-count"},
	{regexp.MustCompile("cannot be compared to"), "comparison"},
	{regexp.MustCompile("type of operand of ! operator"), "not-operand"},
	{regexp.MustCompile("format string"), "format-placeholders"},
	{regexp.MustCompile("broken JSON string"), "broken-json"},
	{regexp.MustCompile("undefined variable"), "undefined-variable"},
	{regexp.MustCompile("undefined function"), "undefined-function"},
	{regexp.MustCompile("context .* is not allowed here"), "context-availability"},
	{regexp.MustCompile("calling function .* is not allowed here"), "function-availability"},
	{regexp.MustCompile("configuration variable"), "config-variable"},
	{regexp.MustCompile("should not be evaluated in template"), "template-object-array-null"},
	{regexp.MustCompile(`"if" condition should be type "bool"`), "if-condition-type"},
	{regexp.MustCompile("type of expression must be bool"), "bool-expected"},
	{regexp.MustCompile("must be number but found"), "number-expected"},
	{regexp.MustCompile("must be object but found"), "object-expected"},
	{regexp.MustCompile("must be array but found"), "array-expected"},
	{regexp.MustCompile("must be string or array but found"), "runs-on-type"},
	{regexp.MustCompile("is typed as .* by reusable workflow"), "reusable-workflow-input-type"},
	{regexp.MustCompile("type of input .* must be (bool|number) but found"), "workflow-call-default-type"},
}

func c06Class(msg string) string {
	for _, c := range c06Classes {
		if m := c.re.FindStringSubmatch(msg); m != nil {
			if len(m) > 1 {
				return c.name + ":" + strings.ToLower(m[1])
			}
			return c.name
		}
	}
	return "other"
}

// c06Acc collects the counters of one case locally; the shared (mutex protected) counters of the
// run are updated once per case.
type c06Acc struct {
	n     map[string]int
	s     map[string]map[string]struct{}
	evals int
}

func c06NewAcc() *c06Acc {
	return &c06Acc{n: map[string]int{}, s: map[string]map[string]struct{}{}}
}

func (a *c06Acc) Count(k string, n int) { a.n[k] += n }
func (a *c06Acc) Eval(n int)            { a.evals += n }
func (a *c06Acc) SetAdd(set, el string) {
	m := a.s[set]
	if m == nil {
		m = map[string]struct{}{}
		a.s[set] = m
	}
	m[el] = struct{}{}
}

func (a *c06Acc) flush(c *Case) {
	c.Eval(a.evals)
	for k, n := range a.n {
		c.Count(k, n)
	}
	for set, m := range a.s {
		for el := range m {
			if !c.SetHas(set, el) {
				c.SetAdd(set, el)
			}
		}
	}
}

// c06Features records which constructs an accepted expression exercises.
func c06Features(c *c06Acc, set string, e actionlint.ExprNode) {
	actionlint.VisitExprNode(e, func(n, _ actionlint.ExprNode, entering bool) {
		if !entering {
			return
		}
		switch n := n.(type) {
		case *actionlint.ObjectDerefNode:
			c.SetAdd(set, "property")
		case *actionlint.ArrayDerefNode:
			c.SetAdd(set, "filter .*")
		case *actionlint.IndexAccessNode:
			switch n.Index.(type) {
			case *actionlint.StringNode:
				c.SetAdd(set, "index ['literal']")
			case *actionlint.IntNode, *actionlint.FloatNode:
				c.SetAdd(set, "index [number]")
			default:
				c.SetAdd(set, "index [expression]")
			}
		case *actionlint.FuncCallNode:
			c.SetAdd(set, "call "+strings.ToLower(n.Callee))
		case *actionlint.NotOpNode:
			c.SetAdd(set, "!")
		case *actionlint.CompareOpNode:
			c.SetAdd(set, "compare "+n.Kind.String())
		case *actionlint.LogicalOpNode:
			c.SetAdd(set, "logical "+n.Kind.String())
		}
	})
}

// c06Pair evaluates one (G, e) pair: antecedent, then every single loosening.
func c06Pair(c *Case, a *c06Acc, fam string, env *c06Env, sites []c06Site, src string, sample bool) {
	a.Count("pairs", 1)
	base := c06Run(env, src)
	a.Eval(1)
	if base.Parse != "" {
		a.Count("generator_parse_errors", 1)
		c.Logf("PARSE ERROR %q: %s", src, base.Parse)
		return
	}
	if len(base.Errs) > 0 {
		a.Count("pairs_rejected_under_G", 1)
		for _, e := range base.Errs {
			a.SetAdd("classes_rejected_under_G", c06Class(e))
		}
		c.Logf("G rejects %s: %v", src, base.Errs)
		return
	}
	a.Count("pairs_accepted_under_G", 1)
	a.Count(fam+"_accepted", 1)
	c.Nontrivial(fam + "|" + env.String() + "|" + src)
	c06Features(a, "constructs_in_accepted_expressions", base.expr)
	c.Logf("G accepts %s : %s  (%d loosenings)", src, base.Ty, len(sites))
	effective := 0
	dynIndex := c06HasDynIndex(base.expr)
	for _, s := range sites {
		if s.Mode == c06MapStrObj && dynIndex {
			// obj[<expression>] is any for a closed object but string for {string => string}:
			// for this form the replacement is not a loosening
			continue
		}
		lo := env.loosen(s)
		got := c06Run(lo, src)
		a.Eval(1)
		a.Count("loosened_runs", 1)
		kind := c06ModeNames[s.Mode]
		a.Count("loosened_runs_"+kind, 1)
		if s.Mode == c06ToAny {
			a.SetAdd("kinds_replaced_by_any", c06KindWord(s.Was))
		}
		if got.Ty != base.Ty {
			effective++
		}
		if len(got.Errs) == 0 {
			continue
		}
		// the verdicts must be functions of (G, e) and (G', e): confirm before reporting
		stable := true
		for k := 0; k < 3 && stable; k++ {
			b2, g2 := c06Run(env, src), c06Run(lo, src)
			a.Eval(2)
			stable = len(b2.Errs) == 0 && len(g2.Errs) > 0
		}
		if !stable {
			a.Count("pairs_with_unstable_verdict_not_compared", 1)
			c.Logf("  verdict of %q is not stable between identical runs; not compared", src)
			continue
		}
		cls := c06Class(got.Errs[0])
		c.Logf("  VIOLATED by %s at %s (%s): %v", kind, s.Path, s.Was, got.Errs)
		c.Violation("C06:api:"+cls,
			fmt.Sprintf("expression %q is accepted under G but rejected after %s at %s (was %s): %s", src, kind, s.Path, s.Was, got.Errs[0]),
			map[string]interface{}{
				"src": src, "G": env.Map(), "G_prime": lo.Map(), "loosening": kind, "loosened_at": s.Path, "was": s.Was,
				"deep_copied": env.Copy, "expected": "no error under G' (none under G, result type " + base.Ty + ")", "observed": got.Errs, "type_under_G_prime": got.Ty,
			})
	}
	if fam == "random" {
		c06FnResult(c, a, env, src)
	}
	a.Count("loosened_runs_changing_result_type", effective)
	if effective > 0 {
		a.Count("pairs_with_effective_loosening", 1)
	}
	if sample {
		c.Sample(map[string]interface{}{"level": "api", "G": env.String(), "e": src, "type": base.Ty, "loosenings": len(sites), "changing_result_type": effective})
	}
}

// c06HasDynIndex: does the expression index anything with a non-literal key?
func c06HasDynIndex(e actionlint.ExprNode) bool {
	found := false
	actionlint.VisitExprNode(e, func(n, _ actionlint.ExprNode, entering bool) {
		if ia, ok := n.(*actionlint.IndexAccessNode); ok && entering {
			switch ia.Index.(type) {
			case *actionlint.StringNode, *actionlint.IntNode, *actionlint.FloatNode:
			default:
				found = true
			}
		}
	})
	return found
}

// c06FnResult: "a function result is typed any instead of having a specific type". Every call of
// fromJSON with a literal argument (typed from the literal) is replaced in turn by a call with a
// non-literal argument (typed any); the expression was accepted, so it must stay accepted.
func c06FnResult(c *Case, a *c06Acc, env *c06Env, src string) {
	const dyn = "fromJSON(github.sha)"
	for _, jr := range c06JSONRoots {
		from := 0
		for {
			i := strings.Index(src[from:], jr.Name)
			if i < 0 {
				break
			}
			i += from
			from = i + len(jr.Name)
			mod := src[:i] + dyn + src[from:]
			got := c06Run(env, mod)
			a.Eval(1)
			a.Count("function_result_loosenings", 1)
			if got.Parse == "" && len(got.Errs) == 0 {
				continue
			}
			stable := got.Parse != ""
			if !stable {
				stable = true
				for k := 0; k < 3 && stable; k++ {
					b2, g2 := c06Run(env, src), c06Run(env, mod)
					a.Eval(2)
					stable = len(b2.Errs) == 0 && len(g2.Errs) > 0
				}
			}
			if !stable {
				a.Count("pairs_with_unstable_verdict_not_compared", 1)
				continue
			}
			first := got.Parse
			if first == "" {
				first = got.Errs[0]
			}
			c.Logf("  VIOLATED by function result: %s -> %s: %v", src, mod, got.Errs)
			c.Violation("C06:api-function-result:"+c06Class(first),
				fmt.Sprintf("expression %q is accepted, but not after the literal call %s (typed %s) is replaced by %s (typed any): %s", src, jr.Name, jr.T.String(), dyn, first),
				map[string]interface{}{"src": src, "src_loosened": mod, "G": env.Map(), "expected": "no error", "observed": got.Errs, "parse_error": got.Parse})
		}
	}
}

func c06KindWord(was string) string {
	switch {
	case strings.HasPrefix(was, "{"):
		return "object"
	case strings.HasPrefix(was, "array"):
		return "array"
	}
	return was
}

// ---------------------------------------------------------------------------
// grid family: every type up to nesting depth 2 over a small alphabet x fixed expression templates

var c06GridTemplates = []string{
	"$", "$.a", "$.b", "$.a.a", "$.a.b", "$['a']", "$['A']", "$.A", "$[0]", "$[0].a", "$[0][0]", "$[0]['a']",
	"$.*", "$.*.a", "$.*.a.a", "$.*.*", "$.a.*", "$.a.*.a", "$[0].*", "$.*[0]", "$.*.a[0]", "$.zz", "$['zz']", "$.a.zz",
	"$[inputs.s]", "$[inputs.n]", "$.a[inputs.n]", "$.a[inputs.s]", "$[$.a]", "$[$.b]", "inputs.l[$]", "inputs.o[$]", "inputs.l[$.a]", "inputs.o[$.a]",
	"$ == null", "$ == 'x'", "$ != 1", "$ == true", "$ == $", "$ == inputs.o", "$ == inputs.l", "inputs.o == $", "inputs.l != $", "inputs.ll == $", "'x' == $", "1 == $.a", "null == $",
	"$.a == 'x'", "$.a == $.b", "$.* == inputs.l", "$ < 1", "$ > 'a'", "$.a <= 2", "$[0] >= 1", "1 < $", "'a' >= $.a", "$.a < $.b",
	"!$", "!$.a", "$ && 'x'", "$ || 'x'", "$ && $.a", "($ || inputs.o).a", "($ || inputs.o).x", "($ && inputs.l)[0]", "($ || inputs.l).*", "($.a || 'x') == 'y'", "$ && 1 || 2", "($ && $.a || inputs.o) == inputs.o",
	"($ || inputs.so).x", "($ || inputs.so).a", "(inputs.so || $).a", "(inputs.ll || $)[0][0]", "!($ && inputs.n) || $.a",
	"contains($, 'x')", "contains($, $)", "contains($.a, 'x')", "contains($.*, 'x')", "contains('x', $)", "contains($.a, $.b)", "contains(inputs.l, $)",
	"startsWith($, 'x')", "startsWith('x', $.a)", "endsWith($.a, $.b)", "endsWith($[0], 'x')",
	"format('{0}', $)", "format('{0}{1}', $.a, $.b)", "format($, 1)", "format($.a, $)", "format('{0}', $.*)",
	"join($)", "join($, ',')", "join($.a)", "join($.*.a, $.b)", "join($.*)", "join($.a.*, ',')", "join(inputs.l, $)", "join($[0])",
	"toJSON($)", "toJSON($.a)", "fromJSON($)", "fromJSON($.a).x", "fromJSON($)[0].*", "hashFiles($)", "hashFiles($.a, $.b)", "hashFiles('x', $)",
	"$.a && $.b || $", "$.a.* && $.a.a", "$.* && $.a", "$.*.a && $[0]",
	"inputs.o[$.a || 'x']", "inputs.l[$.a || 0]", "inputs.o[$ && 'x']", "inputs.l[inputs.n && $]", "join($ || inputs.l)", "startsWith($ || 'x', 'y')", "($.a || inputs.n) < 3",
	"(inputs.o || $).a", "(inputs.o || $).b", "($ && inputs.o).a", "($ || inputs.o).b", "($.a || inputs.o).a", "($.a || inputs.o).b", "($.a && inputs.so).b", "(inputs.o && $ || inputs.so).b", "(inputs.l || $)[0].a", "(inputs.l || $.a)[0].a", "(inputs.s || $).a", "(inputs.n || $)[0]", "(inputs.b || $).a", "(null || $).a", "(inputs.so && $).b",
	"join(inputs.n && inputs.l || $)", "(inputs.s && inputs.o || $).a", "(!inputs.s || $).a",
	"(inputs.la || $).* && inputs.la.x", "($ || inputs.la).* && inputs.la.x", "(inputs.la || $.a).*.x && inputs.la.x",
}

func c06GridTypes() []*c06Ty {
	leaves := []c06Kind{c06Any, c06Null, c06Num, c06Bool, c06Str}
	L := func() []*c06Ty {
		var o []*c06Ty
		for _, k := range leaves {
			o = append(o, &c06Ty{K: k})
		}
		return o
	}
	var d1 []*c06Ty
	for _, l := range L() {
		d1 = append(d1, c06ArrOf(l), c06ObjOf(nil, "a", l), c06ObjOf(c06TAny, "a", l), c06ObjOf(l))
		for _, m := range L() {
			d1 = append(d1, c06ObjOf(nil, "a", l, "b", m))
		}
	}
	d1 = append(d1, c06ObjOf(nil), c06ObjOf(c06TAny))
	out := append(L(), d1...)
	for _, t := range d1 {
		out = append(out, c06ArrOf(t), c06ObjOf(nil, "a", t), c06ObjOf(t), c06ObjOf(c06TAny, "a", t))
		for _, m := range L() {
			out = append(out, c06ObjOf(nil, "a", t, "b", m))
		}
	}
	return out
}

func c06GridEnv(t *c06Ty, atRoot int) *c06Env {
	// inputs: s string, n number, b bool, o/so closed objects, l/ll/la arrays
	e := &c06Env{}
	for i, n := range c06CtxNames {
		switch {
		case i == atRoot:
			e.Ty = append(e.Ty, t.clone())
		case n == "matrix":
			e.Ty = append(e.Ty, c06ObjOf(nil, "v", t.clone()))
		case n == "inputs":
			e.Ty = append(e.Ty, c06ObjOf(nil, "s", c06TStr, "n", c06TNum, "b", c06TBool, "o", c06ObjOf(nil, "x", c06TStr), "so", c06ObjOf(nil, "a", c06TStr, "x", c06TNum),
				"l", c06ArrOf(c06TStr), "ll", c06ArrOf(c06ArrOf(c06TNum)), "la", c06ArrOf(c06TAny)).clone())
		default:
			e.Ty = append(e.Ty, c06ObjOf(nil))
		}
	}
	return e
}

// ---------------------------------------------------------------------------

func runC06(r *Run) {
	r.Rule = "level api: (G, e) pairs with G = object types for matrix/steps/needs/inputs/secrets/jobs (+ workflow_dispatch inputs) given to a fresh ExprSemanticsChecker and e a type-directed expression; for every pair accepted under G the checker is re-run under EVERY single loosening of G (each non-any type occurrence -> any, each closed object -> open with its properties kept, each object -> open object without known properties, each closed all-string object -> {string => string}). Families: grid = all types of nesting depth <= 2 over {any,null,number,bool,string} x fixed expression templates (exhaustive), random = generated environments (depth <= 3) x generated expressions. level lint: generated clean workflows (matrix rows/include, dispatch inputs, popular action outputs, job outputs, local reusable workflow/action) re-linted with one literal definition replaced by a dynamic or unknown one; build matrix shapes: plain, rows/nested arrays with conflicting literals, no rows with literal-typed include elements, rows plus include literals that conflict with the row or with each other (a key is any only through include; one include element - first/middle/last - or the include section replaced by an any-typed expression or an open object; an include element of closed string-object type becoming {string => string}), whole matrix given by ONE expression of closed object type (fromJSON literal with optional include/exclude members, declared job outputs) replaced by the same object opened with and without its keys, by {string => string}, by an any-typed expression, or by the literal with an include member that is not array<object>. Non-trivial = distinct (G, e) resp. (workflow, replacement) whose antecedent held (no diagnostic before loosening)."
	r.Assume("the checker is given every context and special function as available (SetContextAvailability / SetSpecialFunctionAvailability); availability is independent of the typing environment")
	r.Assume("environments respect the documented ObjectType invariant (properties of a map object are assignable to its mapped type)")
	r.Assume("verdicts are functions of (G, e): ObjectType.Merge folds new members into a non-any mapped type in map iteration order (Merge is not associative), so merges of a map object with an object adding two or more members are kept out of the generated environments/expressions, and a disagreement is reported only if it reproduces in three more identical runs")
	r.Assume("every run uses a fresh checker, freshly built (or deep-copied) type trees and a freshly parsed syntax tree, so the two runs of a pair share no state")

	var fams []*Family

	// grid
	types := c06GridTypes()
	fams = append(fams, &Family{Name: "api-grid", N: len(types), Do: func(c *Case) {
		t := types[c.Idx]
		a := c06NewAcc()
		defer a.flush(c)
		roots := []int{-1}
		if t.K == c06Obj {
			// the type as the whole steps / secrets context, and as `inputs` merged with closed
			// workflow_dispatch inputs (UpdateInputs then UpdateDispatchInputs)
			roots = append(roots, 1, 4, 3)
		}
		for _, root := range roots {
			env := c06GridEnv(t, root)
			env.Copy = (c.Idx+root)%2 == 0
			subj := "matrix.v"
			if root >= 0 {
				subj = c06CtxNames[root]
			}
			if root == 3 {
				env.Dispatch = c06ObjOf(nil, "zz", c06TStr)
			}
			sites := env.sites()
			for ti, tpl := range c06GridTemplates {
				src := strings.ReplaceAll(tpl, "$", subj)
				c06Pair(c, a, "grid", env, sites, src, c.Idx%97 == 5 && ti == c.Idx%len(c06GridTemplates) && root < 0)
			}
		}
	}})

	// random
	const perEnv = 20
	fams = append(fams, &Family{Name: "api-random", N: r.Q(1000, 50000), Do: func(c *Case) {
		env := c06GenEnv(c.R)
		a := c06NewAcc()
		defer a.flush(c)
		roots := make([]c06Root, 0, 24)
		for i, n := range c06CtxNames {
			roots = append(roots, c06Root{0, n, env.effective(i)})
		}
		if env.Dispatch != nil {
			gi := c06ObjOf(nil)
			for _, n := range env.Dispatch.Names {
				gi.Names = append(gi.Names, n)
				gi.Props = append(gi.Props, c06TStr)
			}
			roots = append(roots, c06Root{0, "github.event.inputs", gi})
		}
		roots = append(roots, c06BuiltinRoots()...)
		roots = append(roots, c06JSONRoots...)
		g := c06NewGen(c.R, roots, true, true)
		sites := env.sites()
		a.Count("environment_loosening_sites", len(sites))
		c.Logf("G: %s", env.String())
		for k := 0; k < perEnv; k++ {
			e := g.expr(c06PickWant(c.R), c.R.Range(1, 3))
			c06Pair(c, a, "random", env, sites, e.S, c.Idx < 3 && k == 0)
		}
	}})

	cleanup := c06SetupProject()
	defer cleanup()
	fams = append(fams, c06LintFamilies(r)...)
	debug.SetGCPercent(400) // allocation-heavy, short-lived type trees; the process runs only this monitor

	r.RunFamilies(fams)
	if r.ReplayOf != nil {
		return
	}
	r.SetExhaustive(true)
	r.Extra("exhaustive_bound", fmt.Sprintf("api-grid: all %d types of nesting depth <= 2 (members a/b) x %d expression templates x all single loosenings; the other families are sampled", len(types), len(c06GridTemplates)))

	// coverage floors
	if n := r.Counter("generator_parse_errors"); n > 0 {
		r.Inconclusive(fmt.Sprintf("the expression generator produced %d unparsable expressions", n))
	}
	pairs, acc := r.Counter("pairs"), r.Counter("pairs_accepted_under_G")
	r.Extra("accepted_fraction", fmt.Sprintf("%.3f", float64(acc)/float64(c06Max64(pairs, 1))))
	nRandom := int64(r.Q(1000, 50000) * perEnv)
	if ra := r.Counter("random_accepted"); ra*100 < nRandom*40 {
		r.Inconclusive(fmt.Sprintf("only %d of %d generated (G, e) pairs were accepted under G (floor 40%%)", ra, nRandom))
	}
	if r.Counter("grid_accepted") < 5000 {
		r.Inconclusive("grid family: too few pairs accepted under G")
	}
	if r.Counter("function_result_loosenings") < 200 {
		r.Inconclusive("too few function-result loosenings (fromJSON literal -> fromJSON of an unknown string)")
	}
	if r.Counter("loosened_runs_changing_result_type") < 1000 || r.Counter("loosened_runs_open-object") < 1000 || r.Counter("loosened_runs_object-to-open-empty") < 1000 || r.Counter("loosened_runs_string-object-to-string-map") < 200 {
		r.Inconclusive("too few loosenings had an observable effect / opened an object")
	}
	var missing []string
	for _, f := range []string{"property", "filter .*", "index ['literal']", "index [number]", "index [expression]", "!", "logical &&", "logical ||",
		"compare ==", "compare !=", "compare <", "compare <=", "compare >", "compare >=",
		"call contains", "call startswith", "call endswith", "call format", "call join", "call tojson", "call fromjson", "call hashfiles",
		"call success", "call always", "call cancelled", "call failure"} {
		if !r.SetHas("constructs_in_accepted_expressions", f) {
			missing = append(missing, f)
		}
	}
	if len(missing) > 0 {
		sort.Strings(missing)
		r.Inconclusive("constructs never seen in an accepted expression: " + strings.Join(missing, ", "))
	}
	for _, k := range []string{"number", "bool", "string", "null", "object", "array"} {
		if !r.SetHas("kinds_replaced_by_any", k) {
			r.Inconclusive("type kind never replaced by any: " + k)
		}
	}
	c06LintFloors(r)
}

func c06Max64(a, b int64) int64 {
	if a > b {
		return a
	}
	return b
}
