package main

// C09 — jobs, steps and expressions are checked independently (no state leaks).
//
// Metamorphic monitor. Independently generated jobs are composed into workflows in random orders
// and subsets (a job always together with the jobs it needs); the diagnostics are bucketed by job
// through the emitter's line ranges and compared, as multisets of (line relative to the job's
// first line, column, kind, message), with the workflow that contains only that job, the jobs it
// needs and the same header. The same is done for steps inside a job (steps that define an id keep
// their place; steps without an id are removed, moved and inserted) and for expressions in earlier
// strings (every node kind as A, plain accesses as B).

import (
	"fmt"
	"os"
	"path/filepath"
	"regexp"
	"sort"
	"strconv"
	"strings"

	"github.com/rhysd/actionlint"
)

func init() { registry["C09"] = runC09 }

// ---------------------------------------------------------------------------
// linting, bucketing, comparison

func c09ToolPath() string { return filepath.Join(binDir(), "faketool") }

// c09Lint lints src with a fresh Linter. With tools the fake tool stands in for shellcheck and
// pyflakes. The generated scripts never make the tool fail, so a fatal error can only come from the
// environment (process creation under load); it is retried and, if it persists, makes the run
// inconclusive instead of raising an alarm.
func c09Lint(src string, tools bool) ([]Diag, error) {
	opts := &actionlint.LinterOptions{}
	if tools {
		opts.Shellcheck = c09ToolPath()
		opts.Pyflakes = c09ToolPath()
	}
	var ds []Diag
	var err error
	for try := 0; try < 3; try++ {
		if ds, err = lintSrcOpts(src, opts); err == nil {
			return ds, nil
		}
	}
	return ds, err
}

// c09Region is a range of lines that belongs to one bucket.
type c09Region struct {
	Key   string
	Start int // first line (1-based)
	End   int // one past the last line
}

type c09Doc struct {
	Src     string
	Regions []c09Region // in source order, not overlapping
}

func (d *c09Doc) regionOf(line int) *c09Region {
	for i := range d.Regions {
		if line >= d.Regions[i].Start && line < d.Regions[i].End {
			return &d.Regions[i]
		}
	}
	return nil
}

var c09PosRe = regexp.MustCompile(`line:(\d+),col:(\d+)`)

// normMsg rewrites absolute positions quoted inside a message ("previously defined at
// line:7,col:9") into positions relative to the region they point into.
func (d *c09Doc) normMsg(msg string) string {
	if !strings.Contains(msg, "line:") {
		return msg
	}
	return c09PosRe.ReplaceAllStringFunc(msg, func(m string) string {
		sm := c09PosRe.FindStringSubmatch(m)
		ln, _ := strconv.Atoi(sm[1])
		if rg := d.regionOf(ln); rg != nil {
			return fmt.Sprintf("line:<%s>+%d,col:%s", rg.Key, ln-rg.Start, sm[2])
		}
		return "line:<outside>,col:" + sm[2]
	})
}

// buckets maps region key -> sorted multiset of normalised diagnostics. Diagnostics outside all
// regions (header, workflow level) go to the bucket "".
func (d *c09Doc) buckets(ds []Diag) map[string][]string {
	out := map[string][]string{}
	for _, rg := range d.Regions {
		out[rg.Key] = nil
	}
	for _, x := range ds {
		rg := d.regionOf(x.Line)
		if rg == nil {
			out[""] = append(out[""], x.String())
			continue
		}
		out[rg.Key] = append(out[rg.Key], fmt.Sprintf("+%d:%d: %s [%s]", x.Line-rg.Start, x.Col, d.normMsg(x.Msg), x.Kind))
	}
	for k := range out {
		sort.Strings(out[k])
	}
	return out
}

func c09Equal(a, b []string) bool {
	if len(a) != len(b) {
		return false
	}
	for i := range a {
		if a[i] != b[i] {
			return false
		}
	}
	return true
}

// c09Diff returns the multiset differences (only in a, only in b) of two sorted lists.
func c09Diff(a, b []string) (onlyA, onlyB []string) {
	i, j := 0, 0
	for i < len(a) && j < len(b) {
		switch {
		case a[i] == b[j]:
			i++
			j++
		case a[i] < b[j]:
			onlyA = append(onlyA, a[i])
			i++
		default:
			onlyB = append(onlyB, b[j])
			j++
		}
	}
	onlyA = append(onlyA, a[i:]...)
	onlyB = append(onlyB, b[j:]...)
	return
}

var c09QuotedRe = regexp.MustCompile(`"[^"]*"|'[^']*'|\d+`)
var c09KindRe = regexp.MustCompile(`\[([a-z-]+)\]$`)

// c09Sig derives a narrow, witness-independent signature from the differing diagnostics. The three
// leak mechanisms that are recognisable from the messages get a signature of their own (the same
// in every family); anything else is classed by family, rule kind and the leading words of the
// first differing message with quoted parts and numbers removed.
func c09Sig(fam string, onlyRef, onlyGot []string) string {
	pick := ""
	switch {
	case len(onlyRef) > 0:
		pick = onlyRef[0]
	case len(onlyGot) > 0:
		pick = onlyGot[0]
	}
	all := strings.Join(onlyRef, "\n") + "\n" + strings.Join(onlyGot, "\n")
	has := func(l []string, sub string) bool { return strings.Contains(strings.Join(l, "\n"), sub) }
	onlyExpr := true // every differing diagnostic comes from the expression rule
	for _, l := range [][]string{onlyRef, onlyGot} {
		for _, x := range l {
			if !strings.HasSuffix(x, "[expression]") {
				onlyExpr = false
			}
		}
	}
	switch {
	case !onlyExpr:
	case strings.Contains(all, "must be type of object but got \"array<") || strings.Contains(all, "as element of filtered array") || strings.Contains(all, "at object filtering must be type of object"):
		return "C09:object-filter-sets-deref-flag-on-shared-array-type"
	case strings.Contains(all, "property \"include\" is not defined") || strings.Contains(all, "property \"exclude\" is not defined"),
		has(onlyRef, "include: ") != has(onlyGot, "include: "), has(onlyRef, "exclude: ") != has(onlyGot, "exclude: "):
		return "C09:matrix-expression-deletes-include-exclude-from-shared-object-type"
	}
	kind := "unknown"
	if m := c09KindRe.FindStringSubmatch(pick); m != nil {
		kind = m[1]
	}
	msg := pick
	if i := strings.Index(msg, ": "); i >= 0 {
		msg = msg[i+2:]
	}
	msg = c09QuotedRe.ReplaceAllString(msg, "")
	words := strings.FieldsFunc(msg, func(c rune) bool { return !(c >= 'a' && c <= 'z' || c >= 'A' && c <= 'Z') })
	if len(words) > 7 {
		words = words[:7]
	}
	return "C09:" + fam + ":" + kind + ":" + strings.ToLower(strings.Join(words, "-"))
}

func c09HasYAMLError(ds []Diag) bool {
	for _, d := range ds {
		if strings.HasPrefix(d.Msg, "could not parse as YAML") {
			return true
		}
	}
	return false
}

// ---------------------------------------------------------------------------
// composition of jobs

func c09Compose(h *c09Header, jobs []*c09Job, order []int) *c09Doc {
	b := NewYB()
	for _, l := range h.Lines {
		b.L(0, l)
	}
	d := &c09Doc{}
	for _, i := range order {
		start := b.Pos().Line
		for _, l := range jobs[i].lines() {
			b.L(0, l)
		}
		d.Regions = append(d.Regions, c09Region{Key: jobs[i].ID, Start: start, End: b.Pos().Line})
	}
	d.Src = b.String()
	return d
}

// c09Observe lints doc `repeat` times and returns the buckets of the first run; any difference
// between the runs is reported (residual map-order effects).
func c09Observe(c *Case, fam string, d *c09Doc, tools bool, repeat int) (map[string][]string, bool) {
	var first map[string][]string
	for k := 0; k < repeat; k++ {
		ds, err := c09Lint(d.Src, tools)
		c.Eval(1)
		if err != nil {
			if tools {
				c.Count("fatal_errors_with_tools", 1)
				c.SetAdd("fatal_error_messages", truncate(err.Error(), 160))
			} else {
				c.Violation("C09:"+fam+":fatal-error", "linting a generated workflow without external tools returned a fatal error: "+err.Error(), map[string]interface{}{"src": d.Src})
			}
			return nil, false
		}
		if c09HasYAMLError(ds) {
			c.Violation("C09:"+fam+":generator-emitted-invalid-yaml", "monitor bug: the generator emitted a workflow that is not YAML", map[string]interface{}{"src": d.Src, "diags": diagStrings(ds)})
			return nil, false
		}
		bk := d.buckets(ds)
		if first == nil {
			first = bk
			continue
		}
		for _, rg := range d.Regions {
			if !c09Equal(first[rg.Key], bk[rg.Key]) {
				a, b := c09Diff(first[rg.Key], bk[rg.Key])
				c.Violation(c09Sig(fam+":repeat-differs", a, b), fmt.Sprintf("two runs over the same workflow reported different diagnostics for %q", rg.Key),
					map[string]interface{}{"src": d.Src, "bucket": rg.Key, "only_first_run": a, "only_later_run": b})
				return first, false
			}
		}
	}
	return first, true
}

// c09JobsCase: one composition of 2..6 jobs and its permutations / subsets.
func c09JobsCase(c *Case, fam string) {
	r := c.R
	g := &c09Gen{r: r}
	n := r.Range(2, 6)
	g.pickIDs(n)
	h := g.header()
	jobs := g.pool()
	tools := r.Chance(1, 3)
	const repeat = 3

	// reference: every job alone with the jobs it needs (pool order) and the same header
	ref := map[string][]string{}
	refSrc := map[string]string{}
	for i := range jobs {
		d := c09Compose(h, jobs, c09Closure(jobs, []int{i}))
		bk, ok := c09Observe(c, fam, d, tools, 1)
		if bk == nil || !ok {
			return
		}
		ref[jobs[i].ID] = bk[jobs[i].ID]
		refSrc[jobs[i].ID] = d.Src
	}
	nontrivial := 0
	for _, j := range jobs {
		if len(ref[j.ID]) > 0 {
			nontrivial++
		}
		for _, f := range j.Feats {
			c.SetAdd("job_features", f)
		}
		for _, x := range ref[j.ID] {
			if m := c09KindRe.FindStringSubmatch(x); m != nil {
				c.SetAdd("diag_kinds", m[1])
				c.Count("kind_"+m[1], 1)
			}
		}
	}
	if tools {
		c.Count("compositions_with_tools", 1)
	}

	check := func(what string, order []int) bool {
		d := c09Compose(h, jobs, order)
		bk, ok := c09Observe(c, fam, d, tools, repeat)
		if bk == nil || !ok {
			return false
		}
		c.Count("job_buckets_compared", len(order))
		for k := 0; k+1 < len(order); k++ {
			a, b := jobs[order[k]], jobs[order[k+1]]
			for _, st := range c09States {
				if a.has(st) && !b.has(st) && b.observes(st) {
					c.SetAdd("adjacent_random", st+":"+c09Kind(a)+">"+c09Kind(b))
				}
			}
		}
		for _, i := range order {
			id := jobs[i].ID
			if c09Equal(bk[id], ref[id]) {
				continue
			}
			onlyRef, onlyGot := c09Diff(ref[id], bk[id])
			var ids []string
			for _, k := range order {
				ids = append(ids, jobs[k].ID)
			}
			c.Logf("job %q differs in %s (order %v)\n  only alone: %q\n  only composed: %q\n--- composed\n%s\n--- alone\n%s", id, what, ids, onlyRef, onlyGot, d.Src, refSrc[id])
			c.Violation(c09Sig("job", onlyRef, onlyGot),
				fmt.Sprintf("diagnostics of job %q differ between the composed workflow (%s, jobs %v) and the workflow with only that job and the jobs it needs", id, what, ids),
				map[string]interface{}{"src": d.Src, "src_alone": refSrc[id], "job": id, "order": ids, "tools": tools,
					"expected_only_alone": onlyRef, "observed_only_composed": onlyGot})
			return false
		}
		return true
	}

	all := r.Perm(n)
	if !check("all jobs, random order", all) {
		return
	}
	for v := 0; v < 4; v++ {
		var order []int
		switch v {
		case 0: // another permutation of all jobs
			order = r.Perm(n)
		case 1: // reverse pool order
			for i := n - 1; i >= 0; i-- {
				order = append(order, i)
			}
		default: // random needs-closed subset in random order
			var roots []int
			for i := 0; i < n; i++ {
				if r.Chance(1, 2) {
					roots = append(roots, i)
				}
			}
			if len(roots) == 0 {
				roots = []int{r.Intn(n)}
			}
			cl := c09Closure(jobs, roots)
			for _, p := range r.Perm(len(cl)) {
				order = append(order, cl[p])
			}
		}
		if !check(fmt.Sprintf("variant %d", v), order) {
			return
		}
	}
	if nontrivial > 0 {
		c.Nontrivial(fam + "|" + c09Compose(h, jobs, all).Src)
		c.Count("compositions_with_diagnostics", 1)
	}
	if c.Idx == 0 {
		d := c09Compose(h, jobs, all)
		ds, _ := c09Lint(d.Src, tools)
		c.Sample(map[string]interface{}{"family": fam, "src": d.Src, "tools": tools, "diags": diagStrings(ds)})
	}
}

func c09Kind(j *c09Job) string {
	if j.has("call-job") {
		return "call"
	}
	return "steps"
}

// ---------------------------------------------------------------------------
// adjacent pairs: for every piece of per-job state and every job kind, a job WITH the state is
// directly followed by a job WITHOUT it that observes it

type c09Pair struct {
	State                string
	LeadCall, FollowCall bool
}

func c09KindName(call bool) string {
	if call {
		return "call"
	}
	return "steps"
}

func (p c09Pair) key() string {
	return p.State + ":" + c09KindName(p.LeadCall) + ">" + c09KindName(p.FollowCall)
}

func c09Pairs() []c09Pair {
	var out []c09Pair
	for _, st := range c09States {
		for _, lc := range []bool{false, true} {
			for _, fc := range []bool{false, true} {
				if st == "stepids" && lc {
					continue // a call job has no steps
				}
				if (st == "shell" || st == "windows") && fc {
					continue // a call job has no script whose shell could be observed
				}
				out = append(out, c09Pair{st, lc, fc})
			}
		}
	}
	return out
}

func c09WantFor(state string, v int, w *c09Want) {
	switch state {
	case "matrix":
		w.Matrix = v
	case "stepids":
		w.StepIDs = v
	case "shell":
		w.Shell = v
	case "windows":
		w.Windows = v
	case "container":
		w.Container = v
	case "services":
		w.Services = v
	case "env":
		w.Env = v
	case "permissions":
		w.Permissions = v
	case "concurrency":
		w.Concurrency = v
	}
}

func c09PairsCase(c *Case, fam string) {
	r := c.R
	pairs := c09Pairs()
	p := pairs[c.Idx%len(pairs)]
	g := &c09Gen{r: r, noShell: true}
	g.pickIDs(4)
	h := g.header()
	boolWant := func(b bool) int {
		if b {
			return 1
		}
		return -1
	}
	// job 0: anything; job 1: the leader WITH the state; job 2: the follower WITHOUT it; job 3: anything
	jobs := []*c09Job{g.job(0, nil)}
	lw := c09Want{Call: boolWant(p.LeadCall)}
	c09WantFor(p.State, 1, &lw)
	var ldeps []int
	if p.State == "needs" {
		ldeps = []int{0}
	}
	jobs = append(jobs, g.jobWant(1, ldeps, lw))
	fw := c09Want{Call: boolWant(p.FollowCall), Observe: p.State}
	c09WantFor(p.State, -1, &fw)
	jobs = append(jobs, g.jobWant(2, nil, fw))
	jobs = append(jobs, g.job(3, nil))
	lead, fol := jobs[1], jobs[2]
	if !lead.has(p.State) || fol.has(p.State) || c09Kind(lead) != c09KindName(p.LeadCall) || c09Kind(fol) != c09KindName(p.FollowCall) {
		c.Violation("C09:pairs:monitor-bug-pair-not-as-requested", "monitor bug: the generator did not produce the requested leader / follower",
			map[string]interface{}{"pair": p.key(), "leader": lead.lines(), "leader_feats": lead.Feats, "follower": fol.lines(), "follower_feats": fol.Feats})
		return
	}
	tools := p.State == "shell" || p.State == "windows" || r.Chance(1, 3)

	ref := map[string][]string{}
	refSrc := map[string]string{}
	for i := range jobs {
		d := c09Compose(h, jobs, c09Closure(jobs, []int{i}))
		bk, ok := c09Observe(c, fam, d, tools, 1)
		if bk == nil || !ok {
			return
		}
		ref[jobs[i].ID] = bk[jobs[i].ID]
		refSrc[jobs[i].ID] = d.Src
	}
	c.SetAdd("adjacent_pairs", p.key())
	pat := ""
	switch p.State {
	case "matrix", "stepids", "needs":
		pat = "is not defined in object type {}"
	case "shell", "windows":
		pat = "shellcheck reported issue"
	}
	if pat != "" && strings.Contains(strings.Join(ref[fol.ID], "\n"), pat) {
		c.SetAdd("adjacent_pairs_observed", p.key())
	}
	c.Nontrivial(fam + "|" + refSrc[fol.ID])
	for v, order := range [][]int{{0, 1, 2, 3}, {1, 2}, {2, 1}, {3, 1, 2, 0}, {1, 0, 2}} {
		if p.State == "needs" && v != 0 && v != 3 {
			order = append([]int{0}, order...) // the leader needs job 0
			if v == 4 {
				order = []int{0, 1, 2}
			}
		}
		d := c09Compose(h, jobs, order)
		bk, ok := c09Observe(c, fam, d, tools, 2)
		if bk == nil || !ok {
			return
		}
		c.Count("pair_buckets_compared", len(order))
		for _, i := range order {
			id := jobs[i].ID
			if c09Equal(bk[id], ref[id]) {
				continue
			}
			onlyRef, onlyGot := c09Diff(ref[id], bk[id])
			var ids []string
			for _, k := range order {
				ids = append(ids, jobs[k].ID)
			}
			c.Logf("pair %s: job %q differs in order %v\n  only alone: %q\n  only composed: %q\n--- composed\n%s\n--- alone\n%s", p.key(), id, ids, onlyRef, onlyGot, d.Src, refSrc[id])
			c.Violation(c09Sig("job", onlyRef, onlyGot),
				fmt.Sprintf("diagnostics of job %q differ between the composed workflow (pair %s, order %d, jobs %v) and the workflow with only that job and the jobs it needs", id, p.key(), v, ids),
				map[string]interface{}{"src": d.Src, "src_alone": refSrc[id], "job": id, "order": ids, "pair": p.key(), "tools": tools,
					"expected_only_alone": onlyRef, "observed_only_composed": onlyGot})
			return
		}
	}
	if c.Idx == 0 {
		c.Sample(map[string]interface{}{"family": fam, "pair": p.key(), "src": c09Compose(h, jobs, []int{0, 1, 2, 3}).Src, "tools": tools})
	}
}

// ---------------------------------------------------------------------------
// steps inside one job

func c09ComposeSteps(h *c09Header, pre []*c09Job, j *c09Job, steps []*c09Step) *c09Doc {
	b := NewYB()
	for _, l := range h.Lines {
		b.L(0, l)
	}
	for _, p := range pre {
		for _, l := range p.lines() {
			b.L(0, l)
		}
	}
	d := &c09Doc{}
	start := b.Pos().Line
	for _, l := range j.Head {
		b.L(0, l)
	}
	d.Regions = append(d.Regions, c09Region{Key: "head", Start: start, End: b.Pos().Line})
	for _, s := range steps {
		start := b.Pos().Line
		for _, l := range s.Lines {
			b.L(0, l)
		}
		d.Regions = append(d.Regions, c09Region{Key: fmt.Sprintf("step#%d", s.Tag), Start: start, End: b.Pos().Line})
	}
	d.Src = b.String()
	return d
}

func c09StepsCase(c *Case, fam string) {
	r := c.R
	g := &c09Gen{r: r}
	// a job that may need one earlier job; the earlier job is kept unchanged in every variant
	np := r.Range(1, 2)
	g.pickIDs(np)
	h := g.header()
	var pool []*c09Job
	for {
		pool = g.pool()
		if len(pool[np-1].Steps) > 0 {
			break
		}
	}
	j := pool[np-1]
	pre := pool[:np-1]
	// make the step list longer
	for len(j.Steps) < 4 || r.Chance(1, 2) && len(j.Steps) < 9 {
		j.Steps = append(j.Steps, g.step(len(j.Steps), -1))
	}
	tools := r.Chance(1, 3)
	base := c09ComposeSteps(h, pre, j, j.Steps)
	ref, ok := c09Observe(c, fam, base, tools, 1)
	if ref == nil || !ok {
		return
	}
	nd := 0
	for _, s := range j.Steps {
		nd += len(ref[fmt.Sprintf("step#%d", s.Tag)])
	}
	if nd > 0 {
		c.Nontrivial(fam + "|" + base.Src)
		c.Count("step_lists_with_diagnostics", 1)
	}
	nextTag := 100
	for v := 0; v < 4; v++ {
		var steps []*c09Step
		what := ""
		switch v {
		case 0: // remove steps that define no id (at least one step stays)
			what = "steps without id removed"
			for _, s := range j.Steps {
				if s.ID != "" || r.Chance(1, 2) {
					steps = append(steps, s)
				}
			}
			if len(steps) == 0 {
				steps = append(steps, j.Steps[0])
			}
		case 1: // move steps without id inside their segment between id-defining steps
			what = "steps without id reordered between the surrounding id-defining steps"
			var seg []*c09Step
			flush := func() {
				for _, p := range r.Perm(len(seg)) {
					steps = append(steps, seg[p])
				}
				seg = nil
			}
			for _, s := range j.Steps {
				if s.ID != "" {
					flush()
					steps = append(steps, s)
				} else {
					seg = append(seg, s)
				}
			}
			flush()
		case 2: // insert fresh steps without id
			what = "steps without id inserted"
			for _, s := range j.Steps {
				if r.Chance(1, 2) {
					steps = append(steps, g.step(nextTag, 0))
					nextTag++
				}
				steps = append(steps, s)
			}
			steps = append(steps, g.step(nextTag, 0))
			nextTag++
		default: // only the id-defining steps and one other
			what = "all but one step without id removed"
			keep := r.Intn(len(j.Steps))
			for i, s := range j.Steps {
				if s.ID != "" || i == keep {
					steps = append(steps, s)
				}
			}
		}
		d := c09ComposeSteps(h, pre, j, steps)
		bk, ok := c09Observe(c, fam, d, tools, 1)
		if bk == nil || !ok {
			return
		}
		keys := []string{"head"}
		for _, s := range steps {
			if s.Tag < 100 {
				keys = append(keys, fmt.Sprintf("step#%d", s.Tag))
			}
		}
		c.Count("step_buckets_compared", len(keys))
		for _, k := range keys {
			if c09Equal(bk[k], ref[k]) {
				continue
			}
			onlyRef, onlyGot := c09Diff(ref[k], bk[k])
			c.Logf("bucket %s differs (%s)\n  only base: %q\n  only variant: %q\n--- base\n%s\n--- variant\n%s", k, what, onlyRef, onlyGot, base.Src, d.Src)
			c.Violation(c09Sig("step", onlyRef, onlyGot),
				fmt.Sprintf("diagnostics of %s changed when %s (every step that defines an id was kept in place)", k, what),
				map[string]interface{}{"src_base": base.Src, "src": d.Src, "bucket": k, "tools": tools, "expected_only_base": onlyRef, "observed_only_variant": onlyGot})
			return
		}
	}
	if c.Idx == 0 {
		c.Sample(map[string]interface{}{"family": fam, "src": base.Src, "tools": tools, "diags_per_bucket": ref})
	}
}

// ---------------------------------------------------------------------------
// the process-global context table (serial family: it may write into package-level state)

func c09GlobalCase(c *Case, fam string) {
	r := c.R
	uniq := fmt.Sprintf("s%dc%d%s", c.Seed, c.Idx, map[bool]string{true: "t", false: "q"}[c.Thorough()])
	h := &c09Header{Lines: []string{"on: push", "jobs:"}}
	// the writer: matrix whose first include element is typed as github.event (a loose object that
	// lives in the package-level table), followed by literal assignments
	w := &c09Job{ID: "writer"}
	wl := func(n int, s string) { w.Head = append(w.Head, c09Indent(n, s)) }
	wl(2, "writer:")
	wl(4, "runs-on: ubuntu-latest")
	wl(4, "strategy:")
	k, o := "c09k"+uniq, "c09o"+uniq
	variant := c.Idx % 8
	switch variant {
	case 0: // first include element is github.event, then literal assignments
		wl(6, "matrix:")
		wl(8, "include:")
		wl(10, "- ${{ github.event }}")
		wl(10, "- "+k+": [1, 2]")
		wl(10, "  "+o+": {a: 1}")
	case 1: // the same through an index access, assignments in separate elements
		wl(6, "matrix:")
		wl(8, "include:")
		wl(10, "- ${{ github['event'] }}")
		wl(10, "- "+k+": {a: 1}")
		wl(10, "- "+o+": [[1]]")
	case 2: // the whole matrix
		wl(6, "matrix: ${{ github.event }}")
	case 3: // rows first, then the element
		wl(6, "matrix:")
		wl(8, k+": [[1, 2]]")
		wl(8, "include:")
		wl(10, "- ${{ github.event }}")
		wl(10, "- "+o+": {a: 1}")
	case 4: // two expression elements, then literal assignments
		wl(6, "matrix:")
		wl(8, "include:")
		wl(10, "- ${{ github.event }}")
		wl(10, "- ${{ github.event.repository }}")
		wl(10, "- "+k+": [1, 2]")
		wl(10, "  "+o+": {a: 1}")
	case 5: // a loose object built from the global one
		wl(6, "matrix:")
		wl(8, "include:")
		wl(10, "- ${{ github.event || github.event }}")
		wl(10, "- "+k+": [1, 2]")
		wl(10, "- "+o+": {a: 1}")
	case 6: // the whole github context as matrix and as element
		wl(6, "matrix:")
		wl(8, "include:")
		wl(10, "- ${{ github }}")
		wl(10, "- "+k+": [1, 2]")
		wl(10, "  event: {"+o+": {a: 1}}")
	default: // include / exclude given by the global object, rows typed from it
		wl(6, "matrix:")
		wl(8, k+": ${{ github.event }}")
		wl(8, "include: ${{ github.event }}")
		wl(8, "exclude: ${{ github.event }}")
	}
	wl(4, "steps:")
	w.Steps = []*c09Step{{Lines: []string{"      - run: echo ${{ toJSON(matrix." + k + ") }} ${{ github.event." + k + " }}"}, Tag: 0}}
	rd := &c09Job{ID: "reader"}
	rl := func(n int, s string) { rd.Head = append(rd.Head, c09Indent(n, s)) }
	rl(2, "reader:")
	rl(4, "runs-on: ubuntu-latest")
	rl(4, "steps:")
	rd.Steps = []*c09Step{
		{Lines: []string{"      - run: echo ${{ github.event." + k + " }} ${{ github.event." + o + " }}"}, Tag: 0},
		{Lines: []string{"      - run: echo ${{ github.event." + k + ".a.b }}", "        if: github.event." + o + " == 1"}, Tag: 1},
		{Lines: []string{"      - run: echo ${{ github." + k + " }}", "        env:", "          X: ${{ github.event.include }} ${{ github.event.exclude.a }}"}, Tag: 2},
	}
	jobs := []*c09Job{w, rd}
	alone := c09Compose(h, jobs, []int{1})
	before, ok := c09Observe(c, fam, alone, false, 1)
	if before == nil || !ok {
		return
	}
	order := []int{0, 1}
	if r.Bool() {
		order = []int{1, 0}
	}
	comp := c09Compose(h, jobs, order)
	got, ok := c09Observe(c, fam, comp, false, 1)
	if got == nil || !ok {
		return
	}
	after, ok := c09Observe(c, fam, alone, false, 1)
	if after == nil || !ok {
		return
	}
	c.Nontrivial(fam + "|" + comp.Src)
	c.Count("global_table_cases", 1)
	c.SetAdd("global_table_variants", fmt.Sprint(variant))
	for _, x := range []struct {
		what string
		bk   []string
		src  string
	}{{"in the workflow that also contains job \"writer\"", got["reader"], comp.Src}, {"in a later run of a fresh Linter over the workflow with only job \"reader\"", after["reader"], alone.Src}} {
		if c09Equal(before["reader"], x.bk) {
			continue
		}
		onlyRef, onlyGot := c09Diff(before["reader"], x.bk)
		c.Logf("reader differs %s\n  only before: %q\n  only after: %q\n--- writer workflow\n%s", x.what, onlyRef, onlyGot, comp.Src)
		c.Violation("C09:matrix-include-writes-into-global-context-table",
			"diagnostics of job \"reader\" differ "+x.what+" (state written into a package-level table while checking job \"writer\")",
			map[string]interface{}{"src_alone": alone.Src, "src_with_writer": comp.Src, "src": x.src, "expected_as_before": before["reader"], "expected_only_before": onlyRef, "observed_only_after": onlyGot})
		return
	}
}

// ---------------------------------------------------------------------------

func runC09(r *Run) {
	r.Rule = "jobs: a header plus 2-6 independently generated jobs (own matrix with scalar/array/object rows, include/exclude, whole-matrix expressions, default shells, windows/linux/self-hosted label sets, container/services, env, if, outputs, needs on earlier jobs, popular actions with missing/extra inputs, untrusted inputs in scripts, parse-level defects; names drawn from small shared pools) composed in a random order, 4 further permutations / needs-closed subsets, each linted 3 times; per-job buckets compared with the workflow holding only that job + the jobs it needs. steps: one job, steps without id removed / moved between the surrounding id-defining steps / inserted. exprs: every (A, position of A) x all B accesses, with A against a neutral literal. Half of the job/step cases run with the fake tool as shellcheck and pyflakes (scripts carry FT:issues=k markers). Non-trivial = distinct generated workflow whose compared buckets hold at least one diagnostic."
	r.Assume("the text of a job is emitted identically in every composition, so only its first line differs")
	r.Assume("workflow-level diagnostics (header lines, needs cycles) are outside all buckets and not compared")
	r.Assume("local actions and local reusable workflows (once-per-run metadata reports) are not generated")

	if _, err := os.Stat(c09ToolPath()); err != nil {
		r.Inconclusive("fake tool binary not found at " + c09ToolPath())
		return
	}

	fams := []*Family{
		{Name: "jobs-compose", N: r.Q(500, 30000), Do: func(c *Case) { c09JobsCase(c, "jobs-compose") }},
		{Name: "adjacent-pairs", N: len(c09Pairs()) * r.Q(6, 150), Do: func(c *Case) { c09PairsCase(c, "adjacent-pairs") }},
		{Name: "steps-vary", N: r.Q(500, 20000), Do: func(c *Case) { c09StepsCase(c, "steps-vary") }},
	}
	fams = append(fams, c09ExprFamilies(r)...)
	fams = append(fams, c09SibFamilies(r)...)
	localRoot, localProblem := c09LocalSetup()
	if localProblem != "" {
		r.Inconclusive(localProblem)
	} else {
		defer os.RemoveAll(localRoot)
		fams = append(fams, &Family{Name: "broken-callees", N: len(c09BrokenCallees) * r.Q(10, 200), Do: func(c *Case) { c09BrokenCase(c, "broken-callees", localRoot) }})
		fams = append(fams, &Family{Name: "local-specs", N: r.Q(400, 8000), Do: func(c *Case) { c09LocalCase(c, "local-specs", localRoot) }})
	}
	fams = append(fams, &Family{Name: "global-table", N: r.Q(8, 40), Serial: true, Do: func(c *Case) { c09GlobalCase(c, "global-table") }})
	r.RunFamilies(fams)
	if r.ReplayOf != nil {
		return
	}

	if n := r.Counter("fatal_errors_with_tools"); n > 0 {
		r.Inconclusive(fmt.Sprintf("%d runs with the fake tool ended with a fatal error three times in a row (environment problem, see fatal_error_messages)", n))
	}
	// coverage floors
	only := os.Getenv("VERIF_ONLY_FAMILY")
	if only == "" || only == "jobs-compose" {
		for _, k := range []string{"expression", "shellcheck", "pyflakes", "runner-label", "shell-name", "id", "action", "matrix", "syntax-check", "if-cond", "env-var", "credentials"} {
			if !r.SetHas("diag_kinds", k) {
				r.Inconclusive("no job ever produced a diagnostic of kind " + k)
			}
		}
		for _, f := range []string{"matrix", "windows", "labels-multi", "job-shell:python", "container", "services", "matrix-include", "call-job", "no-runs-on"} {
			if !r.SetHas("job_features", f) {
				r.Inconclusive("job feature never generated: " + f)
			}
		}
		if r.Counter("compositions_with_diagnostics") < int64(r.Q(200, 10000)) {
			r.Inconclusive("too few compositions with diagnostics")
		}
	}
	if only == "" || only == "adjacent-pairs" {
		for _, p := range c09Pairs() {
			if !r.SetHas("adjacent_pairs", p.key()) {
				r.Inconclusive("no composition where a job with state " + p.key() + " is directly followed by a job without it")
			}
			switch p.State {
			case "matrix", "stepids", "needs", "shell", "windows":
				if !r.SetHas("adjacent_pairs_observed", p.key()) {
					r.Inconclusive("the follower of pair " + p.key() + " never produced the diagnostic that depends on the state")
				}
			}
		}
	}
	if only == "" || only == "jobs-compose" {
		for _, k := range []string{"matrix:steps>steps", "matrix:steps>call", "matrix:call>steps", "matrix:call>call", "needs:steps>steps", "stepids:steps>steps", "shell:steps>steps"} {
			if !r.SetHas("adjacent_random", k) {
				r.Inconclusive("random compositions never put a job with state directly before an observing job without it: " + k)
			}
		}
	}
	if only == "" || only == "expr-pairs" {
		if r.Counter("unkeyed_probe_reports") < 500 {
			r.Inconclusive("too few expression-pair cases whose probe at a place without workflow key (shell:) was reported")
		}
	}
	if only == "" || only == "sibling-keys" {
		if n := len(c09SibGroups()); r.SetLen("sibling_groups") < n {
			r.Inconclusive("not every sibling-key mapping was exercised")
		}
		if r.Counter("sibling_targets_with_diagnostics") < 40 {
			r.Inconclusive("too few observed keys with diagnostics of their own")
		}
	}
	if localProblem == "" && (only == "" || only == "broken-callees") {
		if r.SetLen("broken_callees") < len(c09BrokenCallees) || r.SetLen("broken_callees_reported") < len(c09BrokenCallees)-1 {
			r.Inconclusive("not every kind of broken callee was used and reported")
		}
		if r.SetLen("broken_users_per_callee") < 3 {
			r.Inconclusive("broken callees were not used by 1, 2 and 3 jobs")
		}
		for _, k := range []string{"workflow_dependant_before_first_user", "workflow_dependant_only_after", "workflow_no_dependant", "action_dependant_before_first_user", "action_dependant_only_after", "action_no_dependant"} {
			if r.Counter("broken_"+k) < int64(r.Q(40, 800)) {
				r.Inconclusive("too few orderings of the class " + k)
			}
		}
	}
	if localProblem == "" && (only == "" || only == "local-specs") {
		if r.SetLen("local_specs") < len(c09LocalActionSpecs)+len(c09LocalWorkflowSpecs) {
			r.Inconclusive("not every spelling of a local action / workflow spec was used")
		}
		for _, k := range []string{"case", "same-name-other-dir", "same-dir-other-spelling"} {
			if r.Counter("local_runs_with_"+k+"_pairs") < int64(r.Q(40, 800)) {
				r.Inconclusive("too few runs that use two specs of the class " + k + " together")
			}
		}
		if r.Counter("local_cases_with_diagnostics") < int64(r.Q(200, 4000)) {
			r.Inconclusive("too few local-spec cases with diagnostics")
		}
	}
	if only == "" || only == "expr-pairs" {
		if want := map[bool]int{true: c09NumPos + c09NumMPos, false: c09NumPos}[only == ""]; r.SetLen("A_positions") < want {
			r.Inconclusive("not every position of A was exercised")
		}
		if r.Counter("same_scalar_compared") < 50 {
			r.Inconclusive("too few comparisons of A and B inside one scalar")
		}
	}
	if only == "" && r.SetLen("global_table_variants") < 8 {
		r.Inconclusive("global-table family did not run")
	}
	if only == "" || only == "steps-vary" {
		if r.Counter("step_lists_with_diagnostics") < int64(r.Q(200, 8000)) {
			r.Inconclusive("too few step lists with diagnostics")
		}
	}
}
