package main

// C07 — the four construct builders (expression, key, value, glob character).

import (
	"strings"
)

type c07Catalogue struct {
	exprErrs  []c07ExprErr
	exprSites []c07ExprSite
	keySites  []c07KeySite
	valSites  []c07ValSite
	globErrs  []c07GlobErr
}

func c07NewCatalogue() *c07Catalogue {
	return &c07Catalogue{
		exprErrs:  c07ExprCatalogue(),
		exprSites: c07ExprSites(),
		keySites:  c07KeySites(),
		valSites:  c07ValSites(),
		globErrs:  c07GlobErrs(),
	}
}

func c07Spaces(n int) string { return strings.Repeat(" ", n) }

// c07FillerOfLen returns a clean placeholder of exactly n >= 6 characters.
func c07FillerOfLen(r *Rand, n int, noctx bool) string {
	// "${{" + blanks + body + blanks + "}}"
	bodies := []string{"0", "true", "github.sha", "1 == 1"}
	if noctx {
		bodies[2] = "1.5"
	}
	body := bodies[r.Intn(len(bodies))]
	for len(body)+5 > n {
		body = "0"
	}
	rest := n - 5 - len(body)
	left := r.Intn(rest + 1)
	return "${{" + c07Spaces(left) + body + c07Spaces(rest-left) + "}}"
}

func c07BuildExpr(b *c07Built, w *c07WF, rr *Rand, sh c07Shift, cat *c07Catalogue, wantFlow *bool) {
	// the diagnostic class is drawn first, then a site that can host it, then the entry, so that
	// every class gets the same share of the cases
	classes := []string{"lexer", "lexer-eof", "parser", "sema-var", "sema-func", "sema-prop", "sema-type", "sema-arg", "sema-arg", "sema-sub", "sema-not", "sema-not", "avail", "untrusted", "template"}
	want := classes[rr.Intn(len(classes))]
	var pool []*c07ExprErr
	for i := range cat.exprErrs {
		if cat.exprErrs[i].class == want {
			pool = append(pool, &cat.exprErrs[i])
		}
	}
	ee := pool[rr.Intn(len(pool))]
	type sm struct {
		site *c07ExprSite
		mode string
	}
	var fits []sm
	for i := range cat.exprSites {
		st := &cat.exprSites[i]
		nc := c07HasTag(st.tags, "nocontext") // every context is reported at this position
		if ee.tag != "" && ee.tag != "bareonly" && !c07HasTag(st.tags, ee.tag) {
			continue
		}
		if nc && (strings.Contains(ee.text(), "github") || ee.class == "template") {
			continue
		}
		if strings.Contains(st.name, "filter+expr") && strings.ContainsAny(ee.text(), "[]") {
			continue // a bracket in the expression text is a glob diagnostic of its own in a filter pattern
		}
		if st.tight && (strings.Contains(ee.text(), " ") || ee.class == "template" || ee.class == "lexer-eof") {
			continue // nothing but the expression itself may add blanks (each one is a diagnostic of its own there)
		}
		for _, md := range st.modes {
			if ee.class == "template" && md != "emb" {
				continue
			}
			if (ee.tag == "bareonly") != (md == "bare") && ee.tag == "bareonly" {
				continue
			}
			if md == "bare" && ee.end && ee.pre == "" {
				continue // an empty condition is another diagnostic
			}
			fits = append(fits, sm{st, md})
		}
	}
	pick := rr.Intn(1 << 20)
	if len(fits) == 0 {
		b.ok, b.why = false, "no site for "+ee.text()
		return
	}
	if (ee.end || ee.class == "lexer-eof" || ee.tag == "bareonly") && (pick>>12)%3 == 0 {
		// diagnostics at the end of input have no absolute convention in a bare condition: make sure
		// the bare placements get a fair share (they are 5 of ~110 placements)
		var bare []sm
		for _, f := range fits {
			if f.mode == "bare" {
				bare = append(bare, f)
			}
		}
		if len(bare) > 0 {
			fits = bare
		}
	}
	if (pick>>16)%8 == 0 {
		// a fixed share for the sites with non-ASCII text earlier on the line
		var us []sm
		for _, f := range fits {
			if strings.HasPrefix(f.site.name, "u.") {
				us = append(us, f)
			}
		}
		if len(us) > 0 {
			fits = us
		}
	} else if (pick>>8)%5 == 0 {
		// a fixed share for the sites that hold two constructs of different rules in one scalar
		var pairs []sm
		for _, f := range fits {
			if f.site.decoMsg != "" {
				pairs = append(pairs, f)
			}
		}
		if len(pairs) > 0 {
			fits = pairs
		}
	}
	site, mode := fits[pick%len(fits)].site, fits[pick%len(fits)].mode
	noctx := c07HasTag(site.tags, "nocontext")
	wr := c07Wrapper{}
	wdraw := rr.Intn(len(c07Wrappers))
	if ee.wrap {
		wr = c07Wrappers[wdraw]
		if noctx && strings.Contains(wr.pre+wr.post, "github") {
			wr = c07Wrapper{"(", ")"}
		}
	} else if ee.tag == "bareonly" {
		// no wrapper: an opening parenthesis would be reported first
	} else if ee.class == "lexer" || ee.class == "parser" || ee.class == "lexer-eof" {
		// only text before the error matters
		pre := []string{"", "", "(", "true && ", "contains(1, ", "!"}
		wr = c07Wrapper{pre[wdraw%len(pre)], ""}
		if ee.msg == "parser did not reach end of input" || strings.HasPrefix(ee.bad, ") ") {
			wr = c07Wrapper{} // an opening parenthesis would turn these into other errors
			if wdraw%2 == 0 {
				wr = c07Wrapper{"true && ", ""}
			}
		}
	}
	if site.tight {
		wr = c07Wrapper{}
	}
	ws1 := rr.Intn(4)
	ws2 := rr.Intn(3)
	if rr.Intn(3) != 0 {
		ws1, ws2 = 1, 1
	}
	// blanks inside the quotes before / after everything else (0-6)
	lead, trail := 0, 0
	if rr.Intn(3) == 0 {
		lead = rr.Range(1, 6)
	}
	if rr.Intn(4) == 0 {
		trail = rr.Range(1, 4)
	}
	if site.noInner {
		lead, trail = 0, 0
	} else if sh.kind == "innerspace" {
		lead += sh.k
	}
	nText0 := rr.Intn(41)
	if rr.Intn(3) == 0 {
		nText0 = 0
	}
	nPh := rr.Intn(4)
	if rr.Intn(2) == 0 {
		nPh = 0
	}
	nTrail := rr.Intn(8)
	if rr.Intn(2) == 0 {
		nTrail = 0
	}
	if site.tight {
		ws1, ws2, nText0, nPh, nTrail = 0, 0, 0, 0, 0
	}
	textSub, phSub, trailSub := rr.Sub(11), rr.Sub(12), rr.Sub(13)
	exprText := wr.pre + ee.pre + ee.bad + ee.post + wr.post
	anchorInExpr := len(wr.pre) + len(ee.pre) + ee.in

	var val string
	var off int
	abs := ee.abs
	switch mode {
	case "emb":
		if sh.kind == "pretext" {
			nText0 += sh.k
		}
		var sb strings.Builder
		txt := c07Text(textSub, nText0)
		if nText0 >= 2 && rr.Sub(14).Bool() {
			txt = txt[:nText0-1] + " " // a blank between the text and the placeholder
			if txt[nText0-2] == ' ' {
				txt = txt[:nText0-2] + "x "
			}
		}
		sb.WriteString(txt)
		for i := 0; i < nPh; i++ {
			ps := phSub.Sub(i)
			fp := c07FillerPlaceholders[ps.Intn(len(c07FillerPlaceholders))]
			if noctx && strings.Contains(fp, "github") {
				fp = "${{ 1 < 2 }}"
			}
			sb.WriteString(fp)
			sb.WriteString(c07Spaces(ps.Intn(2)))
			if ps.Intn(2) == 0 {
				sb.WriteString(c07Text(ps, 1+ps.Intn(6)))
				sb.WriteString(c07Spaces(ps.Intn(2)))
			}
		}
		if sh.kind == "placeholder" {
			sb.WriteString(c07FillerOfLen(phSub.Sub(99), sh.k, noctx))
		}
		b.info["ph"] = nPh
		b.info["text"] = nText0
		phOff := sb.Len()
		sb.WriteString("${{")
		sb.WriteString(c07Spaces(ws1))
		exprStart := sb.Len()
		sb.WriteString(exprText)
		sb.WriteString(c07Spaces(ws2))
		endOff := sb.Len()
		sb.WriteString("}}")
		if nTrail > 0 {
			sb.WriteString(" ")
			sb.WriteString(c07Text(trailSub, nTrail))
		}
		val = sb.String()
		off = exprStart + anchorInExpr
		if ee.end {
			off = endOff
		}
		if ee.class == "template" {
			off = phOff
		}
		if !site.tight {
			b.shifts = append(b.shifts, "pretext", "placeholder")
		}
	case "whole":
		val = "${{" + c07Spaces(ws1) + exprText + c07Spaces(ws2) + "}}"
		off = 3 + ws1 + anchorInExpr
		if ee.end {
			off = 3 + ws1 + len(exprText) + ws2
		}
		if ee.class == "template" {
			off = 0
		}
	case "bare":
		// a condition written without ${{ }}: clean conjuncts precede the offending part
		nConj := rr.Intn(3)
		pre := strings.Repeat("true && ", nConj)
		if sh.kind == "pretext" {
			switch {
			case sh.k >= 7:
				pre += "true &&" + c07Spaces(sh.k-7)
			case sh.k >= 3:
				pre += "0||" + c07Spaces(sh.k-3)
			default:
				b.ok, b.why = false, "shift-not-applicable"
				return
			}
		}
		val = pre + exprText
		off = len(pre) + anchorInExpr
		if ee.end {
			off = len(val)
			abs = false // the end of a bare condition is not a token of the source
		}
		b.info["text"] = len(pre)
		b.shifts = append(b.shifts, "pretext")
	}
	// blanks inside the quotes around the whole text (a scalar that starts or ends with a blank can
	// only be written quoted; the style is chosen accordingly)
	if lead > 0 || trail > 0 {
		val = c07Spaces(lead) + val + c07Spaces(trail)
		off += lead
	}
	b.info["lead"] = lead
	if !site.noInner {
		b.shifts = append(b.shifts, "innerspace")
	}
	// a second construct, diagnosed by ANOTHER rule, in the same scalar
	if site.decoPre != "" || site.decoPost != "" {
		val = site.decoPre + val + site.decoPost
		off += len(site.decoPre)
	}
	t := c07S(val)
	site.place(w, t)
	b.target = t
	b.isKey = c07HasTag(site.tags, "iskey")
	b.site = site.class
	b.kind = ee.class
	b.mode = mode
	b.info["site:"+site.name] = 1
	b.expects = append(b.expects, c07Expect{msg: ee.msg, anchor: 't', off: off, abs: abs})
	for _, m := range ee.also {
		b.expects = append(b.expects, c07Expect{msg: m, anchor: 't', off: off, abs: abs, optional: true})
	}
	for _, x := range ee.extra {
		// off - anchorInExpr is the start of the expression text inside the scalar
		b.expects = append(b.expects, c07Expect{msg: x.msg, anchor: 't', off: off - anchorInExpr + len(wr.pre) + x.off, abs: true})
	}
	if ee.sub != "" {
		b.info["sub:"+ee.class+":"+ee.sub] = 1
	}
	if site.decoMsg != "" {
		if site.decoOff < 0 {
			b.expects = append(b.expects, c07Expect{msg: site.decoMsg, anchor: 'n', abs: true})
		} else {
			o := site.decoOff
			if site.decoPre == "" {
				o += len(val) - len(site.decoPost)
			}
			b.expects = append(b.expects, c07Expect{msg: site.decoMsg, anchor: 't', off: o, abs: true})
		}
		b.info["pair:"+site.name] = 1
	}
	for _, m := range []string{"type of expression", "\"if\" condition should be type", "default value of input"} {
		b.expects = append(b.expects, c07Expect{msg: m, anchor: 'n', abs: true, optional: true})
	}
	// text around a placeholder in an if: condition
	b.expects = append(b.expects, c07Expect{msg: "is always evaluated to true because extra characters are around", anchor: 'n', abs: true, optional: true})
	if !site.flowable() {
		*wantFlow = false
		b.flowVeto = true
	}
}

func (s *c07ExprSite) flowable() bool {
	switch s.name {
	case "wf.name", "wf.run-name", "wf.concurrency", "job.name", "job.runs-on", "job.environment", "job.container", "job.timeout-minutes", "job.continue-on-error",
		"job.if", "job.if-bare", "step.if", "step.if-bare", "step.if-bare-uses", "step.name", "step.run", "step.working-directory", "step.timeout-minutes", "step.continue-on-error",
		"wf.env-expr", "job.env-expr", "step.env-expr", "matrix.include-expr", "matrix.exclude-expr", "pair.deprecated-command+expr", "pair.expr+deprecated-command", "pair.if-extra-characters+expr", "pair.job-if-extra-characters+expr", "pair.branch-filter+expr":
		return false // the holder is a job / step / the workflow: too large for one line
	}
	return true
}

func c07BuildKey(b *c07Built, w *c07WF, rr *Rand, sh c07Shift, cat *c07Catalogue, wantFlow *bool) {
	site := &cat.keySites[rr.Intn(len(cat.keySites))]
	k, msgs, opt := site.build(w, rr)
	if site.noFlow {
		*wantFlow = false
		b.flowVeto = true
	}
	b.target = k
	b.isKey = true
	b.site = "key"
	b.kind = site.kind
	b.mode = "key"
	b.info["site:"+site.name] = 1
	for _, m := range msgs {
		b.expects = append(b.expects, c07Expect{msg: m, anchor: 'n', abs: true})
	}
	for _, m := range opt {
		b.expects = append(b.expects, c07Expect{msg: m, anchor: 'x', optional: true})
	}
}

func c07BuildValue(b *c07Built, w *c07WF, rr *Rand, sh c07Shift, cat *c07Catalogue, wantFlow *bool) {
	pick := rr.Intn(1 << 20)
	site := &cat.valSites[pick%len(cat.valSites)]
	if (pick>>12)%6 == 0 {
		// a fixed share for the labels that are reached through the matrix
		var ind []*c07ValSite
		for i := range cat.valSites {
			if cat.valSites[i].kind == "runner-label-via-matrix" {
				ind = append(ind, &cat.valSites[i])
			}
		}
		if len(ind) > 0 {
			site = ind[(pick>>4)%len(ind)]
		}
	}
	v, msgs, opt := site.build(w, rr)
	b.target = v
	b.site = "value"
	b.kind = site.kind
	b.mode = "value"
	b.allowedStyles = site.styles
	b.info["site:"+site.name] = 1
	for _, m := range msgs {
		b.expects = append(b.expects, c07Expect{msg: m, anchor: 'n', abs: true})
	}
	for _, m := range opt {
		b.expects = append(b.expects, c07Expect{msg: m, anchor: 'x', optional: true})
	}
	if !site.flowOK {
		*wantFlow = false
		b.flowVeto = true
	}
}

func c07BuildGlob(b *c07Built, w *c07WF, rr *Rand, sh c07Shift, cat *c07Catalogue, wantFlow *bool) {
	ge := &cat.globErrs[rr.Intn(len(cat.globErrs))]
	isRef := ge.ref
	if ge.ref && ge.path {
		isRef = rr.Bool()
	}
	var filter string
	if isRef {
		filter = c07RefFilters[rr.Intn(len(c07RefFilters))]
	} else {
		filter = c07PathFilters[rr.Intn(len(c07PathFilters))]
	}
	tagsFilter := strings.HasPrefix(filter, "tags")
	nPre := rr.Intn(25)
	if rr.Intn(4) == 0 {
		nPre = 0
	}
	nSuf := 1 + rr.Intn(6)
	if ge.needsPrec && nPre == 0 {
		nPre = 1
	}
	if ge.lead {
		nPre = 0
	} else if sh.kind == "pretext" {
		nPre += sh.k
	}
	if ge.trail {
		nSuf = 0
	}
	pre := c07GlobText(rr.Sub(21), nPre)
	suf := c07GlobText(rr.Sub(22), nSuf)
	negDraw := rr.Intn(4) == 0
	neg := ""
	if ge.neg || (negDraw && !ge.noNeg) {
		neg = "!" // negated pattern: every column moves by one
	}
	val := neg + pre + ge.bad + suf
	off := len(neg) + len(pre) + ge.in
	if neg != "" {
		b.info["negated"] = 1
	}
	t := c07S(val)
	// where: push or pull_request; as the only element, a later element, or a scalar
	var ev *c07Node
	evDraw := rr.Intn(3)
	formDraw := rr.Intn(5)
	if tagsFilter {
		evDraw = 0 // tag filters exist for push only
	}
	switch evDraw {
	case 0:
		ev = w.push
		if filter == "branches-ignore" {
			ev.ents = nil // cannot be combined with the base workflow's "branches"
		}
	case 1:
		ev = w.on.sub("pull_request")
	default:
		ev = w.on.sub("pull_request_target")
	}
	switch formDraw {
	case 0:
		ev.set(filter, t)
	case 1:
		ev.set(filter, c07Q(t))
	case 2:
		ev.set(filter, c07Q(c07S("ok-1"), t))
	case 3:
		ev.set(filter, c07Q(c07S("ok-1"), c07S("release/**"), t, c07S("later")))
	default:
		// non-ASCII patterns earlier on the same line (flow sequence)
		q := c07Q(c07SQ("日本語", c07Single), c07SQ("\u00e9\U0001f600-x", c07Double), t)
		q.flow = true
		ev.set(filter, q)
		b.info["nonascii"] = 1
	}
	b.target = t
	b.site = "glob"
	b.kind = "glob"
	b.mode = "value"
	b.info["text"] = nPre
	gname := ge.msg
	if len(gname) > 34 {
		gname = gname[:34]
	}
	b.info["site:"+map[bool]string{true: "u.", false: ""}[b.info["nonascii"] == 1]+"glob/"+map[bool]string{true: "ref", false: "path"}[isRef]+"/"+map[bool]string{true: "negated/", false: ""}[neg != ""]+gname] = 1
	if ge.quoted {
		b.allowedStyles = "ad"
	}
	if !ge.lead {
		b.shifts = append(b.shifts, "pretext")
	}
	b.expects = append(b.expects, c07Expect{msg: ge.msg, anchor: 't', off: off, abs: true})
}
