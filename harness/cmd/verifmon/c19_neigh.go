package main

import (
	"fmt"
	"regexp"
	"sort"
	"strconv"
	"strings"
)

var c19LineRef = regexp.MustCompile(`line:[0-9]+,`)

// Neighbouring-job oracle (added after seeded change C19-dynamic-row-set-not-reset-between-jobs):
// the matrix diagnostics of a job depend on that job's matrix only. The base workflow is re-linted
// with another job written before (and, for one variant, after) the probed job; that job's matrix
// uses the same row keys in a form that produces no diagnostic itself (rows given by expressions,
// an include / whole matrix given by an expression, static rows with fresh unique values). The
// diagnostics, shifted by the inserted lines, must be exactly those of the base writing. State that
// the rule keeps per job (dynamic-row sets, candidate tables, seen values) and does not reset shows
// up as a lost or additional report.

type c19Neighbour struct {
	name   string
	before bool
	lines  []string
}

func c19NeighbourJobs(m *c19Matrix) []c19Neighbour {
	keys := []string{}
	for _, row := range m.Rows {
		keys = append(keys, row.Key)
	}
	for _, e := range m.Exc {
		for _, a := range e.Assigns {
			keys = append(keys, a.Key)
		}
	}
	seen := map[string]bool{}
	uniq := keys[:0:0]
	for _, k := range keys {
		if lk := strings.ToLower(k); !seen[lk] {
			seen[lk] = true
			uniq = append(uniq, k)
		}
	}
	if len(uniq) == 0 {
		return nil
	}
	head := func(id string) []string {
		return []string{"  " + id + ":", "    runs-on: ubuntu-latest", "    strategy:"}
	}
	tail := []string{"    steps:", "      - run: echo"}
	mk := func(id string, body []string) []string {
		out := append([]string{}, head(id)...)
		out = append(out, body...)
		return append(out, tail...)
	}
	dyn := []string{"      matrix:"}
	for i, k := range uniq {
		dyn = append(dyn, fmt.Sprintf("        %s: ${{ fromJSON(vars.C19_PRIOR_%d) }}", k, i))
	}
	stat := []string{"      matrix:"}
	for i, k := range uniq {
		stat = append(stat, fmt.Sprintf("        %s: [c19-prior-%d-a, c19-prior-%d-b]", k, i, i))
	}
	statExc := append([]string{}, stat...)
	statExc = append(statExc, "        exclude:", fmt.Sprintf("          - %s: c19-prior-0-a", uniq[0]))
	inc := append([]string{}, stat...)
	inc = append(inc, "        include: ${{ fromJSON(vars.C19_PRIOR_INC) }}")
	whole := []string{"      matrix: ${{ fromJSON(vars.C19_PRIOR_MATRIX) }}"}
	return []c19Neighbour{
		{"earlier job whose rows of the same keys are given by expressions", true, mk("c19prior", dyn)},
		{"earlier job with static rows of the same keys and other values", true, mk("c19prior", stat)},
		{"earlier job with static rows of the same keys and a matching exclude entry", true, mk("c19prior", statExc)},
		{"earlier job with static rows of the same keys and include given by an expression", true, mk("c19prior", inc)},
		{"earlier job whose whole matrix is given by an expression", true, mk("c19prior", whole)},
		{"later job whose rows of the same keys are given by expressions", false, mk("c19later", dyn)},
	}
}

func c19CheckNeighbours(c *Case, m *c19Matrix, base *c19Result) {
	if base == nil || base.obs == nil || len(base.obs.Foreign) > 0 {
		return
	}
	const marker = "jobs:\n"
	at := strings.Index(base.ly.Src, marker)
	if at < 0 {
		return
	}
	want := diagStrings(base.ds)
	sort.Strings(want)
	for _, nb := range c19NeighbourJobs(m) {
		text := strings.Join(nb.lines, "\n") + "\n"
		var src string
		shift := 0
		if nb.before {
			src = base.ly.Src[:at+len(marker)] + text + base.ly.Src[at+len(marker):]
			shift = len(nb.lines)
		} else {
			src = base.ly.Src
			if !strings.HasSuffix(src, "\n") {
				src += "\n"
			}
			src += text
		}
		ds, err := lintSrc(src)
		c.Eval(1)
		c.Count("neighbour_job_writings", 1)
		if err != nil {
			c.Violation("C19:fatal-error", "linting a generated matrix with a neighbouring job returned a fatal error: "+err.Error(), map[string]interface{}{"src": src})
			return
		}
		var got []string
		for _, d := range ds {
			d.Line -= shift
			if shift != 0 {
				// "the same value is at line:L,col:C" carries a position of its own
				d.Msg = c19LineRef.ReplaceAllStringFunc(d.Msg, func(t string) string {
					n, _ := strconv.Atoi(strings.TrimSuffix(strings.TrimPrefix(t, "line:"), ","))
					return fmt.Sprintf("line:%d,", n-shift)
				})
			}
			got = append(got, d.String())
		}
		sort.Strings(got)
		c.Logf("---- neighbour: %s\n%s", nb.name, src)
		if strings.Join(got, "\n") == strings.Join(want, "\n") {
			if len(want) > 0 {
				c.Count("neighbour_job_writings_with_reports", 1)
			}
			continue
		}
		sig := "C19:neighbouring-job-changes-matrix-diagnostics"
		if len(got) < len(want) {
			sig += ":lost"
		} else if len(got) > len(want) {
			sig += ":added"
		}
		c.Violation(sig, fmt.Sprintf("the matrix diagnostics of job build change when the workflow also has an %s", nb.name),
			map[string]interface{}{"src": base.ly.Src, "diags": want, "neighbour_src": src, "neighbour_diags_shifted": got, "neighbour": nb.name})
		return
	}
}
