package main

// Bounded-progress watchdog. A case that has been running suspiciously long (wall-clock, only a
// trigger) is re-executed alone in a child process under a CPU-time limit (RLIMIT_CPU). Only the
// child exhausting its CPU budget is a verdict ("hang"); wall-clock alone never is.

import (
	"encoding/json"
	"fmt"
	"os"
	"os/exec"
	"strconv"
	"sync"
	"syscall"
	"time"
)

type wdKey struct {
	fam string
	idx int
}

var (
	wdMu      sync.Mutex
	wdActive  = map[wdKey]time.Time{}
	wdChecked = map[wdKey]bool{}
	wdOnce    sync.Once
	wdMemOnce sync.Once
)

const (
	wdSuspectAfter = 45 * time.Second // wall-clock trigger only
	wdCPULimitSec  = 90               // CPU budget of the solo re-run (normal cases cost milliseconds)
)

func init() {
	// worker subcommands (c01-worker, c10-worker, ...) lint in-process as well: end the worker before
	// the kernel's OOM killer ends something else; the parent treats the death as a crash of the
	// journaled case
	if len(os.Args) > 1 && len(os.Args[1]) > 7 && os.Args[1][len(os.Args[1])-7:] == "-worker" {
		go func() {
			limit := uint64(24) << 30
			if s := os.Getenv("VERIF_MEM_LIMIT_MB"); s != "" {
				if n, err := strconv.Atoi(s); err == nil && n > 0 {
					limit = uint64(n) << 20
				}
			}
			for {
				time.Sleep(200 * time.Millisecond)
				if rss := wdRSSBytes(); rss >= limit {
					fmt.Fprintf(os.Stderr, "fatal error: verif memory guard: worker reached %d MiB of resident memory (limit %d MiB)\n", rss>>20, limit>>20)
					os.Exit(2)
				}
			}
		}()
	}
	// child side: apply the CPU limit requested by the parent
	if s := os.Getenv("VERIF_CPU_LIMIT"); s != "" {
		if n, err := strconv.Atoi(s); err == nil && n > 0 {
			lim := syscall.Rlimit{Cur: uint64(n), Max: uint64(n + 5)}
			syscall.Setrlimit(0 /* RLIMIT_CPU */, &lim)
		}
	}
}

func (r *Run) wdEnter(fam string, idx int) {
	wdMu.Lock()
	wdActive[wdKey{fam, idx}] = time.Now()
	wdMu.Unlock()
}

func (r *Run) wdLeave(fam string, idx int) {
	wdMu.Lock()
	delete(wdActive, wdKey{fam, idx})
	wdMu.Unlock()
}

// wdRSSBytes is the resident set size of this process (0 if unknown).
func wdRSSBytes() uint64 {
	b, err := os.ReadFile("/proc/self/statm")
	if err != nil {
		return 0
	}
	var size, rss uint64
	fmt.Sscan(string(b), &size, &rss)
	return rss * uint64(os.Getpagesize())
}

// wdMemGuard ends the run before the kernel's OOM killer does: code under test that allocates
// without bound (e.g. a message loop that never terminates) would otherwise take the whole machine
// down. Unbounded allocation is a violation for the properties that state termination / no crash
// (C01, C18) and makes the run inconclusive for the others.
func (r *Run) wdMemGuard() {
	limit := uint64(24) << 30
	if s := os.Getenv("VERIF_MEM_LIMIT_MB"); s != "" {
		if n, err := strconv.Atoi(s); err == nil && n > 0 {
			limit = uint64(n) << 20
		}
	}
	go func() {
		for {
			time.Sleep(200 * time.Millisecond)
			rss := wdRSSBytes()
			if rss < limit {
				continue
			}
			var oldest wdKey
			var t0 time.Time
			var active []string
			wdMu.Lock()
			for k, t := range wdActive {
				active = append(active, fmt.Sprintf("%s[%d]", k.fam, k.idx))
				if t0.IsZero() || t.Before(t0) {
					oldest, t0 = k, t
				}
			}
			wdMu.Unlock()
			what := fmt.Sprintf("the monitor process reached %d MiB of resident memory (limit %d MiB) while running %v: the code under test allocates without bound", rss>>20, limit>>20, active)
			if (r.Prop == "C01" || r.Prop == "C18") && !t0.IsZero() {
				r.violationAt(oldest.fam, oldest.idx, "memory-exhaustion:"+oldest.fam, what, map[string]interface{}{"active_cases": active})
			} else {
				r.Inconclusive(what)
			}
			r.Finish()
		}
	}()
}

func (r *Run) wdStart() {
	wdMemOnce.Do(r.wdMemGuard)
	if r.ReplayOf != nil || os.Getenv("VERIF_CPU_LIMIT") != "" {
		return
	}
	wdOnce.Do(func() {
		go func() {
			for {
				time.Sleep(2 * time.Second)
				var suspects []wdKey
				wdMu.Lock()
				for k, t := range wdActive {
					if time.Since(t) > wdSuspectAfter && !wdChecked[k] {
						wdChecked[k] = true
						suspects = append(suspects, k)
					}
				}
				wdMu.Unlock()
				for _, k := range suspects {
					r.wdSolo(k)
				}
			}
		}()
	})
}

// wdSolo re-runs one case alone under a CPU limit.
func (r *Run) wdSolo(k wdKey) {
	rf := ReplayFile{Property: r.Prop, Tier: r.Tier, Seed: r.Seed, Family: k.fam, Index: k.idx, Sig: "hang:" + k.fam, What: "solo re-run"}
	b, _ := json.Marshal(rf)
	f, err := os.CreateTemp(scratchBase(), "verif-wd-*.json")
	if err != nil {
		return
	}
	f.Write(b)
	f.Close()
	defer os.Remove(f.Name())
	cmd := exec.Command(os.Args[0], r.Prop, "--replay", f.Name())
	cmd.Env = append(os.Environ(), fmt.Sprintf("VERIF_CPU_LIMIT=%d", wdCPULimitSec))
	out, err := cmd.CombinedOutput()
	killedByCPU := false
	if ee, ok := err.(*exec.ExitError); ok {
		if ws, ok := ee.Sys().(syscall.WaitStatus); ok && ws.Signaled() && (ws.Signal() == syscall.SIGXCPU || ws.Signal() == syscall.SIGKILL) {
			killedByCPU = true
		}
	}
	if !killedByCPU {
		fmt.Printf("[%s] watchdog: case %s[%d] is slow under load but finishes within %ds CPU alone (not a violation)\n", r.Prop, k.fam, k.idx, wdCPULimitSec)
		r.Count("slow_cases", 1)
		return
	}
	tail := string(out)
	if len(tail) > 2000 {
		tail = tail[len(tail)-2000:]
	}
	r.violationAt(k.fam, k.idx, "hang:"+k.fam, fmt.Sprintf("case %s[%d] did not finish within %d s of CPU time when run alone", k.fam, k.idx, wdCPULimitSec), map[string]interface{}{"output_tail": tail})
	// the goroutine running the case in this process is stuck for good: report and stop
	r.Finish()
}
