package main

// Bounded-progress watchdog. A case that has been running suspiciously long (wall-clock, only a
// trigger) is re-executed alone in a child process under a CPU-time limit (RLIMIT_CPU). Only the
// child exhausting its CPU budget is a verdict ("hang"); wall-clock alone never is.

import (
	"encoding/json"
	"fmt"
	"os"
	"os/exec"
	"strconv"
	"sync"
	"syscall"
	"time"
)

type wdKey struct {
	fam string
	idx int
}

var (
	wdMu      sync.Mutex
	wdActive  = map[wdKey]time.Time{}
	wdChecked = map[wdKey]bool{}
	wdOnce    sync.Once
)

const (
	wdSuspectAfter = 45 * time.Second // wall-clock trigger only
	wdCPULimitSec  = 90               // CPU budget of the solo re-run (normal cases cost milliseconds)
)

func init() {
	// child side: apply the CPU limit requested by the parent
	if s := os.Getenv("VERIF_CPU_LIMIT"); s != "" {
		if n, err := strconv.Atoi(s); err == nil && n > 0 {
			lim := syscall.Rlimit{Cur: uint64(n), Max: uint64(n + 5)}
			syscall.Setrlimit(0 /* RLIMIT_CPU */, &lim)
		}
	}
}

func (r *Run) wdEnter(fam string, idx int) {
	wdMu.Lock()
	wdActive[wdKey{fam, idx}] = time.Now()
	wdMu.Unlock()
}

func (r *Run) wdLeave(fam string, idx int) {
	wdMu.Lock()
	delete(wdActive, wdKey{fam, idx})
	wdMu.Unlock()
}

func (r *Run) wdStart() {
	if r.ReplayOf != nil || os.Getenv("VERIF_CPU_LIMIT") != "" {
		return
	}
	wdOnce.Do(func() {
		go func() {
			for {
				time.Sleep(2 * time.Second)
				var suspects []wdKey
				wdMu.Lock()
				for k, t := range wdActive {
					if time.Since(t) > wdSuspectAfter && !wdChecked[k] {
						wdChecked[k] = true
						suspects = append(suspects, k)
					}
				}
				wdMu.Unlock()
				for _, k := range suspects {
					r.wdSolo(k)
				}
			}
		}()
	})
}

// wdSolo re-runs one case alone under a CPU limit.
func (r *Run) wdSolo(k wdKey) {
	rf := ReplayFile{Property: r.Prop, Tier: r.Tier, Seed: r.Seed, Family: k.fam, Index: k.idx, Sig: "hang:" + k.fam, What: "solo re-run"}
	b, _ := json.Marshal(rf)
	f, err := os.CreateTemp(scratchBase(), "verif-wd-*.json")
	if err != nil {
		return
	}
	f.Write(b)
	f.Close()
	defer os.Remove(f.Name())
	cmd := exec.Command(os.Args[0], r.Prop, "--replay", f.Name())
	cmd.Env = append(os.Environ(), fmt.Sprintf("VERIF_CPU_LIMIT=%d", wdCPULimitSec))
	out, err := cmd.CombinedOutput()
	killedByCPU := false
	if ee, ok := err.(*exec.ExitError); ok {
		if ws, ok := ee.Sys().(syscall.WaitStatus); ok && ws.Signaled() && (ws.Signal() == syscall.SIGXCPU || ws.Signal() == syscall.SIGKILL) {
			killedByCPU = true
		}
	}
	if !killedByCPU {
		fmt.Printf("[%s] watchdog: case %s[%d] is slow under load but finishes within %ds CPU alone (not a violation)\n", r.Prop, k.fam, k.idx, wdCPULimitSec)
		r.Count("slow_cases", 1)
		return
	}
	tail := string(out)
	if len(tail) > 2000 {
		tail = tail[len(tail)-2000:]
	}
	r.violationAt(k.fam, k.idx, "hang:"+k.fam, fmt.Sprintf("case %s[%d] did not finish within %d s of CPU time when run alone", k.fam, k.idx, wdCPULimitSec), map[string]interface{}{"output_tail": tail})
	// the goroutine running the case in this process is stuck for good: report and stop
	r.Finish()
}
