package main

// C17 — filter patterns are validated exactly by the glob syntax.
//
// (a) reference model: c17Reference (c17_ref.go), an independent three-valued validator written
//     from the property statement, GitHub's filter-pattern cheat sheet and git-check-ref-format,
//     compared on accept/reject with actionlint.ValidateRefGlob / ValidatePathGlob; where the
//     statement is silent the reference answers "don't care" and nothing is compared;
// (b) three reference-free invariants on EVERY string (also inside the don't-care set):
//     ref-accept => path-accept; every column inside the pattern; a named character stands at the
//     reported column;
// (c) through Linter.Lint: the in-pattern column is mapped onto the YAML scalar (plain, single and
//     double quoted) for on.push.{branches,tags,paths}{,-ignore};
// (d) termination: every block of evaluations runs under the framework watchdog.

import (
	"fmt"
	"sort"
	"strconv"
	"strings"
	"unicode"
	"unicode/utf8"

	"github.com/rhysd/actionlint"
)

func init() { registry["C17"] = runC17 }

// the 16-symbol alphabet of the exhaustive enumeration (DESIGN §4 C17)
var c17Alphabet = []rune{'a', 'z', '*', '?', '+', '[', ']', '-', '!', '\\', '/', '.', ' ', '~', '\n', 'é'}

// extra symbols used only by the random families
var c17Extra = []rune{'%', '%', '%', 's', 'd', '{', '}', '^', ':', '\t', '\r', '0', '9', 'A', 'Z', '_', '@', '{', '\'', '"', ',', '#', 'b', 'y', 'm', 0x01, 0x1f, 0x7f, '日', '😀', 'ß', 0x80, 0x85, 0x9f, 0xa0}

const c17NoteSuffix = ". note: filter pattern syntax is explained at https://docs.github.com/en/actions/using-workflows/workflow-syntax-for-github-actions#filter-pattern-cheat-sheet"

// ---------------------------------------------------------------------------
// message classification

// c17MsgClass maps a validator message onto a short, stable label.
func c17MsgClass(m string) string {
	has := func(s string) bool { return strings.Contains(m, s) }
	switch {
	case has("glob pattern cannot be empty"):
		return "empty"
	case has("at least one character must follow !"):
		return "bang-alone"
	case has("special character ? (zero or one)"):
		return "qmark-after-special"
	case has("special character + (one or more)"):
		return "plus-after-special"
	case has("character match must not be empty"):
		return "empty-class"
	case has("missing ]"):
		return "missing-bracket"
	case has("end of range is missing"):
		return "range-end-missing"
	case has("is larger than end of range"):
		return "range-reversed"
	case has("character match with single character is useless"):
		return "useless-class"
	case has("newline cannot be contained"):
		return "newline"
	case has("ref name must not start with /"):
		return "ref-start-slash"
	case has("ref name must not end with / and ."):
		return "ref-end"
	case has("only special characters [, ?, +, *, \\, ! can be escaped"):
		return "ref-backslash"
	case has("ref name cannot contain spaces, ~, ^, :, [, ?, *"):
		return "ref-char"
	case has("is invalid for branch and tag names"):
		return "ref-other"
	case has("path value must not start with spaces"):
		return "path-lead-space"
	case has("path value must not end with spaces"):
		return "path-trail-space"
	case has("error while scanning glob pattern"):
		return "scan-error"
	}
	return "other"
}

// c17NamedChar extracts the character a message names as the offending one, if it names one.
// Two forms exist: `unexpected character %q` (always a Go rune literal) and, at the very start of
// the message, `character '%c'` for printable / `character %q` for other runes.
func c17NamedChar(m string) (rune, bool) {
	const p1 = "invalid glob pattern. unexpected character "
	const p2 = "character "
	var rest string
	goLiteralOnly := false
	switch {
	case strings.HasPrefix(m, p1):
		rest = m[len(p1):]
		goLiteralOnly = true
	case strings.HasPrefix(m, p2):
		rest = m[len(p2):]
	default:
		return 0, false
	}
	if !strings.HasPrefix(rest, "'") {
		return 0, false
	}
	rest = rest[1:]
	if !goLiteralOnly {
		r, sz := utf8.DecodeRuneInString(rest)
		if sz > 0 && unicode.IsPrint(r) && strings.HasPrefix(rest[sz:], "'") {
			return r, true // '%c' form (also covers '\')
		}
	}
	v, _, tail, err := strconv.UnquoteChar(rest, '\'')
	if err != nil || !strings.HasPrefix(tail, "'") {
		return 0, false
	}
	return v, true
}

// c17AnnouncesChar: the message starts the way messages that name a character do.
func c17AnnouncesChar(m string) bool {
	return strings.HasPrefix(m, "invalid glob pattern. unexpected character '") || strings.HasPrefix(m, "character '")
}

// ---------------------------------------------------------------------------
// reference-free invariants on one report

// c17ReportSig checks one report (message, 1-based column in characters, 0 = no column) against
// the pattern it was made for. It returns "" if the report is fine, else a narrow signature and a
// description. bytesLen is the length of the pattern in bytes (only to recognise one defect class).
func c17ReportSig(p []rune, isRef bool, msg string, col int, bytesLen int) (string, string) {
	n := len(p)
	cls := c17MsgClass(msg)
	kind := "path"
	if isRef {
		kind = "ref"
	}
	if col == 0 {
		// whole-pattern reports: the empty pattern, the leading-space path report, and the
		// documented fallback once the scanner has consumed a line feed (InvalidGlobPattern.Column)
		if n == 0 || cls == "path-lead-space" || c17HasRune(p, '\n') {
			return "", ""
		}
		return "C17:column-zero-without-reason:" + kind + ":" + cls, fmt.Sprintf("column 0 reported for a non-empty pattern without line feed (%s)", msg)
	}
	if col < 1 || col > n {
		if cls == "path-trail-space" && col == bytesLen && bytesLen > n {
			return "C17:path-trailing-space-column-in-bytes", fmt.Sprintf("trailing-space report uses the byte length %d as column; the pattern has %d characters", col, n)
		}
		return "C17:column-outside-pattern:" + kind + ":" + cls, fmt.Sprintf("column %d outside the pattern of %d characters (%s)", col, n, msg)
	}
	at := p[col-1]
	if _, ok := c17NamedChar(msg); !ok && c17AnnouncesChar(msg) {
		return "C17:named-char-garbled:" + kind + ":" + cls, fmt.Sprintf("the message announces a character but what it quotes is not a character literal (column %d holds %q): %s", col, at, truncate(msg, 160))
	}
	if cls == "path-trail-space" && at != ' ' {
		return "C17:path-trailing-space-column-not-on-space", fmt.Sprintf("trailing-space report at column %d which holds %q", col, at)
	}
	if named, ok := c17NamedChar(msg); ok && named != at {
		if isRef && cls == "ref-char" && col >= 2 && p[col-2] == '\\' && (at == '[' || at == '?' || at == '*') {
			return "C17:ref-escape-names-next-char", fmt.Sprintf("report for the escaped %q at column %d names %q (the character after it / EOF)", at, col, named)
		}
		return "C17:named-char-not-at-column:" + kind + ":" + cls, fmt.Sprintf("message names %q but column %d of the pattern holds %q (%s)", named, col, at, msg)
	}
	return "", ""
}

func c17HasRune(p []rune, r rune) bool {
	for _, x := range p {
		if x == r {
			return true
		}
	}
	return false
}

// ---------------------------------------------------------------------------
// per-block statistics (flushed once per case to keep the shared mutex cold)

type c17Stats struct {
	logged int
	cnt    map[string]int
	sets   map[string]map[string]struct{}
}

func c17NewStats() *c17Stats {
	return &c17Stats{cnt: map[string]int{}, sets: map[string]map[string]struct{}{}}
}

func (s *c17Stats) add(set, elem string) {
	m := s.sets[set]
	if m == nil {
		m = map[string]struct{}{}
		s.sets[set] = m
	}
	m[elem] = struct{}{}
}

func (s *c17Stats) flush(c *Case) {
	keys := make([]string, 0, len(s.cnt))
	for k := range s.cnt {
		keys = append(keys, k)
	}
	sort.Strings(keys)
	for _, k := range keys {
		c.Count(k, s.cnt[k])
	}
	for set, m := range s.sets {
		for e := range m {
			c.SetAdd(set, e)
		}
	}
}

func c17ErrStrings(errs []actionlint.InvalidGlobPattern) []string {
	out := make([]string, len(errs))
	for i := range errs {
		out[i] = fmt.Sprintf("col %d: %s", errs[i].Column, errs[i].Message)
	}
	return out
}

// c17CheckString evaluates both exported validators on s and applies invariants and reference.
// ntAll: record every non-trivial string (small enumerations) instead of a 1/64 sample.
func c17CheckString(c *Case, st *c17Stats, s string, ntAll bool) {
	p := []rune(s)
	re := actionlint.ValidateRefGlob(s)
	pe := actionlint.ValidatePathGlob(s)
	c.Eval(1)
	detail := func(extra map[string]interface{}) map[string]interface{} {
		d := map[string]interface{}{"pattern": s, "pattern_quoted": strconv.Quote(s), "ref_reports": c17ErrStrings(re), "path_reports": c17ErrStrings(pe)}
		for k, v := range extra {
			d[k] = v
		}
		return d
	}
	fail := func(sig, what string, extra map[string]interface{}) {
		if st.logged < 10 { // replay mode: the first witnesses of the block are written out
			st.logged++
			c.Logf("pattern %q\n  ref reports : %q\n  path reports: %q\n  => %s: %s", s, c17ErrStrings(re), c17ErrStrings(pe), sig, what)
		}
		c.Violation(sig, fmt.Sprintf("pattern %q: %s", s, what), detail(extra))
	}

	// invariant 1: accepted as ref => accepted as path
	if len(re) == 0 {
		st.cnt["ref_accepted"]++
		if len(pe) != 0 {
			fail("C17:ref-accepted-path-rejected:"+c17MsgClass(pe[0].Message), "accepted as branch/tag filter but rejected as path filter", nil)
		}
	}
	if len(pe) == 0 {
		st.cnt["path_accepted"]++
	}
	// invariants 2 and 3: columns and named characters of every report
	for k, errs := range [2][]actionlint.InvalidGlobPattern{re, pe} {
		isRef := k == 0
		for i := range errs {
			e := &errs[i]
			cls := c17MsgClass(e.Message)
			st.add("message_classes", cls)
			st.cnt["reports_checked"]++
			if e.Column == 0 {
				st.cnt["reports_col_zero"]++
			}
			if nc, ok := c17NamedChar(e.Message); ok && e.Column > 0 {
				if nc == '%' {
					st.cnt["api_reports_naming_percent"]++
				}
				st.cnt["named_char_checked"]++
				st.add("named_char_classes", cls)
			}
			if cls == "other" || cls == "scan-error" {
				// inputs are valid UTF-8 without NUL/BOM: the scanner has nothing to complain about
				fail("C17:unclassified-report:"+cls, "report of an unknown class: "+e.Message, nil)
				continue
			}
			if sig, what := c17ReportSig(p, isRef, e.Message, e.Column, len(s)); sig != "" {
				fail(sig, what, map[string]interface{}{"kind_is_ref": isRef, "report": c17ErrStrings(errs[i : i+1])[0]})
			}
		}
	}
	// reference comparison, per kind
	nontrivial := false
	for k, errs := range [2][]actionlint.InvalidGlobPattern{re, pe} {
		isRef := k == 0
		kind := "path"
		if isRef {
			kind = "ref"
		}
		v, why := c17Reference(p, isRef)
		switch v {
		case c17DontCare:
			st.cnt["dontcare_"+kind]++
			st.cnt["dontcare_"+kind+"_"+why]++
			continue
		case c17Accept:
			st.cnt["compared_"+kind+"_accept"]++
			if isRef {
				nontrivial = true // the implication's antecedent is expected to hold
			}
			if len(errs) != 0 {
				fail("C17:"+kind+"-rejects-valid:"+c17MsgClass(errs[0].Message), "the pattern satisfies the documented syntax but is reported as "+kind+" filter: "+errs[0].Message, map[string]interface{}{"reference": "accept"})
			}
		case c17Reject:
			st.cnt["compared_"+kind+"_reject"]++
			st.add("reference_reject_reasons", kind+":"+why)
			nontrivial = true
			if len(errs) == 0 {
				fail("C17:"+kind+"-accepts-invalid:"+why, "the pattern violates the documented syntax ("+why+") but is not reported as "+kind+" filter", map[string]interface{}{"reference": "reject: " + why})
			}
		}
	}
	if nontrivial {
		st.cnt["nontrivial_strings"]++
		if ntAll || mix64(hashStr(s))%64 == 0 {
			c.Nontrivial(s)
		}
	}
}

// ---------------------------------------------------------------------------
// workload helpers

func c17Pow(b, e int) int {
	r := 1
	for i := 0; i < e; i++ {
		r *= b
	}
	return r
}

// c17Nth returns the idx-th string of length n over the exhaustive alphabet.
func c17Nth(n int, idx int, buf []rune) string {
	buf = buf[:0]
	for i := 0; i < n; i++ {
		buf = append(buf, c17Alphabet[idx%len(c17Alphabet)])
		idx /= len(c17Alphabet)
	}
	return string(buf)
}

func c17RandomString(r *Rand, maxLen int) string {
	n := r.Range(1, maxLen)
	b := make([]rune, 0, n)
	wide := r.Intn(3) == 0
	for i := 0; i < n; i++ {
		if wide && r.Intn(4) == 0 {
			b = append(b, c17Extra[r.Intn(len(c17Extra))])
		} else {
			b = append(b, c17Alphabet[r.Intn(len(c17Alphabet))])
		}
	}
	return string(b)
}

var c17Fragments = []string{
	"a", "z", "b", "main", "v", "0", "9", "é", "日", "_", "-", ".", "/", "/", "*", "**", "*", "a?", "z+", "?", "+",
	"[a-z]", "[ab]", "[a-zA-Z_]", "[0-9]+", "[az]?", "[z-a]", "[]", "[a-]", "[a", "[x]", "[a-a]", "[é-日]", "[日-é]", "[a-z", "[!a]", "[a-z0-9]",
	"\\[", "\\?", "\\*", "\\+", "\\\\", "\\!", "\\", "\\d", "\\]", "!", "!", " ", "~", "^", ":", "\t", "..", "//", "@{", ".lock", "\n", "\r", "\r\n",
	"\x01", "\x7f", "feature/", "releases/", "docs/", ".md", "README", "😀",
	// printf-looking text: reports quote pattern characters, so '%' must survive every formatting step
	"%", "%", "%s", "%d", "%!", "%%", "%v", "{0}", "[a-%]", "[z-%]", "[%-!]", "[%-z]", "[!-%]", "[%%]", "[a%]", "[é-%]", "%?", "%+", "*%", "%*", "\\%", "!%", "%/", "/%", "%.", "[%", "%]", "%-",
}

// c17GrammarString concatenates syntactic fragments: unlike uniformly random strings a large share
// of the results is accepted, so the accept side of the comparison is exercised on long inputs.
func c17GrammarString(r *Rand) string {
	var sb strings.Builder
	if r.Intn(5) == 0 {
		sb.WriteByte('!')
	}
	n := r.Range(1, 12)
	mostlyValid := r.Intn(3) != 0
	for i := 0; i < n && utf8.RuneCountInString(sb.String()) < 40; i++ {
		f := c17Fragments[r.Intn(len(c17Fragments))]
		if mostlyValid && r.Intn(8) != 0 {
			// prefer fragments that are fine on their own
			switch f {
			case "?", "+", "[z-a]", "[]", "[a-]", "[a", "[x]", "[日-é]", "[a-z", "\n", "\r", "\r\n", "\\", "\\d", "\\]", " ", "~", "^", ":", "\t", "\x01", "\x7f", "..", "//", "@{", ".lock", "!":
				f = "a"
			}
		}
		sb.WriteString(f)
	}
	return sb.String()
}

// ---------------------------------------------------------------------------
// Linter level: the column is mapped onto the YAML scalar

var c17FilterKeys = []string{"branches", "branches-ignore", "tags", "tags-ignore", "paths", "paths-ignore"}

type c17Scalar struct {
	key     string
	pat     string
	style   int // 0 plain, 1 single quoted, 2 double quoted
	pos     Pos // position of the scalar token (the quote if quoted)
	content int // column of the first pattern character
}

var c17StyleNames = []string{"plain", "single", "double"}

// c17StyleOK tells whether pattern p can be written in the style without any YAML escaping, folding
// or re-interpretation, i.e. the scalar text in the file is the pattern, character by character.
func c17StyleOK(p string, style int) bool {
	if p == "" || strings.ContainsAny(p, "\n\r\t\x00\x01\x1f\x7f\u0080\u0085\u009f\u2028\u2029") {
		return false
	}
	switch style {
	case 1:
		return !strings.Contains(p, "'")
	case 2:
		return !strings.ContainsAny(p, "\"\\")
	}
	// plain: conservative subset
	r0, _ := utf8.DecodeRuneInString(p)
	if !(r0 == 'a' || r0 == 'z' || r0 == 'b' || r0 == 'v' || r0 == 'm' || r0 == 'é' || r0 == '/' || r0 == '\\' || r0 == '+' || r0 == '^' || r0 == 'f' || r0 == 'r' || r0 == 'd' || r0 == 'R' || r0 == '日' || r0 == '_') {
		return false
	}
	if strings.HasSuffix(p, " ") || strings.HasSuffix(p, ":") || strings.Contains(p, ": ") || strings.Contains(p, " #") || strings.ContainsAny(p, "'\"") {
		return false
	}
	return true
}

func c17LintPattern(r *Rand) string {
	if r.Intn(8) == 0 {
		return c17PercentPattern(r)
	}
	switch r.Intn(6) {
	case 0:
		fixed := []string{"\\[a", "\\[", "a\\?b", "\\*", "aé ", "é é ", "日本 ", "a b", "a~", "v*+", "v[9-1]", "^foo-", "a??", "[]", "[a", "a[x]", "/foo", "foo/", "foo.", "é?+", "éé[z-a]", "a\\d", "main", "feature/**", "\\+\\\\", "日/[b-a]", "a !", "a:b", "é++", "日\\d.", " a", "a ",
			"release/[a-%]*", "docs/[z-%]/**", "[%-!]x", "a[z-%]", "é[日-%]%s", "v[9-%]%d", "[%-z]", "100%", "%s", "a%d?", "%%+", "%!", "{0}", "a{0}[b-%]", "%[z-%]%", "a%+?", "%?+", "*%?", "\\%", "a\\%[a-%]"}
		return fixed[r.Intn(len(fixed))]
	case 1, 2:
		return c17GrammarString(r)
	}
	// short random string over the exhaustive alphabet, biased to start with an ordinary character
	n := r.Range(1, 6)
	b := make([]rune, 0, n+1)
	if r.Bool() {
		b = append(b, []rune{'a', 'z', 'é', '/'}[r.Intn(4)])
	}
	pct := r.Intn(3) == 0
	for i := 0; i < n; i++ {
		if pct && r.Intn(3) == 0 {
			b = append(b, '%')
		} else {
			b = append(b, c17Alphabet[r.Intn(len(c17Alphabet))])
		}
	}
	return string(b)
}

// c17PercentPattern: patterns whose reports quote a '%' -- it is the end (or start) of an
// ill-ordered range, or stands next to a special character.
func c17PercentPattern(r *Rand) string {
	pre := []string{"", "a", "release/", "é", "!", "*", "a?", "%", "docs/", "%s"}[r.Intn(10)]
	post := []string{"", "*", "/**", "x", "%", "+", "?", "%d", "é"}[r.Intn(9)]
	lo := []rune{'a', 'z', 'A', '9', 'é', '日', '&', '_'}[r.Intn(8)]
	switch r.Intn(6) {
	case 0:
		return pre + "[%-" + string([]rune{'!', '#', '$', ' '}[r.Intn(4)]) + "]" + post
	case 1:
		return pre + "[a-z" + string(lo) + "-%]" + post
	}
	return pre + "[" + string(lo) + "-%]" + post
}

func c17LintCase(c *Case, st *c17Stats) {
	b := NewYB()
	b.L(0, "on:")
	b.L(2, "push:")
	var scalars []*c17Scalar
	// one key of each pair, so that the parser has no complaint about key combinations
	for pair := 0; pair < 3; pair++ {
		if c.R.Intn(4) == 0 {
			continue
		}
		key := c17FilterKeys[pair*2+c.R.Intn(2)]
		nvals := c.R.Range(1, 3)
		var vals []*c17Scalar
		for len(vals) < nvals {
			pat := c17LintPattern(c.R)
			style := c.R.Intn(3)
			if !c17StyleOK(pat, style) {
				style = 1
				if !c17StyleOK(pat, style) {
					continue
				}
			}
			vals = append(vals, &c17Scalar{key: key, pat: pat, style: style})
		}
		write := func(s *c17Scalar) {
			q := []string{"", "'", "\""}[s.style]
			s.pos = b.Pos()
			// YB counts bytes per column; patterns may be non-ASCII, so the line break resets it
			b.W(q)
			s.content = b.Pos().Col
			b.W(s.pat + q + "\n")
		}
		if nvals == 1 && c.R.Bool() {
			b.W("    " + key + ": ")
			write(vals[0])
		} else {
			b.L(4, key+":")
			ind := c.R.Range(4, 8)
			for _, s := range vals {
				b.W(strings.Repeat(" ", ind) + "- ")
				write(s)
			}
		}
		scalars = append(scalars, vals...)
	}
	b.L(0, "jobs:")
	b.L(2, "t:")
	b.L(4, "runs-on: ubuntu-latest")
	b.L(4, "steps:")
	b.L(6, "- run: echo")
	src := b.String()
	if len(scalars) == 0 {
		return
	}
	srcLines := strings.Split(src, "\n")

	// round-trip guard: the parser must see exactly the patterns that were written
	wf, _ := actionlint.Parse([]byte(src))
	seen := map[string][]*actionlint.String{}
	if wf != nil {
		for _, e := range wf.On {
			if w, ok := e.(*actionlint.WebhookEvent); ok {
				for _, f := range []*actionlint.WebhookEventFilter{w.Branches, w.BranchesIgnore, w.Tags, w.TagsIgnore, w.Paths, w.PathsIgnore} {
					if f != nil && f.Name != nil {
						seen[f.Name.Value] = f.Values
					}
				}
			}
		}
	}
	idx := map[string]int{}
	for _, s := range scalars {
		vs := seen[s.key]
		k := idx[s.key]
		idx[s.key]++
		if k >= len(vs) || vs[k].Value != s.pat || vs[k].Quoted != (s.style != 0) {
			st.cnt["lint_roundtrip_skipped"]++
			return // YAML re-interpreted the scalar: outside the domain of this check
		}
	}

	ds, err := lintSrc(src)
	c.Eval(1)
	if err != nil {
		c.Violation("C17:lint-fatal-error", "Lint returned a fatal error: "+err.Error(), map[string]interface{}{"src": src})
		return
	}
	type key struct {
		line, col int
		msg       string
	}
	want := map[key]int{}
	var wantList []string
	for _, s := range scalars {
		isRef := !strings.HasPrefix(s.key, "paths")
		var errs []actionlint.InvalidGlobPattern
		if isRef {
			errs = actionlint.ValidateRefGlob(s.pat)
		} else {
			errs = actionlint.ValidatePathGlob(s.pat)
		}
		for _, e := range errs {
			col := s.content
			if e.Column > 0 {
				col += e.Column - 1
			}
			k := key{s.pos.Line, col, e.Message + c17NoteSuffix}
			want[k]++
			wantList = append(wantList, fmt.Sprintf("%d:%d: %s", k.line, k.col, e.Message))
		}
		st.cnt["lint_scalars_"+c17StyleNames[s.style]]++
		st.add("lint_keys", s.key)
		if len(errs) > 0 {
			st.add("lint_styles_with_reports", c17StyleNames[s.style])
			st.add("lint_keys_with_reports", s.key)
			c.Nontrivial("lint|" + s.key + "|" + c17StyleNames[s.style] + "|" + s.pat)
		}
	}
	got := map[key]int{}
	var globs []Diag
	for _, d := range ds {
		if d.Kind != "glob" {
			st.add("lint_other_kinds", d.Kind)
			continue
		}
		globs = append(globs, d)
		got[key{d.Line, d.Col, d.Msg}]++
	}
	det := func() map[string]interface{} {
		var sc []map[string]interface{}
		for _, s := range scalars {
			sc = append(sc, map[string]interface{}{"key": s.key, "pattern": s.pat, "style": c17StyleNames[s.style], "line": s.pos.Line, "content_col": s.content})
		}
		return map[string]interface{}{"src": src, "scalars": sc, "expected_glob_diags": wantList, "observed": diagStrings(ds)}
	}
	c.Logf("src:\n%s\nexpected glob diagnostics (API result mapped onto the scalars): %q\nobserved: %q", src, wantList, diagStrings(ds))
	// source-based, reference-free check of every glob diagnostic
	for _, d := range globs {
		var sc *c17Scalar
		for _, s := range scalars {
			if s.pos.Line == d.Line {
				sc = s
			}
		}
		if sc == nil {
			c.Violation("C17:lint-report-not-on-filter-line", "glob diagnostic on a line without filter pattern: "+d.String(), det())
			return
		}
		isRef := !strings.HasPrefix(sc.key, "paths")
		rel := d.Col - sc.content + 1
		line := []rune(srcLines[d.Line-1])
		p := []rune(sc.pat)
		st.cnt["lint_reports_checked"]++
		// the scalar text sits at columns content .. content+len-1 of the source line (in characters)
		if sig, what := c17ReportSig(p, isRef, d.Msg, rel, len(sc.pat)); sig != "" {
			c.Violation(sig, fmt.Sprintf("through Lint, %s %s scalar %q: %s", sc.key, c17StyleNames[sc.style], sc.pat, what), det())
			continue
		}
		if named, ok := c17NamedChar(d.Msg); ok {
			if d.Col < 1 || d.Col > len(line) || line[d.Col-1] != named {
				c.Violation("C17:lint-named-char-not-at-source-column:"+c17StyleNames[sc.style], fmt.Sprintf("diagnostic %s names %q but the source does not have it there", d.String(), named), det())
			} else if named == '%' {
				st.add("lint_keys_named_percent", sc.key)
				st.cnt["lint_reports_naming_percent"]++
			}
		}
	}
	// mapping check: Lint == API result shifted onto the scalar
	same := len(got) == len(want)
	for k, n := range want {
		if got[k] != n {
			same = false
		}
	}
	if !same {
		style := "mixed"
		if len(scalars) == 1 {
			style = c17StyleNames[scalars[0].style]
		}
		// same positions, other text: the rule's message is not <validator message><note>
		type lc struct{ line, col int }
		gp, wp := map[lc]int{}, map[lc]int{}
		for k, n := range got {
			gp[lc{k.line, k.col}] += n
		}
		for k, n := range want {
			wp[lc{k.line, k.col}] += n
		}
		posSame := len(gp) == len(wp)
		for k, n := range wp {
			if gp[k] != n {
				posSame = false
			}
		}
		if posSame {
			c.Violation("C17:lint-message-not-validator-message-plus-note", "glob diagnostics of Lint stand at the right positions but their text is not the validator's message followed by the fixed note", det())
			return
		}
		c.Violation("C17:lint-column-mapping:"+style, "glob diagnostics of Lint differ from the validator reports mapped onto the YAML scalars", det())
	}
	if c.Idx < 3 && len(wantList) > 0 && c.R.Intn(3) == 0 {
		c.Sample(map[string]interface{}{"src": src, "glob_diags": diagStrings(globs)})
	}
}

// ---------------------------------------------------------------------------

func runC17(r *Run) {
	r.Rule = "every string over the 16-symbol alphabet {a z * ? + [ ] - ! \\ / . space ~ LF é} up to length 5 (quick) / 6 (thorough), " +
		"random strings of 1..40 characters over that alphabet plus {^ : TAB CR digits upper-case _ @ { quotes , # control characters, 3- and 4-byte runes}, and fragment-grammar strings; " +
		"plus randomly placed blocks of 4096 consecutive strings of the next length; plus every string containing '%' up to length 4 (quick) / 5 (thorough) over {% a z [ ] - ! \\ ? + * / s}; each evaluated with ValidateRefGlob and ValidatePathGlob; a sample rendered as plain/single/double quoted scalars of on.push filters through Linter.Lint. " +
		"Non-trivial = distinct string with a definite reference verdict that expects a report for at least one kind or satisfies the antecedent (accepted as ref) of the ref=>path implication " +
		"(all of them for length <= 4, a 1/64 hash sample of the rest), plus distinct (key, style, pattern) triples with at least one glob diagnostic through Lint. " +
		"Rule level: whole workflows whose on: mapping lists 1-5 events in random order (push, pull_request, pull_request_target, workflow_run, filter-less webhook events, and workflow_dispatch / schedule / repository_dispatch / workflow_call), " +
		"webhook events carrying 0-3 filter keys with 1-3 patterns as scalar, block or flow sequence, plain or quoted; non-trivial = distinct workflow with at least one due glob diagnostic."
	r.Assume("patterns are valid UTF-8 without NUL and BOM (text/scanner reports those itself; the statement says nothing about them)")
	r.Assume("column 0 is the documented 'no column' value: empty pattern, leading-space path report, and every report made after the scanner consumed a line feed (InvalidGlobPattern.Column doc comment, pinned by TestValidateGlobErrorColumn)")
	r.Assume("don't-care (reference gives no verdict, invariants still checked): single-character class [x]; class contents with '\\', '[', a '-' that is not a range operator, or a line break; path patterns starting/ending with a space; for refs: ref-forbidden characters inside a class, Git's multi-character rules ('..', '//', '/.', leading '.', '@{', '.lock', lone '@'), an escaped backslash")
	r.Assume("rule level: diagnostics of kinds other than glob (events, syntax-check, ...) are foreign to the property and ignored; a workflow whose events, filters, pattern texts or pattern positions the parser reads differently from what was written is skipped and counted (floor: < 10%)")
	r.Assume("Lint-level scalars are written without YAML escapes (plain / '...' / \"...\"), verified by a parser round trip; others are skipped and counted")

	var fams []*Family
	const blk = 4096
	maxLen := r.Q(5, 6)
	for n := 1; n <= maxLen; n++ {
		n := n
		total := c17Pow(len(c17Alphabet), n)
		ncases := (total + blk - 1) / blk
		fams = append(fams, &Family{Name: fmt.Sprintf("exhaustive-len%d", n), N: ncases, Do: func(c *Case) {
			st := c17NewStats()
			lo := c.Idx * blk
			hi := lo + blk
			if hi > total {
				hi = total
			}
			buf := make([]rune, 0, 8)
			for i := lo; i < hi; i++ {
				c17CheckString(c, st, c17Nth(n, i, buf), n <= 4)
			}
			st.flush(c)
		}})
	}
	// beyond the exhaustive bound: randomly placed blocks of the next length
	{
		n := maxLen + 1
		total := c17Pow(len(c17Alphabet), n)
		fams = append(fams, &Family{Name: fmt.Sprintf("sample-len%d", n), N: r.Q(256, 4096), Do: func(c *Case) {
			st := c17NewStats()
			lo := int(c.R.U64()%uint64(total/blk)) * blk
			buf := make([]rune, 0, 8)
			for i := lo; i < lo+blk; i++ {
				c17CheckString(c, st, c17Nth(n, i, buf), false)
			}
			st.flush(c)
		}})
	}
	// '%' next to every special character, as member and as range end: exhaustive over a second alphabet
	{
		alpha := []rune{'%', 'a', 'z', '[', ']', '-', '!', '\\', '?', '+', '*', '/', 's'}
		maxP := r.Q(4, 5)
		for n := 1; n <= maxP; n++ {
			n := n
			total := c17Pow(len(alpha), n)
			fams = append(fams, &Family{Name: fmt.Sprintf("percent-len%d", n), N: (total + blk - 1) / blk, Do: func(c *Case) {
				st := c17NewStats()
				lo := c.Idx * blk
				hi := lo + blk
				if hi > total {
					hi = total
				}
				buf := make([]rune, n)
				for i := lo; i < hi; i++ {
					x := i
					for k := 0; k < n; k++ {
						buf[k] = alpha[x%len(alpha)]
						x /= len(alpha)
					}
					s := string(buf)
					if strings.ContainsRune(s, '%') {
						c17CheckString(c, st, s, n <= 3)
					}
				}
				st.flush(c)
			}})
		}
	}
	fams = append(fams, &Family{Name: "empty", N: 1, Do: func(c *Case) {
		st := c17NewStats()
		c17CheckString(c, st, "", true)
		st.flush(c)
	}})
	fams = append(fams, &Family{Name: "random-40", N: r.Q(64, 1000), Do: func(c *Case) {
		st := c17NewStats()
		for k := 0; k < 1000; k++ {
			s := c17RandomString(c.R, 40)
			c17CheckString(c, st, s, false)
			if c.Idx == 0 && k < 2 {
				c.Sample(map[string]interface{}{"pattern": s, "ref": c17ErrStrings(actionlint.ValidateRefGlob(s)), "path": c17ErrStrings(actionlint.ValidatePathGlob(s))})
			}
		}
		st.flush(c)
	}})
	fams = append(fams, &Family{Name: "grammar-40", N: r.Q(64, 1000), Do: func(c *Case) {
		st := c17NewStats()
		for k := 0; k < 1000; k++ {
			s := c17GrammarString(c.R)
			c17CheckString(c, st, s, false)
			if c.Idx == 0 && k < 3 {
				c.Sample(map[string]interface{}{"pattern": s, "ref": c17ErrStrings(actionlint.ValidateRefGlob(s)), "path": c17ErrStrings(actionlint.ValidatePathGlob(s))})
			}
		}
		st.flush(c)
	}})
	fams = append(fams, &Family{Name: "lint-scalars", N: r.Q(160, 2000), Do: func(c *Case) {
		st := c17NewStats()
		for k := 0; k < 25; k++ {
			c17LintCase(c, st)
		}
		st.flush(c)
	}})
	fams = append(fams, c17WfFamily(r)) // rule level: whole workflows, see c17_wf.go
	r.RunFamilies(fams)
	if r.ReplayOf != nil {
		return
	}
	r.SetExhaustive(true)
	r.Extra("exhaustive_bound", fmt.Sprintf("all strings of length <= %d over the 16-symbol alphabet, both validators", maxLen))
	c17WfFloors(r)

	// coverage floors
	floor := func(name string, min int64) {
		if v := r.Counter(name); v < min {
			r.Inconclusive(fmt.Sprintf("coverage floor: %s = %d < %d", name, v, min))
		}
	}
	floor("ref_accepted", 1000) // antecedent of the implication
	floor("compared_ref_accept", 1000)
	floor("compared_ref_reject", 1000)
	floor("compared_path_accept", 1000)
	floor("compared_path_reject", 1000)
	floor("named_char_checked", 1000)
	floor("reports_col_zero", 10)
	floor("lint_reports_checked", 200)
	for _, cls := range []string{"empty", "bang-alone", "qmark-after-special", "plus-after-special", "empty-class", "missing-bracket", "range-end-missing", "range-reversed", "useless-class", "newline", "ref-start-slash", "ref-end", "ref-backslash", "ref-char", "path-lead-space", "path-trail-space"} {
		if !r.SetHas("message_classes", cls) {
			r.Inconclusive("coverage floor: no report of class " + cls + " was observed")
		}
	}
	for _, s := range c17StyleNames {
		if !r.SetHas("lint_styles_with_reports", s) {
			r.Inconclusive("coverage floor: no glob diagnostic on a " + s + " scalar through Lint")
		}
	}
	for _, k := range c17FilterKeys {
		if !r.SetHas("lint_keys_with_reports", k) {
			r.Inconclusive("coverage floor: no glob diagnostic for on.push." + k + " through Lint")
		}
		if !r.SetHas("lint_keys_named_percent", k) {
			r.Inconclusive("coverage floor: no glob diagnostic naming '%' (correctly, at its column) for on.push." + k + " through Lint")
		}
	}
	floor("api_reports_naming_percent", 1000)
}
