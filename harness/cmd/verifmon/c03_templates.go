package main

// C03 — maximal clean template workflows. Together they contain every scalar value position of
// the workflow syntax that actionlint's parser knows (parse.go), including the rarely used ones.
// Their cleanliness on the current tree is asserted by the monitor (a template that does not lint
// clean makes the run inconclusive, never a violation).

type c03Template struct {
	Name string
	Src  string
}

var c03Templates = []c03Template{
	{"tmpl-main", c03TmplMain},
	{"tmpl-call", c03TmplCall},
	{"tmpl-scalar-forms", c03TmplScalarForms},
	{"tmpl-expr-forms", c03TmplExprForms},
	{"tmpl-on-scalar", c03TmplOnScalar},
	{"tmpl-on-seq", c03TmplOnSeq},
	{"tmpl-flow", c03TmplFlow},
	{"tmpl-filters-a", c03TmplFiltersA},
	{"tmpl-filters-b", c03TmplFiltersB},
}

// Everything in block style; mapping forms of every section; ports AND volumes together in both
// orders; include/exclude lists of the shape [expression typed any, mapping, expression typed
// object, mapping, expression].
const c03TmplMain = `name: Maximal template
run-name: Run of ${{ github.workflow }} by ${{ github.actor }}
on:
  push:
    branches:
      - main
      - 'releases/**'
    tags:
      - v1
      - 'v2.*'
    paths:
      - 'src/**'
      - '!src/docs/**'
  pull_request:
    types:
      - opened
      - synchronize
    branches-ignore:
      - wip
    paths-ignore:
      - 'docs/**'
  pull_request_target:
    types: opened
    branches: main
  create:
  workflow_run:
    workflows:
      - Build
      - Other
    types:
      - completed
    branches:
      - main
  schedule:
    - cron: '0 0 * * *'
    - cron: '30 5 * * 1,3'
  repository_dispatch:
    types:
      - custom-event
      - other-event
  workflow_dispatch:
    inputs:
      who:
        description: Person to greet
        required: true
        default: world
        type: string
      kind:
        description: Kind of run
        required: false
        type: choice
        default: small
        options:
          - small
          - large
      flag:
        description: A flag
        type: boolean
        default: false
      count:
        description: A number
        type: number
        default: 3
      where:
        description: An environment
        type: environment
permissions:
  contents: read
  issues: write
env:
  TOP_LEVEL: top
  OTHER_TOP: ${{ github.sha }}
defaults:
  run:
    shell: bash
    working-directory: ./src
concurrency:
  group: ci-${{ github.ref }}
  cancel-in-progress: true
jobs:
  prep:
    runs-on: ubuntu-latest
    outputs:
      list: ${{ steps.gen.outputs.list }}
      inc: ${{ steps.gen.outputs.inc }}
    steps:
      - id: gen
        run: echo "list=[1,2]" >> "$GITHUB_OUTPUT"
  build:
    name: Build on ${{ matrix.os }}
    needs:
      - prep
    runs-on: ${{ matrix.os }}
    permissions:
      contents: read
      packages: write
    environment:
      name: production
      url: https://example.com/${{ github.sha }}
    concurrency:
      group: build-${{ github.ref }}
      cancel-in-progress: false
    outputs:
      version: ${{ steps.first.outputs.ref }}
      other: fixed
    env:
      JOB_LEVEL: job
      JOB_EXPR: ${{ github.run_id }}
    defaults:
      run:
        shell: sh
        working-directory: build
    if: github.event_name == 'push'
    timeout-minutes: 30
    continue-on-error: false
    strategy:
      fail-fast: true
      max-parallel: 2
      matrix:
        os:
          - ubuntu-latest
          - windows-latest
        node:
          - 14
          - 16
          - 18
        cfg:
          - name: one
            opts:
              - x
              - y
              - w
          - name: two
            opts:
              - z
        dyn: ${{ fromJSON(needs.prep.outputs.list) }}
        include:
          - ${{ fromJSON(needs.prep.outputs.inc) }}
          - os: ubuntu-latest
            node: 18
            extra:
              key: value
              list:
                - p
                - q
          - ${{ fromJSON('{"os":"macos-latest"}') }}
          - os: windows-latest
            node: 20
          - ${{ fromJSON(needs.prep.outputs.inc) }}
        exclude:
          - ${{ fromJSON(needs.prep.outputs.inc) }}
          - os: windows-latest
            node: 14
          - ${{ fromJSON('{"os":"ubuntu-latest"}') }}
          - os: ubuntu-latest
            node: 16
          - ${{ fromJSON(needs.prep.outputs.inc) }}
    container:
      image: node:18
      credentials:
        username: user
        password: ${{ secrets.REGISTRY_PASSWORD }}
      env:
        IN_CONTAINER: yes-it-is
      ports:
        - 80
        - 8080:80
      volumes:
        - my_docker_volume:/volume_mount
        - /data/my_data
      options: --cpus 1
    services:
      redis:
        image: redis
        credentials:
          username: svcuser
          password: ${{ secrets.SVC_PASSWORD }}
        env:
          IN_SERVICE: svc
        volumes:
          - /srv/data:/data
          - cache:/cache
        ports:
          - 6379:6379
          - 6380
        options: --health-cmd "redis-cli ping"
      db:
        image: postgres:15
        ports:
          - 5432:5432
        volumes:
          - pgdata:/var/lib/postgresql/data
      web:
        image: nginx
        volumes:
          - /etc/nginx
        options: --cpus 2
      bare:
        image: memcached
        ports:
          - 11211
    steps:
      - id: first
        name: First step
        if: ${{ success() }}
        uses: actions/checkout@v4
        with:
          ref: main
          fetch-depth: 0
        env:
          STEP_LEVEL: step
        continue-on-error: true
        timeout-minutes: 5
      - name: Docker step
        uses: docker://alpine:3.8
        with:
          entrypoint: /bin/echo
          args: hello world
          custom: value
      - name: Script step
        id: script
        if: always()
        run: echo "$STEP_LEVEL"
        shell: bash
        working-directory: ./work
        env:
          STEP_LEVEL: ${{ github.job }}
          SECOND: two
        continue-on-error: false
        timeout-minutes: 1.5
      - working-directory: before-run
        run: |
          echo one
          echo two
      - uses: actions/github-script@v7
        with:
          script: console.log('hi')
          result-encoding: string
  caller:
    name: Call reusable
    needs: build
    if: ${{ always() }}
    permissions:
      contents: write
    concurrency:
      group: call
    strategy:
      fail-fast: false
      matrix:
        target:
          - a
          - b
    uses: owner/repo/.github/workflows/reusable.yml@main
    with:
      first: one
      second: ${{ matrix.target }}
    secrets:
      token: ${{ secrets.GITHUB_TOKEN }}
      other: ${{ secrets.OTHER }}
  inheriting:
    uses: owner/repo/.github/workflows/reusable.yml@v1
    secrets: inherit
`

// workflow_call with every field of inputs / secrets / outputs; required given in all of them.
const c03TmplCall = `name: Reusable
on:
  workflow_call:
    inputs:
      text:
        description: Some text
        required: false
        default: hello
        type: string
      flag:
        description: Some flag
        required: false
        default: true
        type: boolean
      num:
        description: Some number
        required: false
        default: 42
        type: number
      only-required:
        required: true
        type: string
    secrets:
      token:
        description: A token
        required: true
      optional:
        description: Optional secret
        required: false
      only-required:
        required: true
    outputs:
      result:
        description: The result
        value: ${{ jobs.work.outputs.result }}
      second:
        value: fixed
jobs:
  work:
    runs-on: ubuntu-latest
    outputs:
      result: ${{ steps.s.outputs.r }}
    steps:
      - id: s
        run: echo "${{ inputs.text }}"
        env:
          TOKEN: ${{ secrets.token }}
`

// Scalar short forms of the sections that allow them, the remaining runs-on forms and tag filters.
const c03TmplScalarForms = `on:
  push:
    tags-ignore:
      - 'tmp-*'
    branches:
      - main
  pull_request:
    paths:
      - '**.go'
    branches:
      - main
permissions: read-all
concurrency: top-${{ github.ref }}
jobs:
  first:
    runs-on: ubuntu-latest
    permissions: write-all
    environment: staging
    concurrency: job-${{ github.ref }}
    container: node:18
    services:
      cache: redis:7
    steps:
      - run: echo first
  second:
    needs: first
    runs-on:
      - self-hosted
      - linux
    steps:
      - run: echo second
  third:
    needs:
      - first
      - second
    runs-on:
      group: my-group
      labels:
        - self-hosted
        - linux
    steps:
      - run: echo third
  fourth:
    runs-on:
      group: other-group
      labels: ubuntu-latest
    steps:
      - run: echo fourth
  fifth:
    runs-on:
      labels: ubuntu-latest
    steps:
      - run: echo fifth
  sixth:
    runs-on:
      group: only-group
    steps:
      - run: echo sixth
`

// Positions that take a whole-value placeholder: every one of them holds a (valid) expression.
const c03TmplExprForms = `on: push
env: ${{ fromJSON('{}') }}
jobs:
  gen:
    runs-on: ubuntu-latest
    outputs:
      m: ${{ steps.s.outputs.m }}
    steps:
      - id: s
        run: echo
  whole-matrix:
    needs: gen
    runs-on: ubuntu-latest
    strategy:
      matrix: ${{ fromJSON(needs.gen.outputs.m) }}
      fail-fast: ${{ github.event_name == 'push' }}
      max-parallel: ${{ fromJSON(needs.gen.outputs.m).n }}
    env: ${{ fromJSON(needs.gen.outputs.m) }}
    timeout-minutes: ${{ fromJSON(needs.gen.outputs.m).t }}
    continue-on-error: ${{ github.event_name == 'push' }}
    concurrency:
      group: g
      cancel-in-progress: ${{ github.event_name == 'push' }}
    services: ${{ fromJSON(needs.gen.outputs.m) }}
    container:
      image: alpine
      env: ${{ fromJSON(needs.gen.outputs.m) }}
    steps:
      - run: echo
        env: ${{ fromJSON(needs.gen.outputs.m) }}
        continue-on-error: ${{ github.event_name == 'push' }}
        timeout-minutes: ${{ fromJSON(needs.gen.outputs.m).t }}
  parts:
    needs: gen
    runs-on:
      group: grp
      labels: ${{ fromJSON(needs.gen.outputs.m) }}
    strategy:
      matrix:
        row: ${{ fromJSON(needs.gen.outputs.m) }}
        plain:
          - 1
          - ${{ github.run_id }}
          - 3
        include: ${{ fromJSON(needs.gen.outputs.m) }}
        exclude: ${{ fromJSON(needs.gen.outputs.m) }}
    steps:
      - run: echo
  only-scalar-include:
    needs: gen
    runs-on: ubuntu-latest
    strategy:
      matrix:
        include:
          - ${{ fromJSON(needs.gen.outputs.m) }}
    steps:
      - run: echo
  only-scalar-exclude:
    needs: gen
    runs-on: ubuntu-latest
    strategy:
      matrix:
        a:
          - 1
        exclude:
          - ${{ fromJSON(needs.gen.outputs.m) }}
    steps:
      - run: echo
`

const c03TmplOnScalar = `on: pull_request
jobs:
  j:
    runs-on: ubuntu-latest
    steps:
      - run: echo
`

const c03TmplOnSeq = `on:
  - push
  - pull_request
  - workflow_dispatch
  - workflow_call
jobs:
  j:
    runs-on: ubuntu-latest
    steps:
      - run: echo
`

// Flow style collections and quoted scalars at many positions (the mutation has to quote its
// replacement here).
const c03TmplFlow = `name: "Flow style"
on: {push: {branches: [main, 'rel/*'], paths: ["a/**"]}, workflow_dispatch: {inputs: {x: {description: "d", required: false, default: 'v', type: choice, options: [v, w]}}}}
env: {A: "1", B: '2'}
jobs:
  flow:
    runs-on: [self-hosted, "linux"]
    strategy: {fail-fast: false, max-parallel: 1, matrix: {os: [linux, mac], include: [{os: linux, v: 1}], exclude: [{os: mac}]}}
    container: {image: "alpine", ports: [80, "81:81"], volumes: ['v:/v', /w], options: "--cpus 1", env: {X: y}, credentials: {username: u, password: "${{ secrets.P }}"}}
    services: {s: {image: redis, volumes: [a:/a], ports: [1]}}
    outputs: {o: "${{ steps.a.outputs.x }}"}
    steps: [{id: a, run: "echo", shell: bash, env: {K: v}}, {uses: "actions/checkout@v4", with: {ref: "main"}}]
`

// Scalar forms of the event filters; nested free-form matrix values.
const c03TmplFiltersA = `on:
  push:
    branches: main
    tags: v1
    paths: src
  workflow_run:
    workflows: Build
    types: completed
  repository_dispatch:
    types: custom
jobs:
  nested:
    runs-on: ubuntu-latest
    strategy:
      matrix:
        pairs:
          - [1, 2, 3]
          - [3, 4, 5]
        deep:
          - [[a], [b]]
        objs:
          - a:
              b: c
        exclude:
          - pairs: [1, 2, 3]
            objs:
              a:
                b: c
        include:
          - pairs: [5, 6, 7]
            more: [[x]]
    steps:
      - run: echo
`

const c03TmplFiltersB = `on:
  push:
    branches-ignore: wip
    tags-ignore: tmp
    paths-ignore: docs
  pull_request:
    branches-ignore: wip
    paths-ignore: docs
jobs:
  j:
    runs-on: ubuntu-latest
    steps:
      - run: echo
`
