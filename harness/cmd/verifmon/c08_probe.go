package main

// C08: exhaustive case-class probes.
//
// A probe is a small hand-written workflow (or project) in which a few (<= 5) name occurrences are
// marked. EVERY combination of the case classes lower / upper / mixed of the marked occurrences is
// linted and compared with the probe as written (same oracle as the generated families). Two groups:
//
//   dup:*   duplicate checks over case-insensitive names: the same job twice in `needs:` (flow /
//           block sequence, adjacent or not; scalar form as the single-entry control), step ids given
//           twice, action.yml input / output keys given twice, and keys of the case-insensitive
//           mappings given twice (jobs, with, matrix rows / include / nested, inputs, secrets,
//           outputs). Both occurrences run through all case classes, so both orders are covered.
//           For mapping keys the two spellings must differ (the same spelling twice is a YAML error,
//           another diagnostic, outside this property).
//   text:*  every place where a rule other than the expression checker looks at the TEXT of a ${{ }}
//           placeholder (derived from the tree: ContainsExpression / IsExpressionAssigned /
//           isExprAssigned / NewExprParser outside rule_expression.go): runner-label resolving
//           `runs-on: ${{ matrix.x }}` to the labels in the matrix (scalar, flow / block sequence
//           element, labels: of the mapping form, rows and include entries), if-cond "extra characters
//           around ${{ }}", credentials password given by an expression, dynamic shell names, matrix
//           values given by expressions (duplicate / exclude checks skipped), `uses:` / env names /
//           step ids / dispatch defaults / typed fields (timeout-minutes, fail-fast, ...) containing
//           expressions. Context, property and function names inside them are probed.

import (
	"fmt"
	"sort"
	"strings"
)

type c08Probe struct {
	name     string
	files    map[string]string // rel -> template with <<site|text>> marks; single entry "" = workflow in memory
	distinct bool              // skip combinations in which two marked occurrences of a "…:first"/"…:second" pair are spelled identically
}

// c08T converts the <<site|text>> marks of a template into c08N markers.
func c08T(t string) string {
	var sb strings.Builder
	for {
		i := strings.Index(t, "<<")
		if i < 0 {
			sb.WriteString(t)
			return sb.String()
		}
		j := strings.Index(t[i:], ">>")
		body := t[i+2 : i+j]
		k := strings.IndexByte(body, '|')
		sb.WriteString(t[:i])
		sb.WriteString(c08N(body[:k], body[k+1:]))
		t = t[i+j+2:]
	}
}

func c08MixedClass(s string) string {
	b := []byte(s)
	up := true
	for i, c := range b {
		if c08IsLetter(c) {
			if up {
				b[i] = strings.ToUpper(string(c))[0]
			} else {
				b[i] = strings.ToLower(string(c))[0]
			}
			up = !up
		}
	}
	return string(b)
}

var c08CaseClasses = []string{"lower", "upper", "mixed"}

func c08ClassSpelling(s, class string) string {
	switch class {
	case "lower":
		return strings.ToLower(s)
	case "upper":
		return strings.ToUpper(s)
	}
	return c08MixedClass(s)
}

const c08JobTail = `
    runs-on: ubuntu-latest
    steps:
      - run: echo hi
`

func c08Probes() []c08Probe {
	wf := func(name, t string) c08Probe { return c08Probe{name: name, files: map[string]string{"": t}} }
	wfd := func(name, t string) c08Probe {
		return c08Probe{name: name, files: map[string]string{"": t}, distinct: true}
	}
	var ps []c08Probe

	// ---- dup: needs lists
	needsForms := map[string]string{
		"flow":        "    needs: [<<dup:needs:entry-first|bar>>, <<dup:needs:entry-second|bar>>]",
		"block":       "    needs:\n      - <<dup:needs:entry-first|bar>>\n      - <<dup:needs:entry-second|bar>>",
		"flow-apart":  "    needs: [<<dup:needs:entry-first|bar>>, baz, <<dup:needs:entry-second|bar>>]",
		"block-apart": "    needs:\n      - baz\n      - <<dup:needs:entry-first|bar>>\n      - baz2\n      - <<dup:needs:entry-second|bar>>",
		"flow-quoted": "    needs: ['<<dup:needs:entry-first|bar>>', \"<<dup:needs:entry-second|bar>>\"]",
	}
	for _, f := range []string{"flow", "block", "flow-apart", "block-apart", "flow-quoted"} {
		ps = append(ps, wf("dup-needs-"+f, "on: push\njobs:\n  <<dup:needs:job-id-def|bar>>:"+c08JobTail+"  baz:"+c08JobTail+"  baz2:"+c08JobTail+"  foo:\n"+needsForms[f]+c08JobTail))
	}
	// three times the same job
	ps = append(ps, wf("dup-needs-triple", "on: push\njobs:\n  bar:"+c08JobTail+"  foo:\n    needs: [<<dup:needs:entry-first|bar>>, <<dup:needs:entry-second|bar>>, <<dup:needs:entry-third|bar>>]"+c08JobTail))
	// scalar form (single entry: no duplicate possible) as control, with a use through the needs context
	ps = append(ps, wf("needs-scalar", "on: push\njobs:\n  <<dup:needs:job-id-def|bar>>:"+c08JobTail+"  foo:\n    needs: <<dup:needs:scalar-entry|bar>>\n    runs-on: ubuntu-latest\n    steps:\n      - run: echo ${{ <<context-name|needs>>.<<needs-ctx-use|bar>>.result }}\n"))
	// duplicate entry that does not exist (both diagnostics: duplicate + unknown job)
	ps = append(ps, wf("dup-needs-undefined", "on: push\njobs:\n  foo:\n    needs: [<<dup:needs:entry-first|ghost>>, <<dup:needs:entry-second|ghost>>]"+c08JobTail))

	// ---- dup: step ids
	ps = append(ps, wf("dup-step-id", `on: push
jobs:
  a:
    runs-on: ubuntu-latest
    steps:
      - id: <<dup:step-id:first|same>>
        run: echo
      - run: echo
      - id: <<dup:step-id:second|same>>
        run: echo
      - run: echo ${{ steps.<<dup:step-id:use|same>>.outcome }}
`))
	ps = append(ps, wf("dup-step-id-triple", `on: push
jobs:
  a:
    runs-on: ubuntu-latest
    steps:
      - id: <<dup:step-id:first|same>>
        run: echo
      - id: <<dup:step-id:second|same>>
        uses: actions/checkout@v4
      - run: echo
        id: <<dup:step-id:third|same>>
`))

	// ---- dup: action.yml input / output keys given twice (the metadata decoder reports it)
	caller := `on: push
jobs:
  a:
    runs-on: ubuntu-latest
    steps:
      - uses: ./.github/actions/act
        with:
          <<dup:action-key:with-key|name>>: x
`
	ps = append(ps, c08Probe{name: "dup-action-input-keys", files: map[string]string{
		c08MainRel: caller,
		".github/actions/act/action.yml": `name: Act
description: Dup Inputs
inputs:
  <<dup:action-key:input-first|name>>:
    description: One
  other:
    description: Other
  <<dup:action-key:input-second|name>>:
    description: Two
runs:
  using: composite
  steps:
    - run: echo
      shell: bash
`}})
	ps = append(ps, c08Probe{name: "dup-action-output-keys", files: map[string]string{
		c08MainRel: strings.Replace(caller, "        with:\n          <<dup:action-key:with-key|name>>: x\n", "        id: st\n      - run: echo ${{ steps.st.outputs.<<dup:action-key:output-use|res>> }}\n", 1),
		".github/actions/act/action.yml": `name: Act
description: Dup Outputs
outputs:
  <<dup:action-key:output-first|res>>:
    description: One
    value: a
  <<dup:action-key:output-second|res>>:
    description: Two
    value: b
runs:
  using: composite
  steps:
    - run: echo
      shell: bash
`}})

	// ---- dup: keys of the case-insensitive mappings (two different spellings of one key)
	ps = append(ps, wfd("dup-key-job-id", "on: push\njobs:\n  <<dup:key:job-id:first|build>>:"+c08JobTail+"  <<dup:key:job-id:second|BUILD>>:"+c08JobTail))
	ps = append(ps, wfd("dup-key-with", `on: push
jobs:
  a:
    runs-on: ubuntu-latest
    steps:
      - uses: actions/cache@v4
        with:
          <<dup:key:with:first|path>>: p
          key: k
          <<dup:key:with:second|PATH>>: q
`))
	ps = append(ps, wfd("dup-key-matrix-row", `on: push
jobs:
  a:
    strategy:
      matrix:
        <<dup:key:matrix-row:first|os>>: [ubuntu-latest]
        <<dup:key:matrix-row:second|OS>>: [macos-latest]
    runs-on: ubuntu-latest
    steps:
      - run: echo ${{ matrix.<<matrix-use|os>> }}
`))
	ps = append(ps, wfd("dup-key-matrix-include-and-nested", `on: push
jobs:
  a:
    strategy:
      matrix:
        cfg:
          - {<<dup:key:matrix-nested:first|name>>: a, <<dup:key:matrix-nested:second|NAME>>: b}
        include:
          - <<dup:key:matrix-include:first|extra>>: 1
            <<dup:key:matrix-include:second|EXTRA>>: 2
    runs-on: ubuntu-latest
    steps:
      - run: echo ${{ matrix.extra }} ${{ matrix.cfg.name }}
`))
	ps = append(ps, wfd("dup-key-dispatch-input", `on:
  workflow_dispatch:
    inputs:
      <<dup:key:dispatch-input:first|level>>:
        type: string
      <<dup:key:dispatch-input:second|LEVEL>>:
        type: string
jobs:
  a:
    runs-on: ubuntu-latest
    steps:
      - run: echo ${{ inputs.<<input-use|level>> }}
`))
	ps = append(ps, wfd("dup-key-call-input-secret", `on:
  workflow_call:
    inputs:
      <<dup:key:call-input:first|target>>:
        type: string
      <<dup:key:call-input:second|TARGET>>:
        type: string
    secrets:
      <<dup:key:call-secret:first|tok>>:
        required: true
      <<dup:key:call-secret:second|TOK>>:
        required: true
jobs:
  a:
    runs-on: ubuntu-latest
    steps:
      - run: echo ${{ inputs.target }} ${{ secrets.tok }}
`))
	ps = append(ps, wfd("dup-key-job-output", `on: push
jobs:
  a:
    runs-on: ubuntu-latest
    outputs:
      <<dup:key:job-output:first|out>>: x
      <<dup:key:job-output:second|OUT>>: y
    steps:
      - run: echo
  b:
    needs: a
    runs-on: ubuntu-latest
    steps:
      - run: echo ${{ needs.a.outputs.<<job-output-use|out>> }}
`))
	ps = append(ps, wfd("dup-key-call-with-secrets", `on: push
jobs:
  a:
    uses: octo-org/repo/.github/workflows/w.yml@v1
    with:
      <<dup:key:call-with:first|arg>>: 1
      <<dup:key:call-with:second|ARG>>: 2
    secrets:
      <<dup:key:call-secrets:first|tok>>: a
      <<dup:key:call-secrets:second|TOK>>: b
`))

	// ---- text: runner-label reads `runs-on: ${{ matrix.x }}` itself
	runsOn := map[string]string{
		"scalar":        "    runs-on: ${{ <<text:runs-on-matrix:context|matrix>>.<<text:runs-on-matrix:property|os>> }}",
		"scalar-quoted": "    runs-on: \"${{<<text:runs-on-matrix:context|matrix>>.<<text:runs-on-matrix:property|os>>}}\"",
		"flow-seq":      "    runs-on: [%s, '${{ <<text:runs-on-matrix:context|matrix>>.<<text:runs-on-matrix:property|os>> }}']",
		"block-seq":     "    runs-on:\n      - %s\n      - ${{ <<text:runs-on-matrix:context|matrix>>.<<text:runs-on-matrix:property|os>> }}",
		"labels-scalar": "    runs-on:\n      labels: ${{ <<text:runs-on-matrix:context|matrix>>.<<text:runs-on-matrix:property|os>> }}",
		"labels-seq":    "    runs-on:\n      group: grp\n      labels:\n        - %s\n        - ${{ <<text:runs-on-matrix:context|matrix>>.<<text:runs-on-matrix:property|os>> }}",
	}
	for _, f := range []string{"scalar", "scalar-quoted", "flow-seq", "block-seq", "labels-scalar", "labels-seq"} {
		ro := runsOn[f]
		tail := "\n    steps:\n      - run: echo hi\n"
		// unknown label in the row
		ps = append(ps, wf("text-runs-on-matrix-row-unknown-"+f, "on: push\njobs:\n  t:\n    strategy:\n      matrix:\n        <<text:runs-on-matrix:row-key|os>>: [ubuntu-latest, no-such-runner-label]\n"+strings.Replace(ro, "%s", "self-hosted", 1)+tail))
		// unknown label in an include entry
		ps = append(ps, wf("text-runs-on-matrix-include-unknown-"+f, "on: push\njobs:\n  t:\n    strategy:\n      matrix:\n        <<text:runs-on-matrix:row-key|os>>: [ubuntu-latest]\n        include:\n          - <<text:runs-on-matrix:include-key|os>>: bogus-label\n            x: 1\n"+strings.Replace(ro, "%s", "self-hosted", 1)+tail))
		// label in the row conflicting with a sibling label (sequence forms only)
		if strings.Contains(ro, "%s") {
			ps = append(ps, wf("text-runs-on-matrix-conflict-"+f, "on: push\njobs:\n  t:\n    strategy:\n      matrix:\n        <<text:runs-on-matrix:row-key|os>>: [windows-latest]\n"+strings.Replace(ro, "%s", "ubuntu-latest", 1)+tail))
		}
	}
	// not a matrix reference at all / another context with the same property (controls)
	ps = append(ps, wf("text-runs-on-other-context", "on:\n  workflow_dispatch:\n    inputs:\n      <<dispatch-input-def|os>>:\n        type: string\njobs:\n  t:\n    strategy:\n      matrix:\n        os: [no-such-runner-label]\n    runs-on: ${{ <<text:runs-on-other:context|inputs>>.<<text:runs-on-other:property|os>> }}\n    steps:\n      - run: echo ${{ matrix.os }}\n"))
	ps = append(ps, wf("text-runs-on-function", "on: push\njobs:\n  t:\n    strategy:\n      matrix:\n        os: [no-such-runner-label]\n    runs-on: ${{ <<text:runs-on-function:function|fromJSON>>('[\"ubuntu-latest\"]') }}\n    steps:\n      - run: echo ${{ <<text:runs-on-function:context|matrix>>.<<text:runs-on-function:property|os>> }}\n"))

	// ---- text: if-cond "extra characters around ${{ }}"
	ps = append(ps, wf("text-if-extra-chars-job", "on: push\njobs:\n  t:\n    if: ${{ <<text:if-extra-chars:context|github>>.<<text:if-extra-chars:property|event_name>> == 'push' }} && true"+c08JobTail))
	ps = append(ps, wf("text-if-extra-chars-step", "on: push\njobs:\n  t:\n    runs-on: ubuntu-latest\n    steps:\n      - if: \"${{ <<text:if-extra-chars:function|startsWith>>(<<text:if-extra-chars:context|github>>.<<text:if-extra-chars:property|ref>>, 'refs/') }} || ${{ <<text:if-extra-chars:function|failure>>() }}\"\n        run: echo\n"))
	ps = append(ps, wf("text-if-exact-placeholder", "on: push\njobs:\n  t:\n    if: ${{ <<text:if-exact:function|contains>>(<<text:if-exact:context|github>>.<<text:if-exact:property|ref>>, 'x') && <<text:if-exact:function|always>>() }}"+c08JobTail))

	// ---- text: credentials password by expression / literal
	ps = append(ps, wf("text-credentials-password", `on: push
jobs:
  t:
    runs-on: ubuntu-latest
    container:
      image: img
      credentials:
        username: u
        password: ${{ <<text:credentials-password:context|secrets>>.<<text:credentials-password:property|pw>> }}
    services:
      db:
        image: img
        credentials:
          username: ${{ <<text:credentials-password:context|vars>>.<<text:credentials-password:property|user>> }}
          password: x ${{ <<text:credentials-password:context|secrets>>.<<text:credentials-password:property|pw>> }}
    steps:
      - run: echo
`))

	// ---- text: dynamic shell names
	ps = append(ps, wf("text-shell-expression", `on: push
jobs:
  t:
    strategy:
      matrix:
        <<text:shell-expression:row-key|sh>>: [bash, no-such-shell]
    runs-on: ubuntu-latest
    defaults:
      run:
        shell: ${{ <<text:shell-expression:context|matrix>>.<<text:shell-expression:property|sh>> }}
    steps:
      - run: echo
        shell: ${{ <<text:shell-expression:context|matrix>>.<<text:shell-expression:property|sh>> }}
      - run: echo
        shell: no-such-shell
`))

	// ---- text: matrix values given by expressions (the exclude check gives up on them). Two values
	// with the SAME expression text are reported as duplicates by plain text equality of the scalars;
	// that is a comparison of values, not name matching, and is kept out of the compared domain (the
	// two expression values below are different expressions).
	ps = append(ps, wf("text-matrix-value-expression", `on: push
jobs:
  t:
    strategy:
      matrix:
        v:
          - ${{ <<text:matrix-value-expression:context|github>>.<<text:matrix-value-expression:property|ref>> }}
          - ${{ <<text:matrix-value-expression:context|github>>.<<text:matrix-value-expression:property|sha>> }}
          - a
          - a
        exclude:
          - v: ${{ <<text:matrix-value-expression:function|format>>('{0}', 'zz') }}
          - v: nope
    runs-on: ubuntu-latest
    steps:
      - run: echo ${{ matrix.v }}
`))
	ps = append(ps, wf("text-matrix-section-expression", `on: push
jobs:
  prep:
    runs-on: ubuntu-latest
    outputs:
      inc: x
    steps:
      - run: echo
  t:
    needs: prep
    strategy:
      matrix:
        os: [no-such-runner-label]
        include: ${{ <<text:matrix-section-expression:function|fromJSON>>(<<text:matrix-section-expression:context|needs>>.prep.outputs.<<text:matrix-section-expression:property|inc>>) }}
        exclude:
          - os: zzz
    runs-on: ${{ <<text:runs-on-matrix:context|matrix>>.<<text:runs-on-matrix:property|os>> }}
    steps:
      - run: echo
`))

	// ---- text: uses / env names / ids / workflow-call uses containing expressions (checks are skipped)
	ps = append(ps, wf("text-uses-expression", `on: push
jobs:
  t:
    runs-on: ubuntu-latest
    steps:
      - uses: ${{ <<text:uses-expression:context|github>>.<<text:uses-expression:property|repository>> }}/no/such/format
      - uses: not a valid spec
  c:
    uses: ./${{ <<text:uses-expression:context|github>>.<<text:uses-expression:property|ref_name>> }}.yml
  d:
    uses: ./not a valid spec@x
`))
	ps = append(ps, wf("text-id-env-name-expression", `on: push
jobs:
  t:
    strategy:
      matrix:
        n: [a]
    runs-on: ubuntu-latest
    steps:
      - id: ${{ <<text:id-expression:context|matrix>>.<<text:id-expression:property|n>> }}
        run: echo
        env:
          '${{ <<text:env-name-expression:context|matrix>>.<<text:env-name-expression:property|n>> }} X': 1
          'bad name': 2
      - id: bad id
        run: echo ${{ steps.anything.outcome }}
`))

	// ---- text: dispatch input defaults and typed fields given by expressions
	ps = append(ps, wf("text-dispatch-default-expression", `on:
  workflow_dispatch:
    inputs:
      flag:
        type: boolean
        default: ${{ <<text:dispatch-default-expression:context|github>>.<<text:dispatch-default-expression:property|ref_protected>> }}
      num:
        type: number
        default: ${{ <<text:dispatch-default-expression:function|fromJSON>>('1') }}
      flag2:
        type: boolean
        default: not-a-bool
jobs:
  t:
    runs-on: ubuntu-latest
    steps:
      - run: echo
`))
	ps = append(ps, wf("text-typed-field-expression", `on: push
jobs:
  t:
    strategy:
      fail-fast: ${{ <<text:typed-field-expression:context|github>>.<<text:typed-field-expression:property|ref_protected>> }}
      max-parallel: ${{ <<text:typed-field-expression:function|fromJSON>>('2') }}
      matrix:
        <<matrix-row-key|tm>>: [10, 20]
    runs-on: ubuntu-latest
    timeout-minutes: ${{ <<text:typed-field-expression:context|matrix>>.<<text:typed-field-expression:property|tm>> }}
    continue-on-error: ${{ github.ref }}
    steps:
      - run: echo
        timeout-minutes: ${{ toJSON(1) }}
`))
	return ps
}

// c08ProbeCase runs probe c.Idx: the full product of case classes over its marked occurrences.
func c08ProbeCase(c *Case) {
	pr := c08Probes()[c.Idx]
	p := &c08Project{files: map[string]string{}, roles: map[string]string{}}
	if t, ok := pr.files[""]; ok {
		p.files[c08MainRel], p.occs = c08Strip(c08MainRel, c08T(t))
		p.order = []string{c08MainRel}
	} else {
		p.onDisk = true
		p.files[".git/HEAD"] = "ref: refs/heads/main\n"
		p.order = []string{".git/HEAD"}
		var rels []string
		for rel := range pr.files {
			rels = append(rels, rel)
		}
		sort.Strings(rels)
		for _, rel := range rels {
			plain, occs := c08Strip(rel, c08T(pr.files[rel]))
			p.files[rel] = plain
			p.order = append(p.order, rel)
			p.occs = append(p.occs, occs...)
		}
	}
	p.lintFiles = []string{c08MainRel}
	p.roles[c08MainRel] = "workflow"
	n := len(p.occs)
	if n == 0 || n > 6 {
		c.Inconclusive(fmt.Sprintf("probe %s has %d marked occurrences (1..6 expected)", pr.name, n))
		return
	}
	c08RunBase(c, p, func(rn *c08Runner, base c08Obs, try func(edits []c08Edit, k, mode int) bool) {
		if len(base.Keys) == 0 {
			c.Count("probes_with_clean_base", 1)
		}
		total := 1
		for i := 0; i < n; i++ {
			total *= len(c08CaseClasses)
		}
		for v := 0; v < total; v++ {
			var edits []c08Edit
			spell := make([]string, n)
			classes := make([]string, n)
			x := v
			for i, o := range p.occs {
				classes[i] = c08CaseClasses[x%len(c08CaseClasses)]
				x /= len(c08CaseClasses)
				spell[i] = c08ClassSpelling(o.Text, classes[i])
				if spell[i] != o.Text {
					edits = append(edits, c08Edit{i, o.Site, o.File, o.Text, spell[i]})
				}
			}
			if pr.distinct && c08PairClash(p.occs, spell) {
				continue
			}
			for i, o := range p.occs {
				c.Count("probe:"+o.Site+":"+classes[i], 1)
			}
			if len(edits) == 0 {
				continue
			}
			// no bound on the number of reported disagreements: the product is small and the floors
			// (site x case class) are counted over the whole product
			try(edits, v, 9)
		}
	})
}

// c08PairClash: two occurrences of one "<base>:first" / "<base>:second" pair spelled identically.
func c08PairClash(occs []c08Occ, spell []string) bool {
	for i, a := range occs {
		if !strings.HasSuffix(a.Site, ":first") {
			continue
		}
		for j, b := range occs {
			if b.Site == strings.TrimSuffix(a.Site, ":first")+":second" && spell[i] == spell[j] {
				return true
			}
		}
	}
	return false
}

// c08ProbeSites lists the marked sites of all probes (for the floors: site x case class).
func c08ProbeSites() []string {
	seen := map[string]bool{}
	var out []string
	for _, pr := range c08Probes() {
		for _, t := range pr.files {
			_, occs := c08Strip("", c08T(t))
			for _, o := range occs {
				if !seen[o.Site] {
					seen[o.Site] = true
					out = append(out, o.Site)
				}
			}
		}
	}
	sort.Strings(out)
	return out
}
