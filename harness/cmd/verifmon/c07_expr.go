package main

// C07 — catalogue of erroneous expressions. Every entry is  pre + bad + post  where the expected
// diagnostic is anchored at offset len(pre)+in of the expression text (the unexpected character
// for lexer errors, the unexpected token for parser errors, the first token of the offending
// sub-expression for semantic errors), or at the closing "}}" (end == true).

import (
	"fmt"
	"strings"
)

type c07ExprErr struct {
	class string // lexer | parser | sema-var | sema-func | sema-prop | sema-type | avail | untrusted | template
	pre   string
	bad   string
	post  string
	in    int    // offset of the anchor inside bad
	end   bool   // anchor is the end marker "}}" (or the end of a bare condition)
	msg   string // substring of the expected message
	abs   bool   // the statement fixes the absolute position (false: only the shift relation is checked)
	tag   string // required site tag ("" = any site)
	wrap  bool   // may be nested inside wrapper expressions
	// additional diagnostics that may accompany the main one, all at the same anchor
	also []string
	// further REQUIRED diagnostics of the same expression anchored at other sub-nodes; off is the
	// offset from the start of pre (overloaded functions report one error per overload)
	extra []c07ExprExtra
	sub   string // anchor kind / sub-node index, for coverage ("arg2", "rest4", "operand2" ...)
}

type c07ExprExtra struct {
	msg string
	off int
}

func (e *c07ExprErr) text() string { return e.pre + e.bad + e.post }

var c07LexBadChars = []string{"@", "%", ";", "?", "^", "~", "$", "+", "/", "\\", "\"", "`"}

func c07ExprCatalogue() []c07ExprErr {
	var out []c07ExprErr
	lexMsg := "while lexing expression"
	for _, ch := range c07LexBadChars {
		out = append(out,
			c07ExprErr{class: "lexer", pre: "", bad: ch, post: " 1", msg: lexMsg, abs: true},
			c07ExprErr{class: "lexer", pre: "github.sha == ", bad: ch, post: "", msg: lexMsg, abs: true},
			c07ExprErr{class: "lexer", pre: "github.event.", bad: ch, post: "x", msg: lexMsg, abs: true},
		)
	}
	out = append(out,
		c07ExprErr{class: "lexer", pre: "1 &", bad: " 2", msg: "while lexing && operator", abs: true},
		c07ExprErr{class: "lexer", pre: "true |", bad: "x", msg: "while lexing || operator", abs: true},
		c07ExprErr{class: "lexer", pre: "1 =", bad: " 2", msg: "while lexing == operator", abs: true},
		c07ExprErr{class: "lexer", pre: "0x", bad: "g1", msg: "while lexing hex integer", abs: true},
		c07ExprErr{class: "lexer", pre: "1.", bad: "x", msg: "while lexing fraction part of float number", abs: true},
		c07ExprErr{class: "lexer", pre: "1e", bad: "x", msg: "while lexing exponent part of float number", abs: true},
		c07ExprErr{class: "lexer", pre: "12", bad: "ab", msg: "while lexing character following number", abs: true},
		c07ExprErr{class: "lexer", pre: "1 == -", bad: "x", msg: "while lexing integer part of number", abs: true},
		c07ExprErr{class: "lexer", pre: "1 }", bad: " 2", msg: "while lexing end marker }}", abs: true},
		// unterminated string literal: reported where the input ends; the statement does not say
		// where "end of input" is, so only the shift relation is checked (anchor: the opening quote)
		c07ExprErr{class: "lexer-eof", pre: "github.sha == ", bad: "'abc", post: "", msg: "while lexing end of string literal", abs: false},
		c07ExprErr{class: "lexer-eof", pre: "", bad: "'", post: "", msg: "while lexing end of string literal", abs: false},
	)
	// parser
	out = append(out,
		c07ExprErr{class: "parser", pre: "github.", bad: "", end: true, msg: "unexpected end of input while parsing object property dereference", abs: true},
		c07ExprErr{class: "parser", pre: "(1", bad: "", end: true, msg: "unexpected end of input while parsing", abs: true},
		c07ExprErr{class: "parser", pre: "!", bad: "", end: true, msg: "unexpected end of input while parsing", abs: true},
		c07ExprErr{class: "parser", pre: "1 ==", bad: "", end: true, msg: "unexpected end of input while parsing", abs: true},
		c07ExprErr{class: "parser", pre: "", bad: "", end: true, msg: "unexpected end of input while parsing", abs: true},
		c07ExprErr{class: "parser", pre: "github.", bad: ".sha", msg: "unexpected token \".\" while parsing", abs: true},
		c07ExprErr{class: "parser", pre: "contains(1, ", bad: ")", msg: "unexpected token \")\" while parsing", abs: true},
		c07ExprErr{class: "parser", pre: "github.sha ", bad: "github.ref", msg: "parser did not reach end of input", abs: true},
		c07ExprErr{class: "parser", pre: "1 ", bad: "2", msg: "parser did not reach end of input", abs: true},
		c07ExprErr{class: "parser", pre: "1 == ", bad: "== 2", msg: "unexpected token \"==\" while parsing", abs: true},
		c07ExprErr{class: "parser", pre: "true && ", bad: "&& false", msg: "unexpected token \"&&\" while parsing", abs: true},
		c07ExprErr{class: "parser", pre: "github[1 ", bad: "2]", msg: "unexpected token \"INTEGER\" while parsing", abs: true},
		c07ExprErr{class: "parser", pre: "github.", bad: "1", msg: "unexpected token \"INTEGER\" while parsing", abs: true},
		c07ExprErr{class: "parser", pre: "", bad: ") ", msg: "unexpected token \")\" while parsing", abs: true},
		c07ExprErr{class: "parser", pre: "contains(1 ", bad: "2)", msg: "unexpected token \"INTEGER\" while parsing", abs: true},
		c07ExprErr{class: "parser", pre: "1 < ", bad: "<= 2", msg: "unexpected token \"<=\" while parsing", abs: true},
		c07ExprErr{class: "parser", pre: "github.sha", bad: "(", post: "1)", msg: "parser did not reach end of input", abs: true},
	)
	// "}}" inside a condition that is not enclosed in ${{ }}
	out = append(out,
		c07ExprErr{class: "parser", pre: "true ", bad: "}} garbage", msg: "unexpected \"}}\" in the middle of \"if\" condition", abs: true, tag: "bareonly"},
		c07ExprErr{class: "parser", pre: "github.sha == github.sha", bad: "}}", post: " || x", msg: "unexpected \"}}\" in the middle of \"if\" condition", abs: true, tag: "bareonly"},
	)
	// semantic: anchor = first token of the offending sub-expression
	out = append(out,
		c07ExprErr{class: "sema-var", bad: "nope", msg: "undefined variable \"nope\"", abs: true, wrap: true},
		c07ExprErr{class: "sema-var", bad: "nope.x.y", msg: "undefined variable \"nope\"", abs: true, wrap: true},
		c07ExprErr{class: "sema-var", bad: "nope[0]", msg: "undefined variable \"nope\"", abs: true, wrap: true},
		c07ExprErr{class: "sema-var", pre: "github.sha == ", bad: "Nope", msg: "undefined variable \"Nope\"", abs: true, wrap: true},
		c07ExprErr{class: "sema-func", bad: "nofunc()", msg: "undefined function \"nofunc\"", abs: true, wrap: true},
		c07ExprErr{class: "sema-func", bad: "nofunc(1, github.sha)", msg: "undefined function \"nofunc\"", abs: true, wrap: true},
		c07ExprErr{class: "sema-func", pre: "true && ", bad: "noFunc(2)", msg: "undefined function \"noFunc\"", abs: true, wrap: true},
		c07ExprErr{class: "sema-prop", bad: "github.nope", msg: "property \"nope\" is not defined in object type", abs: true, wrap: true},
		c07ExprErr{class: "sema-prop", bad: "github.nope.x", msg: "property \"nope\" is not defined in object type", abs: true, wrap: true},
		c07ExprErr{class: "sema-prop", pre: "github.sha != ", bad: "github.Nope2", msg: "property \"nope2\" is not defined in object type", abs: true, wrap: true},
		c07ExprErr{class: "sema-prop", bad: "github['nope']", msg: "property \"nope\" is not defined in object type", abs: true, wrap: true},
		c07ExprErr{class: "sema-type", bad: "github.sha.foo", msg: "receiver of object dereference \"foo\" must be type of object", abs: true, wrap: true},
		c07ExprErr{class: "sema-type", pre: "github[", bad: "0", post: "]", msg: "property access of object must be type of string", abs: true, wrap: true},
		c07ExprErr{class: "sema-type", bad: "startsWith(1)", msg: "number of arguments is wrong", abs: true, wrap: true},
		c07ExprErr{class: "sema-type", pre: "startsWith(", bad: "github", post: ", 1)", msg: "1st argument of function call is not assignable", abs: true, wrap: true},
		c07ExprErr{class: "sema-type", pre: "contains(1, 2) && startsWith(1,  ", bad: "github.event", post: ")", msg: "2nd argument of function call is not assignable", abs: true, wrap: true},
		c07ExprErr{class: "sema-type", bad: "github.sha.*", msg: "receiver of object filtering `.*` must be type of array or object", abs: true, wrap: true},
		c07ExprErr{class: "sema-type", bad: "format('{0} {1}', 1)", msg: "contains placeholder {1} but only 1 arguments are given", abs: true, wrap: true},
		c07ExprErr{class: "sema-type", pre: "fromJSON(", bad: "'{'", post: ")", msg: "broken JSON string is passed to fromJSON()", abs: true, wrap: true},
		c07ExprErr{class: "sema-type", bad: "github.sha[0]", msg: "index access operand must be type of object or array", abs: true, wrap: true},
	)
	// diagnostics anchored at a SUB-NODE: every anchor kind occurs at several sub-node indices so
	// that an index slip (wrong argument / operand / index expression) is visible
	notAssign := func(ord, from, to string) string {
		return ord + " argument of function call is not assignable. \"" + from + "\" cannot be assigned to \"" + to + "\""
	}
	out = append(out,
		// single-signature functions: each argument index
		c07ExprErr{class: "sema-arg", sub: "startsWith/1", pre: "startsWith(", bad: "github.event", post: ", 'a')", msg: notAssign("1st", "object", "string"), abs: true, wrap: true},
		c07ExprErr{class: "sema-arg", sub: "startsWith/2", pre: "startsWith('abc', ", bad: "github.event", post: ")", msg: notAssign("2nd", "object", "string"), abs: true, wrap: true},
		c07ExprErr{class: "sema-arg", sub: "startsWith/2", pre: "startsWith(github.sha,", bad: "null", post: ")", msg: notAssign("2nd", "null", "string"), abs: true, wrap: true},
		c07ExprErr{class: "sema-arg", sub: "endsWith/1", pre: "endsWith(", bad: "null", post: ", github.ref)", msg: notAssign("1st", "null", "string"), abs: true, wrap: true},
		c07ExprErr{class: "sema-arg", sub: "endsWith/2", pre: "endsWith(github.ref,  ", bad: "github.event", post: " )", msg: notAssign("2nd", "object", "string"), abs: true, wrap: true},
		c07ExprErr{class: "sema-arg", sub: "fromJSON/1", pre: "fromJSON( ", bad: "github.event", post: ")", msg: notAssign("1st", "object", "string"), abs: true, wrap: true},
		c07ExprErr{class: "sema-arg", sub: "format/1", pre: "format(", bad: "github.event", post: ", 1, 2)", msg: notAssign("1st", "object", "string"), abs: true, wrap: true},
		c07ExprErr{class: "sema-arg", sub: "format/1", pre: "format(  ", bad: "null", post: ", github.sha)", msg: notAssign("1st", "null", "string"), abs: true, wrap: true},
		// overloaded functions: one error per overload, each anchored at its own argument
		c07ExprErr{class: "sema-arg", sub: "contains/2", pre: "contains('abc', ", bad: "github.event", post: ")", msg: notAssign("2nd", "object", "string"), abs: true, wrap: true,
			extra: []c07ExprExtra{{notAssign("1st", "string", "array<any>"), 9}}},
		c07ExprErr{class: "sema-arg", sub: "contains/1", pre: "contains(", bad: "github.event", post: ", 'a')", msg: notAssign("1st", "object", "string"), abs: true, wrap: true, also: []string{notAssign("1st", "object", "array<any>")}},
		c07ExprErr{class: "sema-arg", sub: "join/1", pre: "join(", bad: "github.sha", post: ", ',')", msg: notAssign("1st", "string", "array<string>"), abs: true, wrap: true,
			extra: []c07ExprExtra{{"number of arguments is wrong. function \"join(array<string>) -> string\" takes 1 parameters but 2 arguments are given", 0}}},
		c07ExprErr{class: "sema-arg", sub: "join/2", pre: "join(fromJSON('[]'),  ", bad: "github.event", post: ")", msg: notAssign("2nd", "object", "string"), abs: true, wrap: true,
			extra: []c07ExprExtra{{"number of arguments is wrong. function \"join(array<string>) -> string\" takes 1 parameters but 2 arguments are given", 0}}},
		// variadic hashFiles: declared parameter and rest arguments 2..5
		c07ExprErr{class: "sema-arg", sub: "hashFiles/1", pre: "hashFiles(", bad: "github.event", post: ", 'b')", msg: notAssign("1st", "object", "string"), abs: true, wrap: true, tag: "hashfiles"},
		c07ExprErr{class: "sema-arg", sub: "hashFiles/rest2", pre: "hashFiles('**/go.sum', ", bad: "true", post: ")", msg: notAssign("2nd", "bool", "string"), abs: true, wrap: true, tag: "hashfiles"},
		c07ExprErr{class: "sema-arg", sub: "hashFiles/rest2", pre: "hashFiles('a',", bad: "null", post: ", 'c')", msg: notAssign("2nd", "null", "string"), abs: true, wrap: true, tag: "hashfiles"},
		c07ExprErr{class: "sema-arg", sub: "hashFiles/rest3", pre: "hashFiles('a', 'bb', ", bad: "github.event", post: ")", msg: notAssign("3rd", "object", "string"), abs: true, wrap: true, tag: "hashfiles"},
		c07ExprErr{class: "sema-arg", sub: "hashFiles/rest3", pre: "hashFiles(github.sha, github.ref,   ", bad: "null", post: ", 'd')", msg: notAssign("3rd", "null", "string"), abs: true, wrap: true, tag: "hashfiles"},
		c07ExprErr{class: "sema-arg", sub: "hashFiles/rest4", pre: "hashFiles('a', 'b', 'ccc', ", bad: "fromJSON('[]')", post: ")", msg: "4th argument of function call is not assignable", abs: true, wrap: true, tag: "hashfiles"},
		c07ExprErr{class: "sema-arg", sub: "hashFiles/rest4", pre: "hashFiles('a', 'b', 'c', ", bad: "true", post: ", 'e')", msg: notAssign("4th", "bool", "string"), abs: true, wrap: true, tag: "hashfiles"},
		c07ExprErr{class: "sema-arg", sub: "hashFiles/rest5", pre: "hashFiles('a', 'b', 'c', 'dd', ", bad: "null", post: ")", msg: notAssign("5th", "null", "string"), abs: true, wrap: true, tag: "hashfiles"},
		// errors inside an argument at argument index 2 / 3 (anchor: first token of the sub-expression)
		c07ExprErr{class: "sema-sub", sub: "in-arg/2", pre: "format('{0}{1}', ", bad: "github.nope", post: ", 1)", msg: "property \"nope\" is not defined in object type", abs: true, wrap: true},
		c07ExprErr{class: "sema-sub", sub: "in-arg/3", pre: "format('{0}{1}', 1, ", bad: "github.nope", post: ")", msg: "property \"nope\" is not defined in object type", abs: true, wrap: true},
		c07ExprErr{class: "sema-sub", sub: "in-arg/2", pre: "contains('a', ", bad: "format('{0} {1}', 1)", post: ")", msg: "contains placeholder {1} but only 1 arguments are given", abs: true, wrap: true},
		c07ExprErr{class: "sema-sub", sub: "in-arg/3", pre: "format('{0}{1}', 2, ", bad: "nofunc2()", post: ")", msg: "undefined function \"nofunc2\"", abs: true, wrap: true},
		// second / third operand of a logical or comparison operator
		c07ExprErr{class: "sema-sub", sub: "operand/2", pre: "github.sha && ", bad: "github.sha.foo", msg: "receiver of object dereference \"foo\" must be type of object", abs: true, wrap: true},
		c07ExprErr{class: "sema-sub", sub: "operand/3", pre: "github.event.foo || github.ref || ", bad: "github.ref.bar", msg: "receiver of object dereference \"bar\" must be type of object", abs: true, wrap: true},
		c07ExprErr{class: "sema-sub", sub: "operand/2", pre: "github.event.a.b && ", bad: "github.ref.*", msg: "receiver of object filtering `.*` must be type of array or object", abs: true, wrap: true},
		c07ExprErr{class: "sema-sub", sub: "compare/1", bad: "github.sha == github", msg: "value cannot be compared to", abs: true},
		c07ExprErr{class: "sema-sub", sub: "compare/2", pre: "true && ", bad: "github.event == github.sha", msg: "\"object\" value cannot be compared to \"string\" value", abs: true},
		c07ExprErr{class: "sema-sub", sub: "compare/3", pre: "1 < 2 && 2 < 3 && ", bad: "1 == github", msg: "\"number\" value cannot be compared to", abs: true},
		c07ExprErr{class: "sema-sub", sub: "compare/2", pre: "format('{0}', 1) != '' && (", bad: "github.event == github.sha", post: ")", msg: "\"object\" value cannot be compared to \"string\" value", abs: true},
		c07ExprErr{class: "sema-sub", sub: "compare/in-arg", pre: "toJSON(", bad: "github.ref == github", post: ")", msg: "\"string\" value cannot be compared to", abs: true},
		// index expression after a short and after a long receiver
		c07ExprErr{class: "sema-sub", sub: "index/short", pre: "github[", bad: "github.event", post: "]", msg: "property access of object must be type of string but got \"object\"", abs: true, wrap: true},
		c07ExprErr{class: "sema-sub", sub: "index/long", pre: "github.event[ ", bad: "github", post: "]", msg: "property access of object must be type of string but got", abs: true, wrap: true},
	)
	// operands with 2-4 consecutive "!" (0-3 blanks between them): a diagnostic anchored at such an
	// operand is reported at its first character, the FIRST "!"; one anchored at the inner
	// expression is reported after the last one
	for bi, bangs := range []string{"!!", "! !", "!  ! !", "!!!", "!!!!", "!! !", "!   !"} {
		nb := strings.Count(bangs, "!")
		sub := func(t string) string {
			return fmt.Sprintf("%s/%d%s", t, nb, map[bool]string{true: "b", false: ""}[strings.Contains(bangs, " ")])
		}
		boolTo := func(ord, to string) string { return notAssign(ord, "bool", to) }
		out = append(out,
			c07ExprErr{class: "sema-not", sub: sub("arg1"), pre: "startsWith(", bad: bangs + "github.event", post: ", 'a')", msg: boolTo("1st", "string"), abs: true, wrap: true},
			c07ExprErr{class: "sema-not", sub: sub("arg2"), pre: "startsWith('abc', ", bad: bangs + "github.event", post: ")", msg: boolTo("2nd", "string"), abs: true, wrap: true},
			c07ExprErr{class: "sema-not", sub: sub("arg2"), pre: "endsWith(github.ref,", bad: bangs + "1", post: " )", msg: boolTo("2nd", "string"), abs: true, wrap: true},
			c07ExprErr{class: "sema-not", sub: sub("arg1"), pre: "fromJSON( ", bad: bangs + "github.sha", post: ")", msg: boolTo("1st", "string"), abs: true, wrap: true},
			c07ExprErr{class: "sema-not", sub: sub("arg1"), pre: "format(", bad: bangs + "github.event", post: ", 1)", msg: boolTo("1st", "string"), abs: true, wrap: true},
			c07ExprErr{class: "sema-not", sub: sub("arg1-overloads"), pre: "contains(", bad: bangs + "github.sha", post: ", 1)", msg: boolTo("1st", "string"), abs: true, wrap: true, also: []string{boolTo("1st", "array<any>")}},
			c07ExprErr{class: "sema-not", sub: sub("arg1-overloads"), pre: "join(", bad: bangs + "github.event", post: ", ',')", msg: boolTo("1st", "array<string>"), abs: true, wrap: true,
				extra: []c07ExprExtra{{"number of arguments is wrong. function \"join(array<string>) -> string\" takes 1 parameters but 2 arguments are given", 0}}},
			c07ExprErr{class: "sema-not", sub: sub("rest2"), pre: "hashFiles('a', ", bad: bangs + "true", post: ")", msg: boolTo("2nd", "string"), abs: true, wrap: true, tag: "hashfiles"},
			c07ExprErr{class: "sema-not", sub: sub("rest3"), pre: "hashFiles('a', 'b',  ", bad: bangs + "null", post: ", 'd')", msg: boolTo("3rd", "string"), abs: true, wrap: true, tag: "hashfiles"},
			c07ExprErr{class: "sema-not", sub: sub("compare-left"), bad: bangs + "github.event.foo < 1", msg: "\"bool\" value cannot be compared to \"number\" value", abs: true},
			c07ExprErr{class: "sema-not", sub: sub("compare-left"), pre: "1 == 1 && ", bad: bangs + "github.sha == github", msg: "\"bool\" value cannot be compared to", abs: true},
			c07ExprErr{class: "sema-not", sub: sub("compare-left"), pre: "toJSON(", bad: bangs + "github.sha <= 2", post: ")", msg: "\"bool\" value cannot be compared to \"number\" value", abs: true},
			c07ExprErr{class: "sema-not", sub: sub("index"), pre: "github[", bad: bangs + "github.sha", post: "]", msg: "property access of object must be type of string but got \"bool\"", abs: true, wrap: true},
			c07ExprErr{class: "sema-not", sub: sub("index"), pre: "github.event[ ", bad: bangs + "1", post: "]", msg: "property access of object must be type of string but got \"bool\"", abs: true, wrap: true},
			c07ExprErr{class: "sema-not", sub: sub("deref-receiver"), pre: "(", bad: bangs + "github", post: ").foo", msg: "receiver of object dereference \"foo\" must be type of object but got \"bool\"", abs: true, wrap: true},
			c07ExprErr{class: "sema-not", sub: sub("filter-receiver"), pre: "( ", bad: bangs + "github.sha", post: ").*", msg: "receiver of object filtering `.*` must be type of array or object but got \"bool\"", abs: true, wrap: true},
			// anchored at the INNER expression: after the last "!"
			c07ExprErr{class: "sema-not", sub: sub("inner"), pre: "format('{0}', ", bad: bangs + "nope", in: len(bangs), post: ")", msg: "undefined variable \"nope\"", abs: true, wrap: true},
			c07ExprErr{class: "sema-not", sub: sub("inner"), pre: "1 == 2 || ", bad: bangs + "github.sha.foo", in: len(bangs), msg: "receiver of object dereference \"foo\" must be type of object but got \"string\"", abs: true},
		)
		_ = bi
	}
	// untrusted input at argument / operand positions
	out = append(out,
		c07ExprErr{class: "untrusted", sub: "in-arg/2", pre: "format('{0}', ", bad: "github.event.issue.title", post: ")", msg: "\"github.event.issue.title\" is potentially untrusted", abs: true, tag: "script"},
		c07ExprErr{class: "untrusted", sub: "in-arg/3", pre: "format('{0}{1}', 1, ", bad: "github.head_ref", post: ")", msg: "\"github.head_ref\" is potentially untrusted", abs: true, tag: "script"},
		c07ExprErr{class: "untrusted", sub: "operand/2", pre: "true && ", bad: "github.event.comment.body", msg: "\"github.event.comment.body\" is potentially untrusted", abs: true, tag: "script"},
	)
	// availability
	out = append(out,
		c07ExprErr{class: "avail", sub: "in-arg/3", pre: "format('{0}{1}', 1, ", bad: "runner.os", post: ")", msg: "context \"runner\" is not allowed here", abs: true, tag: "norunner", wrap: true},
		c07ExprErr{class: "avail", pre: "toJSON(", bad: "matrix", post: ")", msg: "context \"matrix\" is not allowed here", abs: true, tag: "nomatrix", wrap: true},
		c07ExprErr{class: "avail", bad: "runner.os", msg: "context \"runner\" is not allowed here", abs: true, tag: "norunner", wrap: true},
		c07ExprErr{class: "avail", pre: "1 == ", bad: "hashFiles('a')", msg: "calling function \"hashFiles\" is not allowed here", abs: true, tag: "nohashfiles", wrap: true},
		c07ExprErr{class: "avail", bad: "always()", msg: "calling function \"always\" is not allowed here", abs: true, tag: "noalways", wrap: true},
		c07ExprErr{class: "avail", pre: "true && ", bad: "Success()", msg: "calling function \"Success\" is not allowed here", abs: true, tag: "noalways", wrap: true},
	)
	// untrusted input (only in run: scripts)
	out = append(out,
		c07ExprErr{class: "untrusted", bad: "github.event.pull_request.title", msg: "\"github.event.pull_request.title\" is potentially untrusted", abs: true, tag: "script"},
		c07ExprErr{class: "untrusted", bad: "github.head_ref", msg: "\"github.head_ref\" is potentially untrusted", abs: true, tag: "script"},
		c07ExprErr{class: "untrusted", pre: "github.sha == ", bad: "github.event.issue.body", msg: "\"github.event.issue.body\" is potentially untrusted", abs: true, tag: "script"},
		c07ExprErr{class: "untrusted", pre: "(", bad: "github.event.comment.body", post: ")", msg: "\"github.event.comment.body\" is potentially untrusted", abs: true, tag: "script"},
	)
	// object evaluated in a template: the diagnostic is about the placeholder as a whole and is
	// reported at its first character, the "$" of "${{" (the convention on plain scalars); the
	// same position is required in every quoting style and holder
	out = append(out,
		c07ExprErr{class: "template", bad: "github", msg: "object, array, and null values should not be evaluated in template", abs: true, tag: "template"},
		c07ExprErr{class: "template", bad: "null", msg: "object, array, and null values should not be evaluated in template", abs: true, tag: "template"},
	)
	return out
}

type c07Wrapper struct{ pre, post string }

var c07Wrappers = []c07Wrapper{
	{"", ""}, {"", ""},
	{"(", ")"},
	{"( ", " )"},
	{"!", ""},
	{"!(", ")"},
	{"true && ", ""},
	{"false || (", ")"},
	{"toJSON(", ")"},
	{"format('{0}{1}', 1, ", ")"},
	{"format(github.sha, ", ", 2)"},
	{"1 == 2 || ", " && true"},
}

// c07FillerPlaceholders are complete, clean placeholders that may precede the offending one.
var c07FillerPlaceholders = []string{"${{ 0 }}", "${{true}}", "${{ 'x' }}", "${{ github.sha }}", "${{ 1 == 1 }}", "${{  github.ref_name  }}", "${{ format('{0}', 1) }}"}

const c07TextAlphabet = "abcdefghijklmnopqrstuvwxyz0123456789_./-"

// c07Text returns n characters of harmless text: starts with a letter, contains single blanks,
// never ends with a blank, never forms "${{", ": " or " #".
func c07Text(r *Rand, n int) string {
	if n <= 0 {
		return ""
	}
	var b strings.Builder
	for i := 0; i < n; i++ {
		switch {
		case i == 0:
			b.WriteByte(byte('a' + r.Intn(26)))
		case i < n-1 && i > 0 && r.Intn(6) == 0 && b.String()[i-1] != ' ':
			b.WriteByte(' ')
		default:
			b.WriteByte(c07TextAlphabet[r.Intn(len(c07TextAlphabet))])
		}
	}
	return b.String()
}
