package main

// C19 — matrix duplicate and exclude checks are exact and order-insensitive.
//
// Oracles (every workflow goes through the real Linter):
//  (1) reference model c19Reference: a row value is reported as duplicate iff it is structurally
//      equal to an EARLIER value of its row (which occurrences, and count per row = n - #distinct);
//  (2) an exclude assignment is reported iff its key is defined by no row / include entry
//      ("unknown key", at the key) or its value is contained in no candidate value (row values plus
//      include values of that key; mappings by subset, sequences element-wise, scalars by equality)
//      ("matches nothing", at the value);
//  (3) metamorphic: 6 re-writings of the same matrix (values within a row, row keys / sections,
//      mapping members, include / exclude entries and their keys; reversed and shuffled) must give the
//      same duplicate count per row and the same verdict per exclude assignment;
//  (4) nothing built from ${{ }} is reported; a matrix given by one expression yields no matrix
//      diagnostic at all.

import (
	"fmt"
	"os"
	"regexp"
	"sort"
	"strconv"
	"strings"
)

func init() { registry["C19"] = runC19 }

var c19DupRe = regexp.MustCompile(`^duplicate value (.*) is found in matrix "([^"]*)"\. the same value is at line:(\d+),col:(\d+)$`)
var c19UnknownRe = regexp.MustCompile(`^"([^"]*)" in "exclude" section does not exist in matrix\. available matrix configurations are`)
var c19NoMatchRe = regexp.MustCompile(`^value (.*) in "exclude" does not match in matrix "([^"]*)" combinations\. possible values are`)

// c19Obs is what the linter said about one rendering, keyed by identities of the abstract matrix.
type c19Obs struct {
	Dup      map[c19RowRef]int // reports per written row value
	DupCount map[int]int       // row id -> number of duplicate reports
	DupName  map[c19RowRef]string
	Exc      map[int]int // assign id -> verdict
	ExcTwice []int
	Stray    []Diag // matrix diagnostics that are neither of the three kinds / not at a known position
	Foreign  []Diag // diagnostics of other rules: the workflow left the intended domain
}

func c19Observe(ly *c19Layout, ds []Diag) *c19Obs {
	o := &c19Obs{Dup: map[c19RowRef]int{}, DupCount: map[int]int{}, DupName: map[c19RowRef]string{}, Exc: map[int]int{}}
	for _, d := range ds {
		if d.Kind != "matrix" {
			o.Foreign = append(o.Foreign, d)
			continue
		}
		p := Pos{d.Line, d.Col}
		switch {
		case c19DupRe.MatchString(d.Msg):
			ref, ok := ly.RowVals[p]
			if !ok {
				o.Stray = append(o.Stray, d)
				continue
			}
			o.Dup[ref]++
			o.DupCount[ref.Row]++
			o.DupName[ref] = c19DupRe.FindStringSubmatch(d.Msg)[2]
		case c19UnknownRe.MatchString(d.Msg):
			id, ok := ly.ExcKey[p]
			if !ok {
				o.Stray = append(o.Stray, d)
				continue
			}
			if o.Exc[id] != c19None {
				o.ExcTwice = append(o.ExcTwice, id)
			}
			o.Exc[id] = c19Unknown
		case c19NoMatchRe.MatchString(d.Msg):
			id, ok := ly.ExcVal[p]
			if !ok {
				o.Stray = append(o.Stray, d)
				continue
			}
			if o.Exc[id] != c19None {
				o.ExcTwice = append(o.ExcTwice, id)
			}
			o.Exc[id] = c19NoMatch
		default:
			o.Stray = append(o.Stray, d)
		}
	}
	return o
}

func c19FindAssign(m *c19Matrix, id int) *c19Assign {
	for _, e := range m.Exc {
		for _, a := range e.Assigns {
			if a.ID == id {
				return a
			}
		}
	}
	return nil
}

func c19FindRow(m *c19Matrix, id int) *c19Row {
	for _, r := range m.Rows {
		if r.ID == id {
			return r
		}
	}
	return nil
}

func c19FlowString(v *c19Val) string {
	b := NewYB()
	c19Flow(b, v, NewRand(0))
	return b.String()
}

// rowHasExtendingPair: the row holds two values of which one is the other plus extra mapping members
// (used only to name the witness class).
func c19HasExtendingPair(vs []*c19Val) bool {
	for i := range vs {
		for j := range vs {
			if i != j && c19Extends(vs[i], vs[j]) {
				return true
			}
		}
	}
	return false
}

type c19Result struct {
	ly  *c19Layout
	ds  []Diag
	obs *c19Obs
	ok  bool // in domain and no violation of the reference oracle
}

// c19Lint renders, lints and compares one writing of m with the reference. what describes the
// writing (base / which permutation).
func c19Lint(c *Case, m *c19Matrix, x *c19Expect, what string) *c19Result {
	ly := c19Render(m, c.R)
	ds, err := lintSrc(ly.Src)
	c.Eval(1)
	res := &c19Result{ly: ly, ds: ds}
	detail := func(extra map[string]interface{}) map[string]interface{} {
		d := map[string]interface{}{"src": ly.Src, "diags": diagStrings(ds), "writing": what}
		for k, v := range extra {
			d[k] = v
		}
		return d
	}
	c.Logf("---- %s\n%s", what, ly.Src)
	for _, d := range ds {
		c.Logf("  got: %s", d.String())
	}
	if err != nil {
		c.Violation("C19:fatal-error", "linting a generated matrix returned a fatal error: "+err.Error(), detail(nil))
		return res
	}
	o := c19Observe(ly, ds)
	res.obs = o
	if len(o.Foreign) > 0 {
		// generator left its domain (syntax slip, another rule objects): do not judge, but never silently
		c.Count("out_of_domain_cases", 1)
		c.SetAdd("out_of_domain_messages", truncate(o.Foreign[0].Msg, 100))
		c.Logf("out of domain: %s", o.Foreign[0].String())
		return res
	}
	if len(o.Stray) > 0 {
		sig := "C19:unexpected-matrix-diagnostic"
		if m.Whole != "" {
			sig = "C19:expression-matrix-reported"
		}
		c.Violation(sig, "matrix diagnostic that is neither a duplicate report at a row value nor an exclude report at an exclude key / value: "+o.Stray[0].String(), detail(nil))
		return res
	}
	if len(o.ExcTwice) > 0 {
		a := c19FindAssign(m, o.ExcTwice[0])
		c.Violation("C19:exclude-entry-reported-twice", fmt.Sprintf("exclude assignment %s: %s reported more than once", a.Key, c19FlowString(a.Val)), detail(nil))
		return res
	}
	// (1) duplicates
	for _, row := range m.Rows {
		want := x.Dup[row.ID]
		for i, v := range row.Vals {
			ref := c19RowRef{row.ID, i}
			got := o.Dup[ref]
			w := i < len(want) && want[i]
			c.Logf("  row %q value #%d %s: duplicate expected=%v reported=%d", row.Key, i, c19FlowString(v), w, got)
			if got > 1 {
				c.Violation("C19:duplicate-reported-twice", fmt.Sprintf("row %q value #%d %s reported %d times", row.Key, i, c19FlowString(v), got), detail(nil))
				return res
			}
			if got == 1 && o.DupName[ref] != row.Key {
				c.Violation("C19:duplicate-names-other-row", fmt.Sprintf("duplicate report at a value of row %q names matrix %q", row.Key, o.DupName[ref]), detail(nil))
				return res
			}
			if (got == 1) == w {
				continue
			}
			if w {
				sig := "C19:duplicate-missed"
				if c19HasExpr(v) {
					sig = "C19:duplicate-missed-expression" // cannot happen inside the generated domain
				}
				c.Violation(sig, fmt.Sprintf("row %q value #%d %s is structurally equal to an earlier value of the row but is not reported", row.Key, i, c19FlowString(v)), detail(map[string]interface{}{"expected_duplicates": want}))
				return res
			}
			sig := "C19:duplicate-spurious"
			why := "is reported as duplicate although no earlier value of the row is structurally equal to it"
			for j := 0; j < i; j++ {
				if c19Extends(row.Vals[j], v) {
					sig = "C19:duplicate-spurious:mapping-superset-after-subset"
					why = fmt.Sprintf("is reported as duplicate although it only extends the earlier value #%d %s by further mapping members (written in the reverse order nothing is reported)", j, c19FlowString(row.Vals[j]))
					break
				}
			}
			if sig == "C19:duplicate-spurious" && c19HasExpr(v) {
				sig = "C19:duplicate-reported-for-expression-value"
				why = "is built from an expression and is reported as duplicate"
			}
			c.Violation(sig, fmt.Sprintf("row %q value #%d %s %s", row.Key, i, c19FlowString(v), why), detail(map[string]interface{}{"expected_duplicates": want}))
			return res
		}
		if row.Expr != "" && o.DupCount[row.ID] != 0 {
			c.Violation("C19:expression-row-reported", fmt.Sprintf("row %q is given by an expression and has duplicate reports", row.Key), detail(nil))
			return res
		}
	}
	// (2) exclude
	ids := make([]int, 0, len(x.Exc))
	for id := range x.Exc {
		ids = append(ids, id)
	}
	for id, v := range o.Exc {
		if _, ok := x.Exc[id]; !ok && v != c19None {
			ids = append(ids, id) // reported although the reference has no verdict for it (expression sections)
		}
	}
	sort.Ints(ids)
	for _, id := range ids {
		a := c19FindAssign(m, id)
		want, got := x.Exc[id], o.Exc[id]
		c.Logf("  exclude %s: %s [%s]: expected=%s observed=%s", a.Key, c19FlowString(a.Val), a.Class, c19VerdictName(want), c19VerdictName(got))
		if want == c19DontCare || want == got {
			continue
		}
		row, cands, fromInc, _ := m.candidates(a.Key)
		var cs []string
		for _, cv := range cands {
			cs = append(cs, c19FlowString(cv))
		}
		ex := map[string]interface{}{"exclude_key": a.Key, "exclude_value": c19FlowString(a.Val), "candidates": cs, "expected": c19VerdictName(want), "observed": c19VerdictName(got)}
		desc := fmt.Sprintf("exclude assignment %s: %s (candidates of the key: %s): expected %s, observed %s", a.Key, c19FlowString(a.Val), strings.Join(cs, " | "), c19VerdictName(want), c19VerdictName(got))
		// narrow class first: the value is contained only in include values that merely extend another
		// candidate by mapping members (such an include value is dropped as "duplicate" of the smaller one)
		onlyDropped := false
		if want == c19None && got == c19NoMatch {
			onlyDropped = true
			for i, cv := range cands {
				if !c19RefContains(cv, a.Val) {
					continue
				}
				dropped := false
				if fromInc[i] {
					for j := range cands {
						if j != i && c19Extends(cands[j], cv) {
							dropped = true
						}
					}
				}
				if !dropped {
					onlyDropped = false
				}
			}
		}
		candExpr := false
		for _, cv := range cands {
			if c19HasExpr(cv) {
				candExpr = true
			}
		}
		var sig string
		switch {
		case m.includeHasExpr():
			sig = "C19:exclude-reported-although-include-has-expression"
		case row != nil && row.Expr != "":
			sig = "C19:exclude-reported-for-expression-row"
		case onlyDropped:
			sig = "C19:exclude-match-reported:include-value-extending-other-candidate-dropped"
		case c19HasExpr(a.Val) && got != c19None:
			sig = "C19:exclude-reported-for-expression-value"
		case want == c19Unknown && got == c19None:
			sig = "C19:exclude-unknown-key-missed"
		case want == c19Unknown:
			sig = "C19:exclude-unknown-key-reported-as-value-mismatch"
		case got == c19Unknown:
			sig = "C19:exclude-known-key-reported-unknown"
		case want == c19NoMatch && candExpr:
			sig = "C19:exclude-mismatch-missed-expression-candidate"
		case want == c19NoMatch:
			sig = "C19:exclude-mismatch-missed"
		case candExpr:
			sig = "C19:exclude-match-reported-expression-candidate"
		default:
			sig = "C19:exclude-match-reported"
		}
		c.Violation(sig, desc, detail(ex))
		return res
	}
	res.ok = true
	return res
}

var c19Perms = []c19PermDims{
	{Values: true, Reverse: true},
	{RowKeys: true, Entries: true, Reverse: true},
	{Members: true, Reverse: true},
	{Values: true},
	{Values: true, RowKeys: true, Members: true, Entries: true},
	{Values: true, RowKeys: true, Members: true, Entries: true},
}

// c19CheckMatrix applies all oracles to one abstract matrix.
func c19CheckMatrix(c *Case, m *c19Matrix, tag string) {
	x := c19Reference(m)
	base := c19Lint(c, m, x, "base")
	if base.obs == nil || len(base.obs.Foreign) > 0 {
		return
	}
	c19Coverage(c, m, x, base, tag)
	c19CheckNeighbours(c, m, base)
perms:
	for pi, d := range c19Perms {
		pm := c19Permute(m, c.R, d)
		px := c19Reference(pm)
		what := fmt.Sprintf("permutation %d: %s", pi, d.String())
		pr := c19Lint(c, pm, px, what)
		if pr.obs == nil || len(pr.obs.Foreign) > 0 {
			continue
		}
		c.Count("permuted_writings", 1)
		// metamorphic comparison, independent of the reference
		for _, row := range m.Rows {
			if base.obs.DupCount[row.ID] != pr.obs.DupCount[row.ID] {
				sig := "C19:permutation-changes-duplicate-count"
				if c19HasExtendingPair(row.Vals) {
					sig += ":mapping-superset-and-subset-in-row"
				}
				c.Violation(sig, fmt.Sprintf("row %q: %d duplicate reports as written, %d after %s", row.Key, base.obs.DupCount[row.ID], pr.obs.DupCount[row.ID], what),
					map[string]interface{}{"src": base.ly.Src, "diags": diagStrings(base.ds), "permuted_src": pr.ly.Src, "permuted_diags": diagStrings(pr.ds), "permutation": d.String()})
				continue perms
			}
		}
		for _, e := range m.Exc {
			for _, a := range e.Assigns {
				if base.obs.Exc[a.ID] != pr.obs.Exc[a.ID] {
					sig := "C19:permutation-changes-exclude-verdict"
					_, cands, _, _ := m.candidates(a.Key)
					if c19HasExtendingPair(cands) {
						sig += ":mapping-superset-and-subset-among-candidates"
					}
					c.Violation(sig, fmt.Sprintf("exclude assignment %s: %s: %s as written, %s after %s", a.Key, c19FlowString(a.Val), c19VerdictName(base.obs.Exc[a.ID]), c19VerdictName(pr.obs.Exc[a.ID]), what),
						map[string]interface{}{"src": base.ly.Src, "diags": diagStrings(base.ds), "permuted_src": pr.ly.Src, "permuted_diags": diagStrings(pr.ds), "permutation": d.String()})
					continue perms
				}
			}
		}
	}
}

// c19Coverage records what the base writing exercised.
func c19Coverage(c *Case, m *c19Matrix, x *c19Expect, base *c19Result, tag string) {
	nontrivial := false
	if m.Whole != "" {
		c.SetAdd("classes", "matrix-is-expression")
	}
	for _, row := range m.Rows {
		if row.Expr != "" {
			c.SetAdd("classes", "row-is-expression")
			continue
		}
		if x.DupCount[row.ID] > 0 {
			nontrivial = true
			c.Count("rows_with_duplicates", 1)
			c.Count("duplicate_values_expected", x.DupCount[row.ID])
		}
		first := map[string]int{}
		for i, v := range row.Vals {
			if c19HasExpr(v) {
				if v.Kind == c19Scalar {
					c.SetAdd("classes", "row-element-is-expression")
				} else {
					c.SetAdd("classes", "row-element-holds-nested-expression")
				}
			}
			k := c19Canon(v)
			if j, ok := first[k]; ok {
				c.SetAdd("duplicate_depths", strconv.Itoa(c19Depth(v)))
				if v.Kind == c19Map && c19MapSpelledDifferently(row.Vals[j], v) {
					c.SetAdd("classes", "duplicate-mapping-keys-in-other-case-or-order")
				}
				if i-j > 1 {
					c.SetAdd("classes", "duplicate-not-adjacent")
				}
			} else {
				first[k] = i
			}
			for j := 0; j < i; j++ {
				if c19Extends(row.Vals[j], v) {
					c.SetAdd("classes", "row-superset-mapping-after-subset")
				}
				if c19Extends(v, row.Vals[j]) {
					c.SetAdd("classes", "row-subset-mapping-after-superset")
				}
			}
		}
	}
	if m.IncExpr != "" {
		c.SetAdd("classes", "include-is-expression")
	}
	for _, e := range m.Inc {
		if e.Expr != "" {
			c.SetAdd("classes", "include-entry-is-expression")
		}
	}
	if m.ExcExpr != "" {
		c.SetAdd("classes", "exclude-is-expression")
	}
	for _, e := range m.Exc {
		if e.Expr != "" {
			c.SetAdd("classes", "exclude-entry-is-expression")
			continue
		}
		for _, a := range e.Assigns {
			v := x.Exc[a.ID]
			c.SetAdd("exclude_classes", a.Class+" => "+c19VerdictName(v))
			c.Count("exclude_entries_"+strings.ReplaceAll(c19VerdictName(v), " ", "_"), 1)
			if v == c19Unknown || v == c19NoMatch {
				nontrivial = true
			}
			if v == c19None && x.ExcHitOnlyByInclude[a.ID] {
				c.SetAdd("classes", "exclude-hit-owed-to-include-value")
				nontrivial = true
			}
			if c19HasExpr(a.Val) {
				c.SetAdd("classes", "exclude-value-holds-expression")
			}
		}
	}
	if nontrivial {
		c.Nontrivial(tag + "|" + base.ly.Src)
	}
	if c.Idx < 4 && tag == "rnd" {
		c.Sample(map[string]interface{}{"src": base.ly.Src, "diags": diagStrings(base.ds)})
	}
}

func c19MapSpelledDifferently(a, b *c19Val) bool {
	if len(a.Keys) != len(b.Keys) {
		return false
	}
	for i := range a.Keys {
		if a.Keys[i] != b.Keys[i] {
			return true
		}
	}
	return false
}

// c19Curated: the value list of the pairwise families (shared prefixes at every depth, letter case of
// keys, element order, empty containers).
func c19Curated() []*c19Val {
	one, two, three := c19P("1"), c19P("2"), c19P("3")
	return []*c19Val{
		one, c19P("foo"), c19P("Foo"),
		c19L(), c19L(one), c19L(one, two), c19L(two, one), c19L(one, c19P("foo")),
		c19M(), c19M("a", one), c19M("A", one), c19M("a", two), c19M("b", one),
		c19M("a", one, "b", two), c19M("B", two, "a", one), c19M("a", one, "b", three), c19M("a", one, "b", two, "c", three),
		c19M("a", c19M()), c19M("a", c19M("b", one)), c19M("a", c19M("b", one, "c", two)),
		c19M("a", c19L(one)), c19M("a", c19L(one, two)), c19M("a", c19L(c19M("b", one))), c19M("a", c19L(c19M("b", one, "c", two))),
		c19L(c19M("a", one)), c19L(c19M("a", one, "b", two)), c19L(c19L(one)), c19L(c19L(one, two)),
		c19M("a", c19M("b", c19M("c", one))), c19M("a", c19M("b", c19M("c", one, "name", two))),
		c19M("a", one, "b", c19M("c", one)), c19M("a", one, "b", c19M("c", one, "name", two)),
	}
}

func c19OneRow(key string, vals ...*c19Val) *c19Matrix {
	m := &c19Matrix{Rows: []*c19Row{{ID: 0, Key: key, Vals: vals}}}
	m.Order = c19DefaultOrder(m)
	return m
}

func runC19(r *Run) {
	r.Rule = "generated strategy.matrix sections through the real Linter: 1-3 rows of 1-6 values (scalars, sequences, mappings nested <= 3, values derived from each other by adding / dropping / changing one mapping member or sequence element, keys in varying letter case, duplicates planted at random positions), include entries adding keys and values, exclude entries derived from candidate values (exact / subset / superset / one member differs / one element differs / other length / undefined scalar / unknown key / key defined only by include), random rows / row elements / include / exclude entries / nested scalars replaced by unique ${{ }} expressions; each matrix is linted as written and under 6 permutations. Plus every ordered pair / triple of a curated list of 32 values as [v, w] row, as candidate / exclude filter and as row value / include value / exclude filter. Non-trivial = distinct workflow for which at least one duplicate or one exclude report is expected, or an exclude hit is owed to an include value only."
	r.Assume("a scalar has one spelling only (never 1 / 1.0 / '1'); every ${{ }} text is unique within a matrix, so expression-valued elements are never textually identical")
	r.Assume("mapping keys below matrix: (row keys, include / exclude keys, members of mapping values) are compared case-insensitively, as actionlint lower-cases them while parsing; scalar values are compared exactly")
	r.Assume("sequences match element-wise means: same length and element i of the candidate contains element i of the filter (recursively, so a mapping element may be a superset)")
	r.Assume("an include section or include element given by an expression may define any key and any value, so no exclude entry is reportable then; a candidate value holding an expression is never a proven mismatch at that place")
	r.Assume("not compared (statement silent): an exclude value that holds an expression somewhere and whose static part matches no candidate; an unknown exclude key whose value is an expression; matrices without any row (the section-level 'no matrix variation exists' report)")

	cur := c19Curated()
	var fams []*Family

	// every ordered pair of curated values as a two-value row, and as (candidate, filter)
	fams = append(fams, &Family{Name: "pairs", N: len(cur), Do: func(c *Case) {
		v := cur[c.Idx]
		for _, w := range cur {
			m := c19OneRow("os", v, w)
			c19CheckPlain(c, m, "pair-dup")
			m2 := c19OneRow("os", v)
			m2.Exc = []*c19Entry{{Assigns: []*c19Assign{{Key: "OS", Val: w, ID: 0, Class: "row/curated"}}}}
			m2.Order = c19DefaultOrder(m2)
			c19CheckPlain(c, m2, "pair-exc")
		}
	}})
	// every ordered triple: row value, include value of the same key, exclude filter
	fams = append(fams, &Family{Name: "triples", N: len(cur) * len(cur), Do: func(c *Case) {
		v, w := cur[c.Idx/len(cur)], cur[c.Idx%len(cur)]
		for _, f := range cur {
			m := c19OneRow("os", v)
			m.Inc = []*c19Entry{{Assigns: []*c19Assign{{Key: "os", Val: w}}}}
			m.Exc = []*c19Entry{{Assigns: []*c19Assign{{Key: "Os", Val: f, ID: 0, Class: "row/curated"}}}}
			m.Order = c19DefaultOrder(m)
			c19CheckPlain(c, m, "triple")
		}
	}})
	// matrices made of expressions only
	fams = append(fams, &Family{Name: "expressions-only", N: r.Q(60, 600), Do: func(c *Case) {
		g := &c19Gen{r: c.R}
		var m *c19Matrix
		if c.Idx%3 == 0 {
			m = &c19Matrix{Whole: g.expr(true)}
		} else {
			m = &c19Matrix{}
			for i, n := 0, c.R.Range(1, 3); i < n; i++ {
				row := &c19Row{ID: i, Key: c19RowKeys[i]}
				if c.R.Bool() {
					row.Expr = g.expr(true)
				} else {
					for k := c.R.Range(1, 4); k > 0; k-- {
						row.Vals = append(row.Vals, g.exprScalar())
					}
				}
				m.Rows = append(m.Rows, row)
			}
			id := 0
			ents := func() (string, []*c19Entry) {
				if c.R.Chance(1, 4) {
					return g.expr(true), nil
				}
				var es []*c19Entry
				for k := c.R.Range(1, 3); k > 0; k-- {
					if c.R.Bool() {
						es = append(es, &c19Entry{Expr: g.expr(true)})
					} else {
						es = append(es, &c19Entry{Assigns: []*c19Assign{{Key: c19CaseVariant(c.R, m.Rows[c.R.Intn(len(m.Rows))].Key), Val: g.exprScalar(), ID: id, Class: "row/expr"}}})
						id++
					}
				}
				return "", es
			}
			if c.R.Bool() {
				m.IncExpr, m.Inc = ents()
			}
			id = 0
			m.ExcExpr, m.Exc = ents()
			m.Order = c19Shuffle(c.R, c19DefaultOrder(m))
		}
		x := c19Reference(m)
		res := c19Lint(c, m, x, "base")
		if res.obs == nil || len(res.obs.Foreign) > 0 {
			return
		}
		c19Coverage(c, m, x, res, "expr")
		if n := len(res.ds); n != 0 {
			c.Violation("C19:expression-only-matrix-reported", fmt.Sprintf("a matrix built from expressions only produced %d diagnostics", n), map[string]interface{}{"src": res.ly.Src, "diags": diagStrings(res.ds)})
			return
		}
		c.Count("expression_only_matrices_silent", 1)
		c.Nontrivial("expr|" + res.ly.Src)
	}})
	// random matrices x 6 permutations
	fams = append(fams, &Family{Name: "random-matrix", N: r.Q(2000, 100000), Do: func(c *Case) {
		g := &c19Gen{r: c.R}
		m := g.matrix()
		c19CheckMatrix(c, m, "rnd")
	}})
	r.RunFamilies(fams)
	if r.ReplayOf != nil {
		return
	}

	// coverage floors
	if n := r.Counter("out_of_domain_cases"); n > 0 {
		r.Inconclusive(fmt.Sprintf("%d generated workflows drew diagnostics of other rules (generator left its domain)", n))
	}
	if os.Getenv("VERIF_ONLY_FAMILY") == "" {
		for _, cl := range []string{
			"matrix-is-expression", "row-is-expression", "row-element-is-expression", "row-element-holds-nested-expression",
			"include-is-expression", "include-entry-is-expression", "exclude-is-expression", "exclude-entry-is-expression",
			"exclude-value-holds-expression", "exclude-hit-owed-to-include-value",
			"duplicate-mapping-keys-in-other-case-or-order", "duplicate-not-adjacent",
			"row-superset-mapping-after-subset", "row-subset-mapping-after-superset",
		} {
			if !r.SetHas("classes", cl) {
				r.Inconclusive("class never generated: " + cl)
			}
		}
		for _, cl := range []string{
			"unknown/fresh => unknown key",
			"row/exact => not reported", "row/subset => not reported", "row/superset => value matches nothing",
			"row/member-diff => value matches nothing", "row/seq-elem-diff => value matches nothing", "row/seq-len => value matches nothing",
			"row/undefined-scalar => value matches nothing", "row/expr => not reported", "row/partial-expr => not reported",
			"expr-row/fresh => not reported", "include-only/exact => not reported", "include-only/superset => value matches nothing",
			"row/curated => not reported", "row/curated => value matches nothing",
		} {
			if !r.SetHas("exclude_classes", cl) {
				r.Inconclusive("exclude class never generated: " + cl)
			}
		}
		for _, d := range []string{"0", "1", "2", "3"} {
			if !r.SetHas("duplicate_depths", d) {
				r.Inconclusive("no duplicate of nesting depth " + d + " was planted")
			}
		}
		if r.Counter("permuted_writings") < int64(r.Q(2000, 100000))*5 {
			r.Inconclusive("fewer permuted writings were compared than planned")
		}
		if r.Counter("neighbour_job_writings_with_reports") < 100 {
			r.Inconclusive("fewer than 100 writings with a neighbouring job and at least one matrix report were compared")
		}
	}
}

// c19CheckPlain: reference oracle on the writing as given (the curated families enumerate both orders).
func c19CheckPlain(c *Case, m *c19Matrix, tag string) {
	x := c19Reference(m)
	res := c19Lint(c, m, x, "base")
	if res.obs == nil || len(res.obs.Foreign) > 0 {
		return
	}
	c19Coverage(c, m, x, res, tag)
}
