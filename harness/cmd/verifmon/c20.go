package main

// C20 — shellcheck / pyflakes integration. Trace monitor with three independent event sources:
//   (1) the fake tool's own log (start / stdin hash + copy / end, O_APPEND);
//   (2) the hook trace of the process pool (semaphore, exec start/done, goroutine end, lint.return);
//   (3) strace -f of the real CLI (process creation / exit), thorough tier.
// A reference model computes the effective shell of every run: step, the exact stdin the tool must
// receive, and the diagnostics / fatal error that must result from the planned tool behaviour.

import (
	"crypto/sha1"
	"fmt"
	"io"
	"os"
	"os/exec"
	"path/filepath"
	"regexp"
	"runtime"
	"sort"
	"strconv"
	"strings"
	"time"

	"github.com/rhysd/actionlint"
)

func init() {
	registry["C20"] = runC20
	subcommands["c20-worker"] = c20WorkerMain
}

type c20Step struct {
	ID       int
	File     string
	RunPos   Pos
	Script   string // YAML value of run: (what the tool must see after sanitising)
	Shell    string // effective shell per the reference model
	Tool     string // "shellcheck" | "pyflakes" | ""
	Behave   string // ok | issues=k | exit=c | kill | garbage | slow=ms
	Issues   int
	Fails    bool   // the invocation must produce a fatal error
	Expected string // stdin the tool must receive
}

type c20Case struct {
	Files map[string]string
	Lint  []string
	Steps []*c20Step
}

var c20Behaviours = []string{"ok", "issues=1", "issues=3", "exit=2", "kill", "garbage", "killout", "trailing", "empty"}

// c20Sanitize is the reference for the placeholder replacement: every "${{" up to the next "}}" is
// replaced by '_' of the same byte length; an unclosed "${{" is left alone.
func c20Sanitize(s string) string {
	var b strings.Builder
	for {
		i := strings.Index(s, "${{")
		if i < 0 {
			break
		}
		j := strings.Index(s[i:], "}}")
		if j < 0 {
			break
		}
		b.WriteString(s[:i])
		b.WriteString(strings.Repeat("_", j+2))
		s = s[i+j+2:]
	}
	b.WriteString(s)
	return b.String()
}

func c20ToolFor(shell string) string {
	switch {
	case shell == "bash" || shell == "sh" || strings.HasPrefix(shell, "bash ") || strings.HasPrefix(shell, "sh "):
		return "shellcheck"
	case shell == "python" || strings.HasPrefix(shell, "python "):
		return "pyflakes"
	}
	return ""
}

func c20ExpectedStdin(tool, shell, script string) string {
	src := c20Sanitize(script)
	if tool == "pyflakes" {
		return src
	}
	setup := "set -e"
	if shell == "bash" || strings.HasPrefix(shell, "bash ") {
		setup = "set -eo pipefail"
	}
	return setup + "\n" + src + "\n"
}

var c20Shells = []string{"bash", "sh", "python", "pwsh", "cmd", "powershell", "bash -e {0}", "sh -x {0}", "python {0}", "bash --noprofile --norc -eo pipefail {0}"}

var c20Placeholders = []string{"${{ github.sha }}", "${{ github.workflow }}", "${{github.ref}}", "${{ format('{0}', github.actor) }}", "${{ 'a' }}", "${{ github.event_name == 'push' && 'x' || 'y' }}", "${{\n  github.run_id\n}}"}

// c20GenDefaults writes a defaults: section (or none) at the indentation and returns the default
// shell it sets ("" when the section is absent or sets only a working directory: the next outer
// level then decides).
func c20GenDefaults(r *Rand, b *YB, ind int) string {
	switch r.Intn(12) {
	case 0, 1: // shell only
		sh := r.Pick(c20Shells)
		b.L(ind, "defaults:")
		b.L(ind+2, "run:")
		b.L(ind+4, "shell: "+sh)
		return sh
	case 2: // shell and working directory, either order
		sh := r.Pick(c20Shells)
		b.L(ind, "defaults:")
		b.L(ind+2, "run:")
		if r.Chance(1, 2) {
			b.L(ind+4, "shell: "+sh)
			b.L(ind+4, "working-directory: ./sub")
		} else {
			b.L(ind+4, "working-directory: ./sub")
			b.L(ind+4, "shell: "+sh)
		}
		return sh
	case 3: // flow style
		sh := r.Pick([]string{"bash", "sh", "python", "pwsh"})
		b.L(ind, "defaults: {run: {shell: "+sh+"}}")
		return sh
	case 4, 5: // a run section that does not name a shell
		b.L(ind, "defaults:")
		b.L(ind+2, "run:")
		b.L(ind+4, "working-directory: ./sub")
		return ""
	}
	return ""
}

// c20Gen builds a case. fixedBehaviours (may be nil) forces the behaviour of the first tool
// invocations (fault enumeration); nFiles / nSteps bound the size.
func c20Gen(r *Rand, fixedBehaviours []string, nFiles, maxSteps int, slowMs int) *c20Case {
	c := &c20Case{Files: map[string]string{".git/HEAD": "ref: refs/heads/main\n"}}
	id := 0
	toolInv := 0
	for f := 0; f < nFiles; f++ {
		name := fmt.Sprintf(".github/workflows/w%d.yml", f)
		b := NewYB()
		b.L(0, "on: push")
		wfShell := c20GenDefaults(r, b, 0)
		b.L(0, "jobs:")
		nj := r.Range(1, 3)
		for j := 0; j < nj; j++ {
			b.Lf(2, "job%d:", j)
			runnerShell := ""
			switch r.Intn(5) {
			case 0:
				b.L(4, "runs-on: windows-latest")
				runnerShell = "pwsh"
			case 1:
				b.L(4, "runs-on: [self-hosted, windows]")
				runnerShell = "pwsh"
			case 2:
				b.L(4, "runs-on: [self-hosted, linux]")
			default:
				b.L(4, "runs-on: ubuntu-latest")
			}
			jobShell := c20GenDefaults(r, b, 4)
			b.L(4, "steps:")
			ns := r.Range(1, maxSteps)
			for s := 0; s < ns; s++ {
				id++
				st := &c20Step{ID: id, File: name}
				if r.Chance(1, 8) { // a non-run step in between
					b.L(6, "- uses: actions/checkout@v4")
				}
				stepShell := ""
				if r.Chance(1, 2) {
					stepShell = r.Pick(c20Shells)
				}
				switch {
				case stepShell != "":
					st.Shell = stepShell
				case jobShell != "":
					st.Shell = jobShell
				case wfShell != "":
					st.Shell = wfShell
				case runnerShell != "":
					st.Shell = runnerShell
				default:
					st.Shell = "bash"
				}
				st.Tool = c20ToolFor(st.Shell)
				// behaviour
				st.Behave = "ok"
				if st.Tool != "" {
					if toolInv < len(fixedBehaviours) {
						st.Behave = fixedBehaviours[toolInv]
					} else if fixedBehaviours == nil {
						switch x := r.Intn(20); {
						case x < 8:
							st.Behave = "ok"
						case x < 12:
							st.Behave = fmt.Sprintf("issues=%d", r.Range(1, 4))
						case x < 16 && slowMs > 0:
							st.Behave = fmt.Sprintf("slow=%d", r.Range(1, slowMs))
						case x < 18 && slowMs > 0:
							st.Behave = fmt.Sprintf("slow=%d,issues=%d", r.Range(1, slowMs), r.Range(1, 3))
						}
					}
					toolInv++
				}
				for _, it := range strings.Split(st.Behave, ",") {
					if strings.HasPrefix(it, "issues=") {
						st.Issues, _ = strconv.Atoi(strings.TrimPrefix(it, "issues="))
					}
				}
				switch {
				case strings.HasPrefix(st.Behave, "exit="), st.Behave == "kill", st.Behave == "killout":
					st.Fails = true
				case (st.Behave == "garbage" || st.Behave == "trailing" || st.Behave == "empty") && st.Tool == "shellcheck":
					// shellcheck always prints a JSON value ("[]" when it has nothing to say): no
					// output at all is not its output format
					st.Fails = true
				}
				if st.Fails || st.Behave == "garbage" || st.Behave == "trailing" || st.Behave == "empty" {
					st.Issues = 0
				}
				// script lines
				var lines []string
				lines = append(lines, fmt.Sprintf("echo step-%d id=%d FT:%s", id, id, st.Behave))
				if r.Chance(1, 5) {
					lines = append(lines, "echo \"${A:-${B}}\" '{\"k\":{}}'")
				}
				nl := r.Intn(4)
				for k := 0; k < nl; k++ {
					ph := r.Pick(c20Placeholders)
					switch r.Intn(5) {
					case 0:
						lines = append(lines, ph+" at start")
					case 1:
						lines = append(lines, "echo mid "+ph+" dle")
					case 2:
						lines = append(lines, "echo end "+ph)
					case 3:
						lines = append(lines, "echo adj "+ph+r.Pick(c20Placeholders)+ph)
					default:
						lines = append(lines, "echo unclosed ${{ github.sha")
					}
					if r.Chance(1, 4) { // a literal "}}" before the next placeholder
						lines = append(lines, r.Pick([]string{"echo \"${OUT_DIR:-${RUNNER_TEMP}}\"", "echo '{\"a\":{\"b\":1}}'", "docker ps --format '{{.ID}}'", "x=}}"}))
					}
				}
				big := 0
				if r.Chance(1, 40) {
					big = []int{70 * 1024, 200 * 1024}[r.Intn(2)]
				}
				// emit
				b.W("      - ")
				if r.Chance(1, 3) {
					b.Lf(0, "name: step %d", id)
					b.W("        ")
				}
				shellFirst := stepShell != "" && r.Chance(1, 3)
				if shellFirst {
					b.L(0, "shell: "+stepShell)
					b.W("        ")
				}
				if r.Chance(1, 6) {
					b.L(0, "working-directory: ./sub")
					b.W("        ")
				}
				style := r.Intn(3)
				hasNL := false
				for _, l := range lines {
					if strings.Contains(l, "\n") {
						hasNL = true
					}
				}
				if len(lines) == 1 && style == 0 && big == 0 {
					st.RunPos = b.W("run")
					b.W(": " + lines[0] + "\n")
					st.Script = lines[0]
				} else if hasNL || style == 1 {
					// double quoted: arbitrary content including line breaks inside placeholders
					body := strings.Join(lines, "\n")
					if big > 0 {
						body += "\n" + strings.Repeat("echo 0123456789abcdef0123456789abcdef0123456789abcdef0123456789\n", big/64)
					}
					st.RunPos = b.W("run")
					b.W(": " + strconv.Quote(body) + "\n")
					st.Script = body
				} else {
					st.RunPos = b.W("run")
					b.W(": |\n")
					body := ""
					for _, l := range lines {
						b.L(10, l)
						body += l + "\n"
					}
					if big > 0 {
						for k := 0; k < big/64; k++ {
							b.L(10, "echo 0123456789abcdef0123456789abcdef0123456789abcdef0123456789")
							body += "echo 0123456789abcdef0123456789abcdef0123456789abcdef0123456789\n"
						}
					}
					st.Script = body
				}
				if stepShell != "" && !shellFirst {
					b.L(8, "shell: "+stepShell)
				}
				if st.Tool != "" {
					st.Expected = c20ExpectedStdin(st.Tool, st.Shell, st.Script)
				}
				c.Steps = append(c.Steps, st)
			}
		}
		c.Files[name] = b.String()
		c.Lint = append(c.Lint, name)
	}
	return c
}

// ---------------------------------------------------------------------------
// fake tool log

type c20Inv struct {
	args       string
	pid        int
	mode       string
	start, end int64
	sha        string
	n          int
	copyPath   string
	behave     string
}

func c20ParseToolLog(path string) []*c20Inv {
	b, _ := os.ReadFile(path)
	byPid := map[int]*c20Inv{}
	var order []*c20Inv
	for _, l := range strings.Split(string(b), "\n") {
		f := strings.Fields(l)
		if len(f) < 2 {
			continue
		}
		pid, _ := strconv.Atoi(f[1])
		inv := byPid[pid]
		if inv == nil {
			inv = &c20Inv{pid: pid}
			byPid[pid] = inv
			order = append(order, inv)
		}
		switch f[0] {
		case "start":
			if len(f) >= 4 {
				inv.mode = f[2]
				inv.start, _ = strconv.ParseInt(f[3], 10, 64)
				inv.args = strings.Join(f[4:], " ")
			}
		case "stdin":
			if len(f) >= 5 {
				inv.sha = f[2]
				inv.n, _ = strconv.Atoi(f[3])
				inv.copyPath = f[4]
			}
		case "end":
			if len(f) >= 4 {
				inv.end, _ = strconv.ParseInt(f[2], 10, 64)
				inv.behave = f[3]
			}
		}
	}
	return order
}

func c20MaxOverlap(invs []*c20Inv) int {
	type ev struct {
		t int64
		d int
	}
	var evs []ev
	for _, i := range invs {
		if i.start == 0 || i.end == 0 {
			continue
		}
		evs = append(evs, ev{i.start, 1}, ev{i.end, -1})
	}
	sort.Slice(evs, func(a, b int) bool {
		if evs[a].t != evs[b].t {
			return evs[a].t < evs[b].t
		}
		return evs[a].d < evs[b].d
	})
	cur, max := 0, 0
	for _, e := range evs {
		cur += e.d
		if cur > max {
			max = cur
		}
	}
	return max
}

// ---------------------------------------------------------------------------
// worker

func c20WorkerMain(args []string) {
	if len(args) != 6 {
		fmt.Fprintln(os.Stderr, "usage: c20-worker tier seed family from to scratch")
		os.Exit(10)
	}
	tier := args[0]
	seed, _ := strconv.ParseUint(args[1], 10, 64)
	fam := args[2]
	from, _ := strconv.Atoi(args[3])
	to, _ := strconv.Atoi(args[4])
	scratch := args[5]
	out := newWorkerOut()
	defer func() { out.w.WriteString("DONE\n"); out.flush() }()
	for idx := from; idx < to; idx++ {
		r := NewRand(seed, "C20", strings.TrimSuffix(strings.TrimSuffix(fam, "-race"), "-cpu2")).Sub(idx)
		root := filepath.Join(scratch, fmt.Sprintf("c%d", idx))
		c20RunCase(out, r, fam, idx, root, tier)
		os.RemoveAll(root)
		out.flush()
	}
}

// c20FaultPattern decodes idx into an assignment of behaviours to k <= 4 invocations.
func c20FaultPattern(idx int) []string {
	// k = 1..4 : 9 + 81 + 729 + 6561 = 7380 patterns
	for k := 1; k <= 4; k++ {
		n := 1
		for i := 0; i < k; i++ {
			n *= len(c20Behaviours)
		}
		if idx < n {
			p := make([]string, k)
			for i := 0; i < k; i++ {
				p[i] = c20Behaviours[idx%len(c20Behaviours)]
				idx /= len(c20Behaviours)
			}
			return p
		}
		idx -= n
	}
	return nil
}

const c20NumFaultPatterns = 9 + 81 + 729 + 6561

var c20DiagRe = regexp.MustCompile(`^(shellcheck|pyflakes) reported issue in this script`)

func c20RunCase(out *workerOut, r *Rand, fam string, idx int, root, tier string) {
	base := strings.TrimSuffix(strings.TrimSuffix(fam, "-race"), "-cpu2")
	var cs *c20Case
	switch base {
	case "faults":
		pidx := idx
		if tier != "thorough" {
			pidx = int(mix64(uint64(idx)*7919+r.s) % c20NumFaultPatterns)
		}
		pat := c20FaultPattern(pidx % c20NumFaultPatterns)
		cs = c20Gen(r, pat, r.Range(1, 2), 4, 0)
	case "load":
		cs = c20Gen(r, nil, r.Range(1, 8), 8, 25)
	case "unstartable":
		cs = c20Gen(r, []string{"ok", "ok", "ok", "ok", "ok", "ok", "ok", "ok", "ok", "ok", "ok", "ok", "ok", "ok", "ok", "ok", "ok", "ok", "ok", "ok", "ok", "ok", "ok", "ok", "ok", "ok", "ok", "ok", "ok", "ok", "ok", "ok", "ok", "ok", "ok", "ok", "ok", "ok", "ok", "ok"}, r.Range(1, 3), 4, 0)
	case "late-error":
		// files of a healthy repository first, then a file of a second repository whose
		// configuration cannot be loaded: LintFiles fails while resolving the project of the LAST
		// file, after the checks of the earlier files (and their tool processes) were started
		cs = c20Gen(r, nil, r.Range(2, 5), 5, 40)
		cs.Files["zz-broken/.git/HEAD"] = "ref: refs/heads/main\n"
		cs.Files["zz-broken/.github/actionlint.yaml"] = r.Pick([]string{"self-hosted-runner: [unclosed\n", "self-hosted-runner:\n  labels: 42\n", "paths:\n  '[':\n    ignore: [x]\n", "\t- not yaml\n"})
		cs.Files["zz-broken/.github/workflows/b.yml"] = "on: push\njobs:\n  j:\n    runs-on: ubuntu-latest\n    steps:\n      - run: echo b\n"
		switch idx % 3 {
		case 0: // the project of the last file cannot be resolved
			cs.Lint = append(cs.Lint, "zz-broken/.github/workflows/b.yml")
		case 1: // the last file does not exist
			cs.Lint = append(cs.Lint, ".github/workflows/zz-missing.yml")
		default: // the last "file" is a directory
			cs.Files[".github/workflows/zz-dir.yml/keep"] = "x\n"
			cs.Lint = append(cs.Lint, ".github/workflows/zz-dir.yml")
		}
	default:
		cs = c20Gen(r, nil, r.Range(1, 3), 5, 8)
	}
	os.MkdirAll(root, 0o755)
	writeFiles(root, cs.Files)
	toolDir := filepath.Join(root, "tool")
	os.MkdirAll(toolDir, 0o755)
	toolLog := filepath.Join(toolDir, "log")
	os.Setenv("FAKETOOL_LOG", toolLog)
	os.Setenv("FAKETOOL_DIR", toolDir)
	tool := filepath.Join(binDir(), "faketool")
	if base == "unstartable" {
		// a tool that is found (exists, executable bit set) but cannot be started
		tool = filepath.Join(root, "broken-tool")
		switch idx % 3 {
		case 0:
			os.WriteFile(tool, []byte("\x7fELF garbage that is not a program\n"), 0o755) // exec format error
		case 1:
			os.WriteFile(tool, []byte("#!/nonexistent/interpreter\necho\n"), 0o755) // ENOENT at exec
		default:
			os.WriteFile(tool, []byte{}, 0o755) // empty file
		}
		for _, st := range cs.Steps {
			if st.Tool != "" {
				st.Fails, st.Issues, st.Behave = true, 0, "cannot-be-started"
			}
		}
	}
	par := runtime.NumCPU()
	detail := func(extra map[string]interface{}) map[string]interface{} {
		files := map[string]string{}
		for k, v := range cs.Files {
			files[k] = truncate(v, 6000)
		}
		var steps []map[string]interface{}
		for _, s := range cs.Steps {
			steps = append(steps, map[string]interface{}{"id": s.ID, "file": s.File, "run_pos": s.RunPos, "shell": s.Shell, "tool": s.Tool, "behaviour": s.Behave})
		}
		d := map[string]interface{}{"files": files, "steps": steps, "num_cpu": par}
		for k, v := range extra {
			d[k] = v
		}
		return d
	}

	var abs []string
	for _, f := range cs.Lint {
		abs = append(abs, filepath.Join(root, f))
	}
	l, err := actionlint.NewLinter(io.Discard, &actionlint.LinterOptions{WorkingDir: root, Shellcheck: tool, Pyflakes: tool})
	if err != nil {
		out.viol(idx, "C20:harness", "NewLinter: "+err.Error(), nil)
		return
	}
	delay := []int{0, 300, 3000}[r.Intn(3)]
	actionlint.VerifTraceStart(r.U64(), delay, "proc.")
	errs, lerr := l.LintFiles(abs, nil)
	actionlint.VerifMark("harness.lint.returned", "")
	// give stragglers (processes still running after the return) the chance to show up in the trace
	expectedInv := 0
	for _, s := range cs.Steps {
		if s.Tool != "" {
			expectedInv++
		}
	}
	deadline := 0
	for {
		invs := c20ParseToolLog(toolLog)
		open := 0
		for _, i := range invs {
			if i.end == 0 {
				open++
			}
		}
		if open == 0 || deadline > 200 {
			break
		}
		deadline++
		time.Sleep(5 * time.Millisecond)
	}
	time.Sleep(2 * time.Millisecond)
	trace := actionlint.VerifTraceStop()
	out.eval(1)
	out.count("trace_events", len(trace))
	invs := c20ParseToolLog(toolLog)
	out.count("tool_invocations", len(invs))

	if base == "unstartable" {
		// no tool-side log exists: only the fatal-error and trace oracles apply
		for _, st := range cs.Steps {
			st.Expected = ""
		}
	}
	if base == "late-error" {
		if lerr == nil {
			out.viol(idx, "C20:late-file-error-not-fatal", "the last file of the run cannot be linted at all (unloadable repository configuration, missing file or directory) but LintFiles returned results", detail(nil))
		} else {
			out.nontrivial(fmt.Sprintf("%s|%d|fatal", fam, idx))
			out.count("late_errors_observed", 1)
		}
		c20TraceSpec(out, idx, trace, invs, par, lerr, detail)
		return
	}
	// ---- (A) exactly once, with the exact sanitised stdin
	want := map[string]*c20Step{}
	anyFail := false
	for _, s := range cs.Steps {
		if s.Tool != "" {
			want[fmt.Sprintf("%x", sha1.Sum([]byte(s.Expected)))] = s
			if s.Fails {
				anyFail = true
			}
		}
	}
	seen := map[string]int{}
	for _, inv := range invs {
		seen[inv.sha]++
		s, ok := want[inv.sha]
		if !ok {
			got, _ := os.ReadFile(inv.copyPath)
			// find the step by its id marker to explain the difference
			why := "a tool received an input that is no run: script of the workflow (after the documented placeholder replacement)"
			sig := "C20:unexpected-tool-input"
			if m := regexp.MustCompile(`id=(\d+) `).FindSubmatch(got); m != nil {
				sid, _ := strconv.Atoi(string(m[1]))
				for _, st := range cs.Steps {
					if st.ID == sid {
						switch {
						case st.Tool == "":
							sig, why = "C20:script-passed-to-tool-although-shell-not-eligible", fmt.Sprintf("step %d has effective shell %q but its script was passed to %s", sid, st.Shell, inv.mode)
						case st.Tool != inv.mode:
							sig, why = "C20:script-passed-to-wrong-tool", fmt.Sprintf("step %d has effective shell %q (%s) but was passed to %s", sid, st.Shell, st.Tool, inv.mode)
						case len(got) != len(st.Expected):
							sig, why = "C20:stdin-length-differs", fmt.Sprintf("step %d: the tool received %d bytes, the script with equally long placeholders has %d", sid, len(got), len(st.Expected))
						default:
							sig, why = "C20:stdin-content-differs", fmt.Sprintf("step %d: the tool input differs from the script with placeholders replaced", sid)
						}
						out.viol(idx, sig, why, detail(map[string]interface{}{"step": sid, "received": truncate(string(got), 3000), "expected": truncate(st.Expected, 3000)}))
					}
				}
			} else {
				out.viol(idx, sig, why, detail(map[string]interface{}{"received": truncate(string(got), 3000)}))
			}
			continue
		}
		if s.Tool != inv.mode {
			out.viol(idx, "C20:script-passed-to-wrong-tool", fmt.Sprintf("step %d (%s) was passed to %s", s.ID, s.Tool, inv.mode), detail(nil))
		}
		if s.Tool == "shellcheck" {
			// the dialect the tool is told to check must be the script's own effective shell
			wantSh := "bash"
			if s.Shell == "sh" || strings.HasPrefix(s.Shell, "sh ") {
				wantSh = "sh"
			}
			if !strings.Contains(" "+inv.args+" ", " --shell "+wantSh+" ") {
				out.viol(idx, "C20:tool-invoked-for-wrong-shell", fmt.Sprintf("step %d has effective shell %q but shellcheck was started with arguments %q", s.ID, s.Shell, inv.args), detail(map[string]interface{}{"step": s.ID}))
			} else {
				out.count("shell_argument_checked", 1)
			}
		}
	}
	if lerr == nil || !anyFail {
		// when the run ended with a fatal error some scripts may legitimately not have been started
		for sha, s := range want {
			if seen[sha] != 1 && !(lerr != nil) {
				sig := "C20:script-not-passed-to-tool"
				if seen[sha] > 1 {
					sig = "C20:script-passed-more-than-once"
				}
				out.viol(idx, sig, fmt.Sprintf("step %d (effective shell %q => %s) was passed to the tool %d times instead of once", s.ID, s.Shell, s.Tool, seen[sha]), detail(map[string]interface{}{"step": s.ID}))
			}
		}
	}
	for sha, n := range seen {
		if n > 1 {
			if s := want[sha]; s != nil {
				out.viol(idx, "C20:script-passed-more-than-once", fmt.Sprintf("step %d was passed to the tool %d times", s.ID, n), detail(map[string]interface{}{"step": s.ID}))
			}
		}
	}

	// ---- (B) diagnostics / fatal error
	if anyFail {
		if lerr == nil {
			var fs []string
			for _, s := range cs.Steps {
				if s.Fails {
					fs = append(fs, fmt.Sprintf("step %d: %s %s", s.ID, s.Tool, s.Behave))
				}
			}
			out.viol(idx, "C20:tool-failure-not-fatal:"+c20FailClass(cs), "a tool invocation failed but linting returned results instead of a fatal error: "+strings.Join(fs, "; "), detail(map[string]interface{}{"diagnostics": diagStrings(toDiags(errs))}))
		} else {
			out.nontrivial(fmt.Sprintf("%s|%d|fatal", fam, idx))
			out.set("fatal_classes", c20FailClass(cs))
			// the fatal error of a multi-file run names the file it occurred in: that file must
			// contain a step whose tool invocation failed
			if m := regexp.MustCompile(`fatal error while checking (\S+): `).FindStringSubmatch(lerr.Error()); m != nil {
				named, ok := m[1], false
				for _, s := range cs.Steps {
					if s.Fails && (s.File == named || strings.HasSuffix(named, s.File) || strings.HasSuffix(s.File, named)) {
						ok = true
					}
				}
				if !ok {
					out.viol(idx, "C20:fatal-error-attributed-to-file-without-failing-tool", fmt.Sprintf("the fatal error names %s, but no script of that file was given to a failing tool: %v", named, lerr), detail(nil))
				} else {
					out.count("fatal_error_file_attributions_checked", 1)
				}
			}
		}
	} else {
		if lerr != nil {
			out.viol(idx, "C20:spurious-fatal-error", "all tool invocations succeeded but linting returned a fatal error: "+lerr.Error(), detail(nil))
		} else {
			got := map[string]int{}
			for _, e := range errs {
				if c20DiagRe.MatchString(e.Message) {
					got[fmt.Sprintf("%s:%d:%d:%s", e.Filepath, e.Line, e.Column, e.Kind)]++
				} else if e.Kind == "shellcheck" || e.Kind == "pyflakes" {
					out.viol(idx, "C20:unexpected-diagnostic", "tool diagnostic of an unknown form: "+e.Error(), detail(nil))
				}
			}
			wantD := map[string]int{}
			nIssues := 0
			for _, s := range cs.Steps {
				if s.Issues > 0 {
					wantD[fmt.Sprintf("%s:%d:%d:%s", s.File, s.RunPos.Line, s.RunPos.Col, s.Tool)] += s.Issues
					nIssues += s.Issues
				}
			}
			for k, n := range wantD {
				if got[k] != n {
					out.viol(idx, "C20:issue-count-mismatch", fmt.Sprintf("the tool printed %d issues for the step at %s but %d diagnostics are attached to its run: key", n, k, got[k]), detail(map[string]interface{}{"diagnostics": diagStrings(toDiags(errs))}))
				}
			}
			for k, n := range got {
				if wantD[k] == 0 {
					out.viol(idx, "C20:diagnostic-at-wrong-step", fmt.Sprintf("%d tool diagnostics at %s where the tool printed none", n, k), detail(map[string]interface{}{"diagnostics": diagStrings(toDiags(errs))}))
				}
			}
			if nIssues > 0 {
				out.nontrivial(fmt.Sprintf("%s|%d|issues", fam, idx))
			} else if expectedInv > 0 {
				out.nontrivial(fmt.Sprintf("%s|%d|ok", fam, idx))
			}
		}
	}

	c20TraceSpec(out, idx, trace, invs, par, lerr, detail)
	if idx < 2 && base == "mixed" {
		var steps []string
		for _, s := range cs.Steps {
			steps = append(steps, fmt.Sprintf("step %d %s shell=%q tool=%s behave=%s", s.ID, s.File, s.Shell, s.Tool, s.Behave))
		}
		out.sample(map[string]interface{}{"family": fam, "steps": steps, "workflow_w0": truncate(cs.Files[".github/workflows/w0.yml"], 1500), "fatal": fmt.Sprint(lerr), "diagnostics": len(errs), "tool_invocations": len(invs), "trace_events": len(trace)})
	}
}

// c20TraceSpec checks the recorded hook trace and the tool log against the specification of the
// process pool: bounded concurrency, nothing of the pool after the call returned, every run ended.
func c20TraceSpec(out *workerOut, idx int, trace []actionlint.VerifEvent, invs []*c20Inv, par int, lerr error, detail func(map[string]interface{}) map[string]interface{}) {
	// ---- (C) trace specification
	held, maxHeld, live, maxLive := 0, 0, 0, 0
	enter := map[string]int{}
	ended := map[string]int{}
	returned := false
	afterReturn := 0
	for _, ev := range trace {
		switch ev.Name {
		case "proc.sema.acquired":
			held++
			if held > maxHeld {
				maxHeld = held
			}
		case "proc.sema.release":
			held--
		case "exec.start":
			live++
			if live > maxLive {
				maxLive = live
			}
			if returned {
				afterReturn++
			}
		case "exec.done":
			live--
			if returned {
				afterReturn++
			}
		case "proc.run.enter":
			enter[ev.Arg]++
		case "proc.goroutine.end":
			ended[ev.Arg]++
			if returned {
				afterReturn++
			}
		case "lint.return", "lint.return.error", "harness.lint.returned":
			returned = true
		}
	}
	out.set("max_semaphore_held", strconv.Itoa(maxHeld))
	out.set("max_live_processes_trace", strconv.Itoa(maxLive))
	if maxHeld > par || maxLive > par {
		out.viol(idx, "C20:more-processes-than-cpus", fmt.Sprintf("trace: %d semaphore holders / %d started-not-finished tool processes at once with %d CPUs", maxHeld, maxLive, par), detail(nil))
	}
	if ov := c20MaxOverlap(invs); ov > par {
		out.viol(idx, "C20:more-processes-than-cpus", fmt.Sprintf("tool log: %d tool processes alive at once with %d CPUs", ov, par), detail(nil))
	} else {
		out.set("max_live_processes_toollog", strconv.Itoa(ov))
	}
	if afterReturn > 0 {
		out.viol(idx, "C20:tools-still-running-after-return", fmt.Sprintf("%d process-pool events (exec.start / exec.done / goroutine end) were recorded after LintFiles had returned (fatal error: %v)", afterReturn, lerr != nil), detail(map[string]interface{}{"error": fmt.Sprint(lerr)}))
	}
	for id, n := range enter {
		if ended[id] != n {
			out.viol(idx, "C20:callback-not-finished", fmt.Sprintf("a tool run was entered %d times but its goroutine (process + callback) ended %d times before the trace was closed", n, ended[id]), detail(nil))
		}
	}
	if !returned {
		out.viol(idx, "C20:harness", "no lint.return event in the trace", nil)
	}
}

func c20FailClass(cs *c20Case) string {
	set := map[string]bool{}
	for _, s := range cs.Steps {
		if s.Fails {
			b := s.Behave
			if strings.HasPrefix(b, "exit=") {
				b = "exit-nonzero-no-output"
			}
			set[s.Tool+":"+b] = true
		}
	}
	var l []string
	for k := range set {
		l = append(l, k)
	}
	sort.Strings(l)
	return strings.Join(l, "+")
}

// ---------------------------------------------------------------------------

func runC20(r *Run) {
	r.Level = "fault_enumeration"
	r.Rule = "generated projects of 1-8 workflows whose run: steps get their shell from the step, the job default, the workflow default or the runner (windows => pwsh); each script carries a unique id, placeholders at start/middle/end/adjacent/multi-line/unclosed positions and a behaviour marker for the fake tool (ok, k issues, exit!=0 without output, killed, garbage, slow). Fault enumeration: every assignment of the 9 behaviours (ok, 1 issue, 3 issues, exit!=0 without output, killed, garbage, killed after partial output, well-formed output followed by trailing text, exit 0 without any output) to k<=4 tool invocations (7380 patterns; all in thorough, a seeded sample in quick). Oracles: tool log (exact stdin per eligible script, exactly once), diagnostics/fatal error vs. the planned behaviour, hook trace (semaphore and live-process bounds, nothing after return, every run has ended), also under -race and with NumCPU=2 (taskset). Non-trivial = distinct case with >= 1 tool invocation whose outcome (issues / fatal / ok) matched the model."
	r.Assume("the fake tool's log undercounts process lifetimes (start logged after exec, end before exit), so the concurrency bound cannot false-alarm")
	r.Assume("pyflakes output that contains no '<stdin>:' line is ignored by design; only shellcheck must fail on garbage")
	if r.ReplayOf != nil && r.ReplayOf.Family == "strace-cli" {
		r.RunFamilies([]*Family{{Name: "strace-cli", N: r.ReplayOf.Index + 1, Do: c20StraceCase}})
		return
	}
	if r.ReplayOf != nil {
		t := wkTask{Family: r.ReplayOf.Family, From: r.ReplayOf.Index, To: r.ReplayOf.Index + 1, Race: strings.HasSuffix(r.ReplayOf.Family, "-race")}
		if strings.HasSuffix(t.Family, "-cpu2") {
			t.Prefix = []string{"taskset", "-c", "0,1"}
		}
		runWorkerPool(r, "c20-worker", []wkTask{t}, 1, nil)
		return
	}
	var tasks []wkTask
	add := func(fam string, n, chunk int, race bool, prefix []string) {
		for from := 0; from < n; from += chunk {
			to := from + chunk
			if to > n {
				to = n
			}
			tasks = append(tasks, wkTask{Family: fam, From: from, To: to, Race: race, Prefix: prefix})
		}
	}
	add("faults", r.Q(200, c20NumFaultPatterns), 20, false, nil)
	add("mixed", r.Q(200, 6000), 20, false, nil)
	add("load", r.Q(30, 600), 5, false, nil)
	add("load-cpu2", r.Q(30, 600), 5, false, []string{"taskset", "-c", "0,1"})
	add("unstartable", r.Q(30, 300), 15, false, nil)
	add("late-error", r.Q(30, 300), 10, false, nil)
	add("faults-cpu2", r.Q(40, 400), 20, false, []string{"taskset", "-c", "0,1"})
	if _, err := os.Stat(filepath.Join(binDir(), "verifmon-race")); err != nil {
		r.Inconclusive("race build of the monitor is missing")
	} else {
		add("mixed-race", r.Q(40, 800), 10, true, nil)
		add("faults-race", r.Q(40, 400), 10, true, nil)
		add("load-race", r.Q(10, 100), 5, true, nil)
	}
	runWorkerPool(r, "c20-worker", tasks, 6, nil)
	r.Count("race_reports", 0)
	r.RunFamilies([]*Family{{Name: "strace-cli", N: r.Q(9, 150), Par: 3, Do: c20StraceCase}})
	if r.Counter("late_errors_observed") == 0 {
		r.Inconclusive("no run failed while resolving the project of a later file")
	}
	if r.SetLen("fatal_classes") < 4 {
		r.Inconclusive("too few distinct tool failure classes led to a fatal error")
	}
	if !r.SetHas("max_semaphore_held", "2") {
		r.Inconclusive("the semaphore bound was never reached under NumCPU=2")
	}
}

// ---------------------------------------------------------------------------
// (3) kernel-level observation of the real CLI with strace

var (
	c20StPid    = regexp.MustCompile(`^(\d+)\s+(.*)$`)
	c20StSiPid  = regexp.MustCompile(`si_pid=(\d+)`)
	c20StExited = regexp.MustCompile(`^\+\+\+ (exited with|killed by)`)
)

// c20StraceCase runs the CLI under strace -f with NumCPU restricted by taskset and checks: never
// more live tool processes than CPUs, every tool process has exited and has been reaped before the
// CLI exits.
func c20StraceCase(c *Case) {
	ncpu := []int{2, 4, 16}[c.Idx%3]
	if ncpu > runtime.NumCPU() {
		ncpu = runtime.NumCPU()
	}
	cs := c20Gen(c.R, nil, c.R.Range(1, 6), 8, 20)
	root := mkScratch("c20st")
	defer os.RemoveAll(root)
	writeFiles(root, cs.Files)
	tool := filepath.Join(binDir(), "faketool")
	tracePath := filepath.Join(root, "strace.txt")
	cpus := fmt.Sprintf("0-%d", ncpu-1)
	args := []string{"-f", "-q", "-e", "trace=process", "-o", tracePath, "taskset", "-c", cpus, filepath.Join(binDir(), "actionlint"), "-no-color", "-shellcheck=" + tool, "-pyflakes=" + tool}
	args = append(args, cs.Lint...)
	cmd := execCommand("strace", args...)
	cmd.Dir = root
	cmd.Env = append(os.Environ(), "FAKETOOL_LOG=", "FAKETOOL_DIR=")
	outb, _ := cmd.CombinedOutput()
	c.Eval(1)
	b, err := os.ReadFile(tracePath)
	if err != nil {
		c.Count("strace_unavailable", 1)
		return
	}
	lines := strings.Split(string(b), "\n")
	toolPids := map[string]bool{}
	toolFamily := map[string]bool{} // tool processes and their threads
	cloneRes := regexp.MustCompile(`\) = (\d+)$`)
	// pass 1: tool processes, their threads, and the CLI's own exit_group (the last exit_group by a
	// process that is not a tool; helper children of os/exec exit early)
	mainExitLine := -1
	for i, l := range lines {
		m := c20StPid.FindStringSubmatch(l)
		if m == nil {
			continue
		}
		pid, rest := m[1], m[2]
		if strings.HasPrefix(rest, "execve(\""+tool+"\"") {
			toolPids[pid] = true
			toolFamily[pid] = true
		}
		if toolFamily[pid] && (strings.HasPrefix(rest, "clone") || strings.HasPrefix(rest, "<... clone")) {
			if cm := cloneRes.FindStringSubmatch(rest); cm != nil {
				toolFamily[cm[1]] = true
			}
		}
		if strings.HasPrefix(rest, "exit_group(") && !toolFamily[pid] {
			mainExitLine = i
		}
	}
	alive := map[string]bool{}
	started := map[string]bool{}
	exited := map[string]bool{}
	reaped := map[string]bool{}
	live, maxLive := 0, 0
	var bad []string
	for i, l := range lines {
		m := c20StPid.FindStringSubmatch(l)
		if m == nil {
			continue
		}
		pid, rest := m[1], m[2]
		switch {
		case strings.HasPrefix(rest, "execve(\""+tool+"\""):
			if !started[pid] {
				started[pid] = true
				alive[pid] = true
				live++
				if live > maxLive {
					maxLive = live
				}
			}
		case c20StExited.MatchString(rest):
			if alive[pid] {
				alive[pid] = false
				live--
			}
			if toolPids[pid] {
				exited[pid] = true
				if mainExitLine >= 0 && i > mainExitLine {
					bad = append(bad, fmt.Sprintf("tool process %s ended (line %d) after the CLI had called exit_group (line %d)", pid, i+1, mainExitLine+1))
				}
			}
		}
		if strings.Contains(rest, "CLD_EXITED") || strings.Contains(rest, "CLD_KILLED") || strings.Contains(rest, "CLD_DUMPED") {
			if strings.HasPrefix(rest, "waitid(") || strings.HasPrefix(rest, "<... waitid resumed>") || strings.HasPrefix(rest, "wait4(") || strings.HasPrefix(rest, "<... wait4 resumed>") {
				if sm := c20StSiPid.FindStringSubmatch(rest); sm != nil && (mainExitLine < 0 || i < mainExitLine) {
					reaped[sm[1]] = true
				}
			}
		}
	}
	// recompute: exit_group lines of helper children come before; take the last non-tool exit_group
	c.SetAdd("strace_max_live_tool_processes", fmt.Sprintf("cpus=%d:max=%d", ncpu, maxLive))
	c.Count("strace_tool_processes", len(toolPids))
	detail := map[string]interface{}{"files": cs.Files, "cpus": ncpu, "cli_output": truncate(string(outb), 2000), "strace_tail": truncate(strings.Join(lines[max(0, len(lines)-60):], "\n"), 6000)}
	if maxLive > ncpu {
		c.Violation("C20:more-processes-than-cpus", fmt.Sprintf("strace: %d tool processes alive at once with %d CPUs", maxLive, ncpu), detail)
	}
	for pid := range toolPids {
		if !exited[pid] {
			bad = append(bad, "tool process "+pid+" has no exit record")
		}
	}
	if len(bad) > 0 {
		c.Violation("C20:tool-outlives-cli", strings.Join(bad, "; "), detail)
	}
	// wait4/waitid with pidfd does not name the pid in all kernels: only judge when results carry si_pid
	nreap := 0
	for pid := range toolPids {
		if reaped[pid] {
			nreap++
		}
	}
	if len(reaped) > 0 && nreap < len(toolPids) {
		var miss []string
		for pid := range toolPids {
			if !reaped[pid] {
				miss = append(miss, pid)
			}
		}
		sort.Strings(miss)
		c.Violation("C20:tool-not-collected", "tool processes not reaped (no wait result naming them) before the CLI exited: "+strings.Join(miss, ","), detail)
	}
	if len(toolPids) > 0 {
		c.Nontrivial(fmt.Sprintf("strace|%d|%d", c.Idx, len(toolPids)))
	}
}

func execCommand(name string, args ...string) *exec.Cmd { return exec.Command(name, args...) }
