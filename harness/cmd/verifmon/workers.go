package main

// Generic child-process worker pool used by monitors whose cases must run in their own process
// (global trace state, GOMAXPROCS changes, race detector logs). A worker is this binary (plain or
// -race build) started as "<subcmd> tier seed family from to scratch"; it prints one JSON object per
// line on stdout and "DONE" at the end.

import (
	"bufio"
	"bytes"
	"encoding/json"
	"fmt"
	"os"
	"os/exec"
	"path/filepath"
	"regexp"
	"sort"
	"strconv"
	"strings"
	"sync"
	"sync/atomic"
)

type wkTask struct {
	Family   string
	From, To int
	Race     bool
	Prefix   []string // command prefix, e.g. taskset -c 0,1 (changes runtime.NumCPU of the worker)
}

// WorkerMsg is one line of worker output.
type WorkerMsg struct {
	T      string                 `json:"t"` // viol | nontrivial | count | set | sample | eval
	Idx    int                    `json:"i"`
	Sig    string                 `json:"sig,omitempty"`
	What   string                 `json:"what,omitempty"`
	Detail map[string]interface{} `json:"detail,omitempty"`
	Key    string                 `json:"k,omitempty"`
	N      int                    `json:"n,omitempty"`
}

type workerOut struct {
	w  *bufio.Writer
	mu sync.Mutex
}

func newWorkerOut() *workerOut { return &workerOut{w: bufio.NewWriterSize(os.Stdout, 1<<16)} }

func (o *workerOut) send(m WorkerMsg) {
	b, _ := json.Marshal(m)
	o.mu.Lock()
	o.w.Write(b)
	o.w.WriteByte('\n')
	o.mu.Unlock()
}
func (o *workerOut) flush() { o.mu.Lock(); o.w.Flush(); o.mu.Unlock() }

func (o *workerOut) viol(idx int, sig, what string, detail map[string]interface{}) {
	o.send(WorkerMsg{T: "viol", Idx: idx, Sig: sig, What: what, Detail: detail})
}
func (o *workerOut) eval(n int)                      { o.send(WorkerMsg{T: "eval", N: n}) }
func (o *workerOut) count(k string, n int)           { o.send(WorkerMsg{T: "count", Key: k, N: n}) }
func (o *workerOut) set(set, elem string)            { o.send(WorkerMsg{T: "set", Key: set, Sig: elem}) }
func (o *workerOut) nontrivial(k string)             { o.send(WorkerMsg{T: "nontrivial", Key: k}) }
func (o *workerOut) sample(v map[string]interface{}) { o.send(WorkerMsg{T: "sample", Detail: v}) }

type raceReport struct {
	Frames string // "fnA | fnB": first actionlint frame of each stack, sorted
	Text   string
}

var raceBlockRe = regexp.MustCompile(`(?s)WARNING: DATA RACE.*?==================`)

// parseRaceLog splits a race detector log into reports and derives a signature from the first
// actionlint (non-harness) frame of each of the two stacks.
func parseRaceLog(text string) []raceReport {
	var out []raceReport
	for _, blk := range raceBlockRe.FindAllString(text, -1) {
		// stacks are separated by blank lines; the first two are the conflicting accesses
		parts := strings.Split(blk, "\n\n")
		var fns []string
		for _, p := range parts {
			if len(fns) == 2 {
				break
			}
			if !(strings.Contains(p, "Write at") || strings.Contains(p, "Read at") || strings.Contains(p, "Previous write") || strings.Contains(p, "Previous read")) {
				continue
			}
			fn := "non-actionlint"
			for _, l := range strings.Split(p, "\n") {
				l = strings.TrimSpace(l)
				if strings.HasPrefix(l, "github.com/rhysd/actionlint.") {
					fn = strings.TrimPrefix(l, "github.com/rhysd/actionlint.")
					if j := strings.LastIndex(fn, "("); j > 0 {
						fn = fn[:j]
					}
					break
				}
			}
			fns = append(fns, fn)
		}
		sort.Strings(fns)
		out = append(out, raceReport{Frames: strings.Join(fns, " | "), Text: blk})
	}
	return out
}

// runWorkerPool executes tasks on nproc worker processes. Messages are folded into r; race logs of
// race-build workers are parsed and reported under raceProp signature prefix.
func runWorkerPool(r *Run, subcmd string, tasks []wkTask, nproc int, extraEnv []string) {
	scratch := mkScratch(strings.ToLower(r.Prop) + "pool")
	defer os.RemoveAll(scratch)
	var next int64 = -1
	var wg sync.WaitGroup
	for w := 0; w < nproc; w++ {
		wg.Add(1)
		go func(slot int) {
			defer wg.Done()
			for {
				i := int(atomic.AddInt64(&next, 1))
				if i >= len(tasks) {
					return
				}
				t := tasks[i]
				wdir := filepath.Join(scratch, fmt.Sprintf("w%d-%d", slot, i))
				os.MkdirAll(wdir, 0o755)
				bin := filepath.Join(binDir(), "verifmon")
				if t.Race {
					bin = filepath.Join(binDir(), "verifmon-race")
				}
				argv := append(append([]string{}, t.Prefix...), bin, subcmd, r.Tier, strconv.FormatUint(r.Seed, 10), t.Family, strconv.Itoa(t.From), strconv.Itoa(t.To), wdir)
				cmd := exec.Command(argv[0], argv[1:]...)
				racelog := filepath.Join(scratch, fmt.Sprintf("race-%d", i))
				cmd.Env = append(os.Environ(), "GORACE=halt_on_error=0 log_path="+racelog, "GOTRACEBACK=all")
				cmd.Env = append(cmd.Env, extraEnv...)
				var stderr bytes.Buffer
				cmd.Stderr = &stderr
				stdout, _ := cmd.StdoutPipe()
				if err := cmd.Start(); err != nil {
					r.Inconclusive("cannot start worker: " + err.Error())
					return
				}
				done := false
				sc := bufio.NewScanner(stdout)
				sc.Buffer(make([]byte, 1<<20), 1<<26)
				for sc.Scan() {
					line := sc.Text()
					if line == "DONE" {
						done = true
						continue
					}
					var m WorkerMsg
					if json.Unmarshal([]byte(line), &m) != nil {
						continue
					}
					switch m.T {
					case "viol":
						if m.Detail == nil {
							m.Detail = map[string]interface{}{}
						}
						m.Detail["race_build"] = t.Race
						r.violationAt(t.Family, m.Idx, m.Sig, m.What, m.Detail)
					case "eval":
						r.Eval(m.N)
					case "count":
						r.Count(m.Key, m.N)
					case "set":
						r.SetAdd(m.Key, m.Sig)
					case "nontrivial":
						r.Nontrivial(m.Key)
					case "sample":
						r.Sample(m.Detail)
					}
				}
				err := cmd.Wait()
				if ms, _ := filepath.Glob(racelog + ".*"); len(ms) > 0 {
					for _, mf := range ms {
						b, _ := os.ReadFile(mf)
						for _, rep := range parseRaceLog(string(b)) {
							r.Count("race_reports", 1)
							r.violationAt(t.Family, t.From, r.Prop+":race:"+rep.Frames, "data race reported by the Go race detector: "+rep.Frames, map[string]interface{}{"report": rep.Text, "task": t})
						}
						os.Remove(mf)
					}
				}
				if ee, ok := err.(*exec.ExitError); ok && done && t.Race && ee.ExitCode() == 66 {
					err = nil // the race runtime's exit status when reports were written; they were parsed above
				}
				if !done || err != nil {
					st := stderr.String()
					if strings.Contains(st, "panic:") || strings.Contains(st, "fatal error:") {
						r.violationAt(t.Family, t.From, r.Prop+":crash:"+c01Site(st), fmt.Sprintf("worker process crashed while running cases %s[%d,%d): %s", t.Family, t.From, t.To, firstLine(st)), map[string]interface{}{"stderr": truncate(st, 20000), "task": t})
					} else {
						r.Inconclusive(fmt.Sprintf("worker %s[%d,%d) ended abnormally: %v; stderr: %s", t.Family, t.From, t.To, err, truncate(st, 600)))
					}
				}
				if t.Race {
					r.Count("tasks_under_race_build", 1)
				}
				os.RemoveAll(wdir)
			}
		}(w)
	}
	wg.Wait()
}
