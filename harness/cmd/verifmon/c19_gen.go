package main

// C19 generator: abstract matrices (rows / include / exclude, values nested <= 3, shared prefixes,
// planted duplicates, expression replacements), their permutations and their YAML rendering with the
// source position of every row value and every exclude key / value.

import (
	"fmt"
	"strings"
)

// scalar pool: every abstract scalar has exactly one spelling (never 1 / 1.0 / '1').
var c19ScalarPool = [][2]string{
	{"1", "1"}, {"2", "2"}, {"10", "10"}, {"3.5", "3.5"},
	{"foo", "foo"}, {"Foo", "Foo"}, {"bar", "bar"}, {"ubuntu-latest", "ubuntu-latest"},
	{"true", "true"}, {"null", "null"}, {"'x y'", "x y"}, {`"q-1"`, "q-1"}, {"''", ""},
}

var c19MemberKeys = []string{"a", "b", "c", "name", "Ver"}
var c19RowKeys = []string{"os", "Node", "cfg", "ver"}
var c19ExtraKeys = []string{"extra", "Flag"}
var c19UnknownKeys = []string{"nokey", "Arch"}

func c19S(text, str string) *c19Val { return &c19Val{Kind: c19Scalar, Text: text, Str: str} }
func c19P(text string) *c19Val      { return c19S(text, text) } // plain scalar
func c19L(es ...*c19Val) *c19Val    { return &c19Val{Kind: c19Seq, Elems: es} }

// c19M builds a mapping from alternating key (string) / value (*c19Val) arguments.
func c19M(kv ...interface{}) *c19Val {
	v := &c19Val{Kind: c19Map}
	for i := 0; i+1 < len(kv); i += 2 {
		v.Keys = append(v.Keys, kv[i].(string))
		v.Vals = append(v.Vals, kv[i+1].(*c19Val))
	}
	return v
}

type c19Gen struct {
	r     *Rand
	nexpr int
}

// expr returns a fresh, unique expression text of the given shape.
func (g *c19Gen) expr(section bool) string {
	g.nexpr++
	if section {
		return fmt.Sprintf("${{ fromJSON(vars.SEC%d) }}", g.nexpr)
	}
	switch g.r.Intn(4) {
	case 0:
		return fmt.Sprintf("${{ fromJSON(vars.J%d) }}", g.nexpr)
	case 1:
		return fmt.Sprintf("pre-${{ vars.P%d }}", g.nexpr)
	case 2:
		return fmt.Sprintf("${{ github.event.inputs.i%d }}", g.nexpr)
	}
	return fmt.Sprintf("${{ vars.X%d }}", g.nexpr)
}

func (g *c19Gen) exprScalar() *c19Val {
	t := g.expr(false)
	return &c19Val{Kind: c19Scalar, Text: t, Str: t, Expr: true}
}

func (g *c19Gen) scalar() *c19Val {
	p := c19ScalarPool[g.r.Intn(len(c19ScalarPool))]
	// bias towards a few scalars so that collisions are frequent
	if g.r.Chance(1, 2) {
		p = c19ScalarPool[g.r.Intn(3)]
	}
	return c19S(p[0], p[1])
}

func (g *c19Gen) otherScalar(not string) *c19Val {
	for {
		s := g.scalar()
		if s.Str != not {
			return s
		}
	}
}

// value generates a static value nested at most depth levels.
func (g *c19Gen) value(depth int) *c19Val {
	if depth <= 0 {
		return g.scalar()
	}
	switch x := g.r.Intn(100); {
	case x < 30:
		return g.scalar()
	case x < 55:
		n := g.r.Range(1, 3)
		if g.r.Chance(1, 12) {
			n = 0
		}
		v := &c19Val{Kind: c19Seq}
		for i := 0; i < n; i++ {
			v.Elems = append(v.Elems, g.value(depth-1))
		}
		return v
	default:
		n := g.r.Range(1, 3)
		if g.r.Chance(1, 12) {
			n = 0
		}
		v := &c19Val{Kind: c19Map}
		p := g.r.Perm(len(c19MemberKeys))
		for i := 0; i < n; i++ {
			v.Keys = append(v.Keys, c19CaseVariant(g.r, c19MemberKeys[p[i]]))
			v.Vals = append(v.Vals, g.value(depth-1))
		}
		return v
	}
}

func c19CaseVariant(r *Rand, s string) string {
	switch r.Intn(4) {
	case 0:
		return strings.ToLower(s)
	case 1:
		return strings.ToUpper(s)
	case 2:
		if len(s) > 0 {
			return strings.ToUpper(s[:1]) + strings.ToLower(s[1:])
		}
	}
	return s
}

// c19Clone copies v. perm != nil shuffles mapping members; recase respells mapping keys in another
// letter case; g != nil gives every expression a new unique text (so the copy of an expression is a
// different, unknown value).
func c19Clone(v *c19Val, perm *Rand, recase bool, g *c19Gen) *c19Val {
	n := &c19Val{Kind: v.Kind, Text: v.Text, Str: v.Str, Expr: v.Expr}
	switch v.Kind {
	case c19Scalar:
		if v.Expr && g != nil {
			return g.exprScalar()
		}
	case c19Seq:
		for _, e := range v.Elems {
			n.Elems = append(n.Elems, c19Clone(e, perm, recase, g))
		}
	case c19Map:
		idx := make([]int, len(v.Keys))
		for i := range idx {
			idx[i] = i
		}
		if perm != nil {
			idx = perm.Perm(len(v.Keys))
		}
		for _, i := range idx {
			k := v.Keys[i]
			if recase && perm != nil {
				k = c19CaseVariant(perm, k)
			}
			n.Keys = append(n.Keys, k)
			n.Vals = append(n.Vals, c19Clone(v.Vals[i], perm, recase, g))
		}
	}
	return n
}

// equalVariant: structurally equal copy (members shuffled, keys respelled) unless v holds expressions.
func (g *c19Gen) equalVariant(v *c19Val) *c19Val { return c19Clone(v, g.r, true, g) }

type c19Node struct {
	v      *c19Val
	parent int // kind of the parent, -1 at top
}

func c19Walk(v *c19Val, parent int, out *[]c19Node) {
	*out = append(*out, c19Node{v, parent})
	switch v.Kind {
	case c19Seq:
		for _, e := range v.Elems {
			c19Walk(e, c19Seq, out)
		}
	case c19Map:
		for _, e := range v.Vals {
			c19Walk(e, c19Map, out)
		}
	}
}

func (g *c19Gen) freeKey(m *c19Val) (string, bool) {
	p := g.r.Perm(len(c19MemberKeys))
	for _, i := range p {
		k := c19MemberKeys[i]
		used := false
		for _, k2 := range m.Keys {
			if strings.EqualFold(k, k2) {
				used = true
			}
		}
		if !used {
			return c19CaseVariant(g.r, k), true
		}
	}
	return "", false
}

// derive returns a near variant of v of the requested class, and the class actually produced:
//
//	exact          structurally equal
//	subset         some mapping lost one or more members
//	superset       some mapping gained a member
//	member-diff    one scalar that is a mapping member changed
//	seq-elem-diff  one element of a sequence changed
//	seq-len        a sequence gained / lost an element
//	scalar-diff    top-level scalar changed
//	partial-expr   one scalar somewhere inside replaced by an expression
func (g *c19Gen) derive(v *c19Val, class string) (*c19Val, string) {
	cp := g.equalVariant(v)
	var nodes []c19Node
	c19Walk(cp, -1, &nodes)
	pick := func(ok func(n c19Node) bool) *c19Node {
		var c []int
		for i, n := range nodes {
			if ok(n) {
				c = append(c, i)
			}
		}
		if len(c) == 0 {
			return nil
		}
		return &nodes[c[g.r.Intn(len(c))]]
	}
	switch class {
	case "subset":
		done := false
		for rounds := g.r.Range(1, 2); rounds > 0; rounds-- {
			n := pick(func(n c19Node) bool { return n.v.Kind == c19Map && len(n.v.Keys) > 0 })
			if n == nil {
				break
			}
			i := g.r.Intn(len(n.v.Keys))
			n.v.Keys = append(n.v.Keys[:i:i], n.v.Keys[i+1:]...)
			n.v.Vals = append(n.v.Vals[:i:i], n.v.Vals[i+1:]...)
			done = true
			nodes = nodes[:0]
			c19Walk(cp, -1, &nodes)
		}
		if done {
			return cp, "subset"
		}
	case "superset":
		n := pick(func(n c19Node) bool { return n.v.Kind == c19Map && len(n.v.Keys) < len(c19MemberKeys) })
		if n != nil {
			k, _ := g.freeKey(n.v)
			n.v.Keys = append(n.v.Keys, k)
			n.v.Vals = append(n.v.Vals, g.value(g.r.Intn(2)))
			return cp, "superset"
		}
	case "member-diff":
		n := pick(func(n c19Node) bool { return n.v.Kind == c19Scalar && !n.v.Expr && n.parent == c19Map })
		if n != nil {
			*n.v = *g.otherScalar(n.v.Str)
			return cp, "member-diff"
		}
	case "seq-elem-diff":
		n := pick(func(n c19Node) bool { return n.v.Kind == c19Scalar && !n.v.Expr && n.parent == c19Seq })
		if n != nil {
			*n.v = *g.otherScalar(n.v.Str)
			return cp, "seq-elem-diff"
		}
	case "seq-len":
		n := pick(func(n c19Node) bool { return n.v.Kind == c19Seq })
		if n != nil {
			if len(n.v.Elems) > 0 && g.r.Bool() {
				n.v.Elems = n.v.Elems[:len(n.v.Elems)-1]
			} else {
				n.v.Elems = append(n.v.Elems, g.scalar())
			}
			return cp, "seq-len"
		}
	case "partial-expr":
		n := pick(func(n c19Node) bool { return n.v.Kind == c19Scalar && !n.v.Expr && n.parent != -1 })
		if n != nil {
			*n.v = *g.exprScalar()
			return cp, "partial-expr"
		}
	case "exact":
		return cp, "exact"
	}
	// fall back
	if cp.Kind == c19Scalar && !cp.Expr {
		return g.otherScalar(cp.Str), "scalar-diff"
	}
	return cp, "exact"
}

var c19NearClasses = []string{"subset", "superset", "superset", "member-diff", "seq-elem-diff", "seq-len", "exact"}

// matrix generates one abstract matrix.
func (g *c19Gen) matrix() *c19Matrix {
	r := g.r
	m := &c19Matrix{}
	var pool []*c19Val // every static value generated so far (shared prefixes across rows / sections)
	fresh := func() *c19Val {
		if len(pool) > 0 && r.Chance(1, 4) {
			v, _ := g.derive(pool[r.Intn(len(pool))], r.Pick(c19NearClasses))
			return v
		}
		return g.value(r.Intn(4))
	}
	nrows := r.Range(1, 3)
	kp := r.Perm(len(c19RowKeys))
	for i := 0; i < nrows; i++ {
		row := &c19Row{ID: i, Key: c19CaseVariant(r, c19RowKeys[kp[i]])}
		if r.Chance(1, 10) {
			row.Expr = g.expr(true)
			m.Rows = append(m.Rows, row)
			continue
		}
		n := r.Range(1, 6)
		for j := 0; j < n; j++ {
			var v *c19Val
			switch x := r.Intn(100); {
			case x < 8:
				v = g.exprScalar()
			case j > 0 && x < 36:
				v = g.equalVariant(row.Vals[r.Intn(j)]) // planted duplicate (unless it holds an expression)
			case j > 0 && x < 64:
				v, _ = g.derive(row.Vals[r.Intn(j)], r.Pick(c19NearClasses))
			case x < 70:
				v, _ = g.derive(g.value(r.Range(1, 3)), "partial-expr")
			default:
				v = fresh()
			}
			row.Vals = append(row.Vals, v)
			if !c19HasExpr(v) {
				pool = append(pool, v)
			}
		}
		m.Rows = append(m.Rows, row)
	}
	staticRow := func() *c19Row {
		p := r.Perm(len(m.Rows))
		for _, i := range p {
			if m.Rows[i].Expr == "" {
				return m.Rows[i]
			}
		}
		return nil
	}
	// include
	if r.Chance(45, 100) {
		if r.Chance(6, 100) {
			m.IncExpr = g.expr(true)
		} else {
			for n := r.Range(1, 3); n > 0; n-- {
				e := &c19Entry{}
				if r.Chance(8, 100) {
					e.Expr = g.expr(true)
					m.Inc = append(m.Inc, e)
					continue
				}
				used := map[string]bool{}
				for k := r.Range(1, 3); k > 0; k-- {
					a := &c19Assign{}
					var row *c19Row
					if r.Chance(65, 100) {
						row = m.Rows[r.Intn(len(m.Rows))]
						a.Key = c19CaseVariant(r, row.Key)
					} else {
						a.Key = c19CaseVariant(r, r.Pick(c19ExtraKeys))
					}
					if used[strings.ToLower(a.Key)] {
						continue
					}
					used[strings.ToLower(a.Key)] = true
					switch x := r.Intn(100); {
					case x < 8:
						a.Val = g.exprScalar()
					case row != nil && row.Expr == "" && x < 40:
						a.Val = g.equalVariant(row.Vals[r.Intn(len(row.Vals))])
					case row != nil && row.Expr == "" && x < 80:
						a.Val, _ = g.derive(row.Vals[r.Intn(len(row.Vals))], r.Pick(c19NearClasses))
					default:
						a.Val = fresh()
					}
					if !c19HasExpr(a.Val) {
						pool = append(pool, a.Val)
					}
					e.Assigns = append(e.Assigns, a)
				}
				if len(e.Assigns) > 0 {
					m.Inc = append(m.Inc, e)
				}
			}
		}
	}
	// exclude
	if r.Chance(78, 100) {
		if r.Chance(4, 100) {
			m.ExcExpr = g.expr(true)
		} else {
			id := 0
			var exprRows, incOnly []string
			for _, row := range m.Rows {
				if row.Expr != "" {
					exprRows = append(exprRows, row.Key)
				}
			}
			for _, e := range m.Inc {
				for _, a := range e.Assigns {
					if row, _, _, _ := m.candidates(a.Key); row == nil {
						incOnly = append(incOnly, a.Key)
					}
				}
			}
			for n := r.Range(1, 4); n > 0; n-- {
				e := &c19Entry{}
				if r.Chance(8, 100) {
					e.Expr = g.expr(true)
					m.Exc = append(m.Exc, e)
					continue
				}
				used := map[string]bool{}
				for k := r.Range(1, 3); k > 0; k-- {
					a := &c19Assign{ID: id}
					keyClass := "row"
					switch x := r.Intn(100); {
					case x < 12:
						a.Key = c19CaseVariant(r, r.Pick(c19UnknownKeys))
						keyClass = "unknown"
					case x < 24 && len(exprRows) > 0:
						a.Key = c19CaseVariant(r, r.Pick(exprRows))
						keyClass = "expr-row"
					case x < 45 && len(incOnly) > 0:
						a.Key = c19CaseVariant(r, r.Pick(incOnly))
						keyClass = "include-only"
					default:
						if sr := staticRow(); sr != nil {
							a.Key = c19CaseVariant(r, sr.Key)
						} else {
							a.Key = c19CaseVariant(r, m.Rows[r.Intn(len(m.Rows))].Key)
							keyClass = "expr-row"
						}
					}
					if used[strings.ToLower(a.Key)] {
						continue
					}
					used[strings.ToLower(a.Key)] = true
					_, cands, _, _ := m.candidates(a.Key)
					var static []*c19Val
					for _, cv := range cands {
						if !c19HasExpr(cv) {
							static = append(static, cv)
						}
					}
					valClass := ""
					switch x := r.Intn(100); {
					case x < 6:
						a.Val = g.exprScalar()
						valClass = "expr"
					case len(static) == 0 || x < 14:
						a.Val = fresh()
						valClass = "fresh"
					case x < 19:
						a.Val = c19P("zzz-undefined")
						valClass = "undefined-scalar"
					default:
						want := r.Pick([]string{"exact", "exact", "subset", "subset", "subset", "superset", "superset", "member-diff", "member-diff", "seq-elem-diff", "seq-elem-diff", "seq-len", "partial-expr"})
						a.Val, valClass = g.derive(static[r.Intn(len(static))], want)
					}
					a.Class = keyClass + "/" + valClass
					id++
					e.Assigns = append(e.Assigns, a)
				}
				if len(e.Assigns) > 0 {
					m.Exc = append(m.Exc, e)
				}
			}
		}
	}
	// a whole-matrix expression is generated by its own family
	m.Order = c19DefaultOrder(m)
	if r.Bool() {
		m.Order = c19Shuffle(r, m.Order)
	}
	return m
}

func c19DefaultOrder(m *c19Matrix) []int {
	var o []int
	for i := range m.Rows {
		o = append(o, i)
	}
	if m.IncExpr != "" || len(m.Inc) > 0 {
		o = append(o, c19SecInclude)
	}
	if m.ExcExpr != "" || len(m.Exc) > 0 {
		o = append(o, c19SecExclude)
	}
	return o
}

func c19Shuffle(r *Rand, xs []int) []int {
	p := r.Perm(len(xs))
	out := make([]int, len(xs))
	for i, j := range p {
		out[i] = xs[j]
	}
	return out
}

// ---------------------------------------------------------------------------
// permutations

// c19PermDims says which orders a permutation changes.
type c19PermDims struct {
	Values, RowKeys, Members, Entries bool
	Reverse                           bool // reverse instead of shuffle
}

func (d c19PermDims) String() string {
	var s []string
	if d.Values {
		s = append(s, "values-in-row")
	}
	if d.RowKeys {
		s = append(s, "row-keys")
	}
	if d.Members {
		s = append(s, "mapping-members")
	}
	if d.Entries {
		s = append(s, "include/exclude-entries-and-their-keys")
	}
	if d.Reverse {
		s = append(s, "(reversed)")
	}
	return strings.Join(s, "+")
}

func c19Order(r *Rand, n int, on, reverse bool) []int {
	p := make([]int, n)
	for i := range p {
		p[i] = i
	}
	if !on {
		return p
	}
	if reverse {
		for i := range p {
			p[i] = n - 1 - i
		}
		return p
	}
	return r.Perm(n)
}

func c19ReverseMembers(v *c19Val) *c19Val {
	n := &c19Val{Kind: v.Kind, Text: v.Text, Str: v.Str, Expr: v.Expr}
	for _, e := range v.Elems {
		n.Elems = append(n.Elems, c19ReverseMembers(e))
	}
	for i := len(v.Keys) - 1; i >= 0; i-- {
		n.Keys = append(n.Keys, v.Keys[i])
		n.Vals = append(n.Vals, c19ReverseMembers(v.Vals[i]))
	}
	return n
}

// c19Permute returns the same matrix written in another order. Sequence elements keep their order
// (sequences match element-wise); row / assign identities are kept.
func c19Permute(m *c19Matrix, r *Rand, d c19PermDims) *c19Matrix {
	cv := func(v *c19Val) *c19Val {
		if !d.Members {
			return c19Clone(v, nil, false, nil)
		}
		if d.Reverse {
			return c19ReverseMembers(v)
		}
		return c19Clone(v, r, false, nil)
	}
	n := &c19Matrix{Whole: m.Whole, IncExpr: m.IncExpr, ExcExpr: m.ExcExpr}
	for _, row := range m.Rows {
		nr := &c19Row{ID: row.ID, Key: row.Key, Expr: row.Expr}
		for _, i := range c19Order(r, len(row.Vals), d.Values, d.Reverse) {
			nr.Vals = append(nr.Vals, cv(row.Vals[i]))
		}
		n.Rows = append(n.Rows, nr)
	}
	ents := func(es []*c19Entry) []*c19Entry {
		var out []*c19Entry
		for _, i := range c19Order(r, len(es), d.Entries, d.Reverse) {
			e := es[i]
			ne := &c19Entry{Expr: e.Expr}
			for _, j := range c19Order(r, len(e.Assigns), d.Entries, d.Reverse) {
				a := e.Assigns[j]
				ne.Assigns = append(ne.Assigns, &c19Assign{Key: a.Key, Val: cv(a.Val), ID: a.ID, Class: a.Class})
			}
			out = append(out, ne)
		}
		return out
	}
	n.Inc = ents(m.Inc)
	n.Exc = ents(m.Exc)
	for _, i := range c19Order(r, len(m.Order), d.RowKeys, d.Reverse) {
		n.Order = append(n.Order, m.Order[i])
	}
	return n
}

// ---------------------------------------------------------------------------
// rendering

type c19RowRef struct{ Row, Idx int }

type c19Layout struct {
	Src     string
	RowVals map[Pos]c19RowRef // position of a row value -> (row id, written index)
	RowKey  map[int]string    // row id -> key as written
	ExcKey  map[Pos]int       // position of an exclude key -> assign id
	ExcVal  map[Pos]int       // position of an exclude value -> assign id
}

func c19Spaces(n int) string { return strings.Repeat(" ", n) }

func c19ExprText(t string, r *Rand, flow bool) string {
	k := r.Intn(3)
	if flow && k == 0 {
		k = 1
	}
	switch k {
	case 0:
		return t
	case 1:
		return `"` + t + `"`
	}
	return "'" + t + "'"
}

func c19Flow(b *YB, v *c19Val, r *Rand) {
	switch v.Kind {
	case c19Scalar:
		if v.Expr {
			b.W(c19ExprText(v.Text, r, true))
		} else {
			b.W(v.Text)
		}
	case c19Seq:
		b.W("[")
		for i, e := range v.Elems {
			if i > 0 {
				b.W(", ")
			}
			c19Flow(b, e, r)
		}
		b.W("]")
	case c19Map:
		b.W("{")
		for i, k := range v.Keys {
			if i > 0 {
				b.W(", ")
			}
			b.W(k + ": ")
			c19Flow(b, v.Vals[i], r)
		}
		b.W("}")
	}
}

// c19Top writes a value that starts at the cursor in block context; continuation lines are
// indented by indent.
func c19Top(b *YB, v *c19Val, indent int, r *Rand) {
	switch {
	case v.Kind == c19Scalar && v.Expr:
		b.W(c19ExprText(v.Text, r, false))
	case v.Kind == c19Map && len(v.Keys) > 0 && r.Chance(2, 5):
		for i, k := range v.Keys {
			if i > 0 {
				b.W("\n" + c19Spaces(indent))
			}
			b.W(k + ": ")
			c19Flow(b, v.Vals[i], r)
		}
	case v.Kind == c19Seq && len(v.Elems) > 0 && r.Chance(2, 5):
		for i, e := range v.Elems {
			if i > 0 {
				b.W("\n" + c19Spaces(indent))
			}
			b.W("- ")
			c19Flow(b, e, r)
		}
	default:
		c19Flow(b, v, r)
	}
}

func c19Render(m *c19Matrix, r *Rand) *c19Layout {
	ly := &c19Layout{RowVals: map[Pos]c19RowRef{}, RowKey: map[int]string{}, ExcKey: map[Pos]int{}, ExcVal: map[Pos]int{}}
	b := NewYB()
	b.L(0, "on: push")
	b.L(0, "jobs:")
	b.L(2, "build:")
	b.L(4, "runs-on: ubuntu-latest")
	b.L(4, "strategy:")
	if m.Whole != "" {
		b.L(6, "matrix: "+c19ExprText(m.Whole, r, false))
	} else {
		b.L(6, "matrix:")
		for _, s := range m.Order {
			switch s {
			case c19SecInclude:
				c19RenderEntries(b, ly, "include", m.IncExpr, m.Inc, false, r)
			case c19SecExclude:
				c19RenderEntries(b, ly, "exclude", m.ExcExpr, m.Exc, true, r)
			default:
				c19RenderRow(b, ly, m.Rows[s], r)
			}
		}
	}
	b.L(4, "steps:")
	b.L(6, "- run: echo")
	ly.Src = b.String()
	return ly
}

func c19RenderRow(b *YB, ly *c19Layout, row *c19Row, r *Rand) {
	ly.RowKey[row.ID] = row.Key
	if row.Expr != "" {
		b.L(8, row.Key+": "+c19ExprText(row.Expr, r, false))
		return
	}
	if r.Chance(1, 3) {
		b.W(c19Spaces(8) + row.Key + ": [")
		for i, v := range row.Vals {
			if i > 0 {
				b.W(", ")
			}
			ly.RowVals[b.Pos()] = c19RowRef{row.ID, i}
			c19Flow(b, v, r)
		}
		b.W("]\n")
		return
	}
	b.L(8, row.Key+":")
	for i, v := range row.Vals {
		b.W(c19Spaces(10) + "- ")
		ly.RowVals[b.Pos()] = c19RowRef{row.ID, i}
		c19Top(b, v, 12, r)
		b.W("\n")
	}
}

func c19RenderEntries(b *YB, ly *c19Layout, name, whole string, es []*c19Entry, isExc bool, r *Rand) {
	if whole != "" {
		b.L(8, name+": "+c19ExprText(whole, r, false))
		return
	}
	b.L(8, name+":")
	for _, e := range es {
		b.W(c19Spaces(10) + "- ")
		if e.Expr != "" {
			b.W(c19ExprText(e.Expr, r, false) + "\n")
			continue
		}
		flow := r.Chance(1, 3)
		if flow {
			b.W("{")
		}
		for i, a := range e.Assigns {
			if i > 0 {
				if flow {
					b.W(", ")
				} else {
					b.W("\n" + c19Spaces(12))
				}
			}
			kp := b.W(a.Key)
			b.W(": ")
			vp := b.Pos()
			if !flow && a.Val.Kind == c19Scalar && a.Val.Expr {
				b.W(c19ExprText(a.Val.Text, r, false))
			} else {
				c19Flow(b, a.Val, r)
			}
			if isExc {
				ly.ExcKey[kp] = a.ID
				ly.ExcVal[vp] = a.ID
			}
		}
		if flow {
			b.W("}")
		}
		b.W("\n")
	}
}
