package main

// C11, scalars with several placeholders: 2-4 ${{ }} placeholders in one script / non-script
// scalar, each trusted or untrusted independently, separated by nothing, one character, text or a
// line break. In the reference model the reports of the placeholders are independent: a script
// scalar must report the union, a non-script scalar nothing.
//
// Known (pinned by the project's own test data, testdata/err/context_availability) behaviour that
// contradicts this: the expression rule stops scanning a scalar at the first placeholder that
// produced any diagnostic. It gets exactly one signature, c11LaterAfterReportedSig, which is used
// only when an earlier placeholder of the same scalar demonstrably got a diagnostic.

import (
	"fmt"
	"strings"
)

const c11LaterAfterReportedSig = "C11:missed:later-placeholder-after-reported-placeholder"

var c11SepClasses = []string{"adjacent", "one-char", "text", "line-break"}

func c11DrawSep(r *Rand, class string) string {
	switch class {
	case "adjacent":
		return ""
	case "one-char":
		return r.Pick([]string{" ", "-", "/", "}", "{", "$", "'", ".", "_"})
	case "text":
		return r.Pick([]string{" and ", " - ", "' '", "}} {{", " $X ", "abc", "; echo "})
	}
	return r.Pick([]string{"\n", "\necho ", " \\\n  ", "\n\n"})
}

type c11MultiPh struct {
	E    *c11E    `json:"-"`
	Txt  string   `json:"expr"`
	Role string   `json:"role"` // untrusted | trusted | sanitised | erroneous
	Reps []string `json:"reference_reports"`
	Sep  string   `json:"separator_class_before,omitempty"`
}

// c11MultiWorkflow renders the scalar text at 2 script and 5 non-script positions.
func c11MultiWorkflow(r *Rand, text string) (string, []c11Position) {
	b := NewYB()
	var ps []c11Position
	at := func(name string, script bool, indent int, key string) {
		style := c11StyleFor(text, c11Styles[r.Intn(len(c11Styles))])
		l0, l1 := c11WriteScalar(b, indent, key, text, style)
		ps = append(ps, c11Position{Name: name, Script: script, Line: l0, EndLine: l1, Ctx: &c11Ctx{Template: "(several placeholders)", Style: style}})
	}
	b.L(0, "on: push")
	b.L(0, "jobs:")
	b.L(2, "j:")
	b.L(4, "runs-on: ubuntu-latest")
	b.L(4, "strategy:")
	b.L(6, "matrix:")
	b.L(8, "n: [0, 1]")
	b.L(4, "steps:")
	at("run", true, 6, "- run")
	b.L(8, "env:")
	at("env-run-step", false, 10, "BAR")
	b.L(6, "- uses: actions/github-script@"+r.Pick([]string{"v7", "main", "v7.0.1"}))
	b.L(8, "with:")
	at("github-script.script", true, 10, r.Pick([]string{"script", "script", "Script"}))
	at("github-script.other-input", false, 10, r.Pick([]string{"github-token", "result-encoding"}))
	b.L(6, "- uses: actions/checkout@v4")
	at("step-name", false, 8, "name")
	b.L(8, "with:")
	at("with-other-action", false, 10, r.Pick([]string{"ref", "path"}))
	b.L(6, "- uses: some-org/other-action@v1")
	b.L(8, "with:")
	at("other-action.script", false, 10, "script")
	src := b.String()
	if r.Intn(6) == 0 {
		src = strings.ReplaceAll(src, "\n", "\r\n")
	}
	return src, ps
}

var c11MultiPositionNames = []string{"run", "github-script.script", "env-run-step", "github-script.other-input", "step-name", "with-other-action", "other-action.script"}

// c11GenMulti draws the placeholders of one scalar. sys steers the separator class in front of
// the (single) untrusted placeholder so that every class is met at every seed.
func c11GenMulti(r *Rand, t *c11Tree, sys int) []*c11MultiPh {
	g := c11NewGen(r, t)
	n := r.Range(2, 4)
	roles := make([]string, n)
	for i := range roles {
		roles[i] = "trusted"
	}
	focus := -1
	switch x := r.Intn(20); {
	case x < 9: // exactly one untrusted read, everything else clean
		focus = r.Intn(n)
		if sys%3 != 0 && n > 1 {
			focus = 1 + r.Intn(n-1)
		}
		roles[focus] = "untrusted"
	case x < 14: // several untrusted reads
		for i := range roles {
			if r.Bool() {
				roles[i] = "untrusted"
			}
		}
		roles[r.Intn(n)] = "untrusted"
	case x < 16: // first placeholder has an error of another kind
		roles[0] = "erroneous"
		roles[1+r.Intn(n-1)] = "untrusted"
	case x < 18: // a sanitised read among the others
		roles[r.Intn(n)] = "sanitised"
		if j := r.Intn(n); roles[j] == "trusted" {
			roles[j] = "untrusted"
		}
	}
	used := &c11E{}
	var phs []*c11MultiPh
	for i, role := range roles {
		var e *c11E
		switch role {
		case "untrusted":
			for try := 0; ; try++ {
				if r.Bool() {
					e = g.embed1(r.Intn(13), g.otherLeaf(used)) // the embeddings without a sanitising call
				} else {
					e = g.expr(r.Range(1, 3), 1+r.Intn(2))
				}
				dup := false
				for _, rep := range e.Reports() {
					for _, p := range strings.Split(rep, " + ") {
						if c11Reads(used, p) {
							dup = true
						}
					}
				}
				if len(e.Reports()) > 0 && !dup {
					break
				}
				if try > 20 {
					e = g.otherLeaf(used)
					break
				}
			}
			used.Chains = append(used.Chains, e.Chains...)
		case "sanitised":
			e = g.safe(r.Pick([]string{"contains", "startsWith", "endsWith"}), g.otherLeaf(used), g.strLit("x"))
		case "erroneous":
			e = &c11E{Txt: r.Pick([]string{"unknown.x", "github.nope", "format('{0}')", "github.event.issue.title.."})}
		default:
			e = g.expr(r.Range(0, 2), 0)
		}
		ph := &c11MultiPh{E: e, Txt: e.Txt, Role: role, Reps: e.Reports()}
		if len(ph.Reps) == 0 && role == "untrusted" {
			ph.Role = "trusted"
		}
		if i > 0 {
			ph.Sep = c11SepClasses[r.Intn(len(c11SepClasses))]
			if i == focus {
				ph.Sep = c11SepClasses[sys%len(c11SepClasses)]
			}
		}
		phs = append(phs, ph)
	}
	return phs
}

func c11MultiText(r *Rand, phs []*c11MultiPh) string {
	var sb strings.Builder
	sb.WriteString(r.Pick([]string{"echo ", "", "x=", "echo '", "echo "}))
	for i, ph := range phs {
		if i > 0 {
			sb.WriteString(c11DrawSep(r, ph.Sep))
		}
		if r.Intn(4) == 0 {
			sb.WriteString("${{" + ph.Txt + "}}")
		} else {
			sb.WriteString("${{ " + ph.Txt + " }}")
		}
	}
	sb.WriteString(r.Pick([]string{"", "'", " | cat", "", "."}))
	return sb.String()
}

func c11EvalMulti(c *Case, t *c11Tree, sys int, sample bool) {
	phs := c11GenMulti(c.R, t, sys)
	phs[0].Sep = ""
	text := c11MultiText(c.R, phs)
	src, ps := c11MultiWorkflow(c.R, text)
	ds, err := lintSrc(src)
	c.Eval(1)
	var union []string
	for _, ph := range phs {
		union = append(union, ph.Reps...)
	}
	union = c11Uniq(union)
	errFirst := phs[0].Role == "erroneous"
	var o *c11Observed
	detail := func() map[string]interface{} {
		d := map[string]interface{}{"scalar_text": text, "placeholders": phs, "src": src, "expected_reports_at_script_positions": union, "positions": ps, "diags": diagStrings(ds)}
		if o != nil {
			d["observed_reports"] = o.reports
		}
		return d
	}
	if err != nil {
		c.Violation("C11:fatal-error", "linting returned a fatal error: "+err.Error(), detail())
		return
	}
	o = c11Observe(ds, ps)
	c.Logf("scalar: %q\nexpected at script positions: %q\nobserved: %v\nother diagnostics: %q", text, union, o.reports, o.other)
	if len(o.unparsed) > 0 {
		c.Violation("C11:unparsable-message", "an untrusted-input diagnostic has neither of the two documented forms: "+o.unparsed[0], detail())
		return
	}
	if len(o.stray) > 0 {
		c.Violation("C11:report-outside-any-position", "an untrusted-input diagnostic is located on a line that holds no expression: "+o.stray[0], detail())
		return
	}
	if len(o.other[""]) > 0 {
		c.Count("not_evaluated:multi", 1)
		return
	}
	if !errFirst {
		for _, p := range ps {
			if len(o.other[p.Name]) > 0 {
				c.Count("not_evaluated:multi", 1)
				c.Count("other_diag:multi:"+c11MsgClass(o.other[p.Name][0]), 1)
				return
			}
		}
	}
	c.Count("evaluated:multi", 1)
	c.Count(fmt.Sprintf("multi_placeholders_per_scalar:%d", len(phs)), 1)
	if len(union) > 0 {
		c.Nontrivial("multi|" + text)
	} else {
		c.Count("multi_scalars_without_untrusted_read", 1)
	}
	posClass := func(i int) string {
		switch i {
		case 0:
			return "first"
		case len(phs) - 1:
			return "last"
		}
		return "middle"
	}
	allOK := true
	for _, p := range ps {
		foreign := len(o.other[p.Name]) > 0
		if errFirst && !foreign {
			// the error of the first placeholder was not reported here: outside this property
			c.Count("erroneous_first_placeholder_without_diagnostic", 1)
			continue
		}
		c.SetAdd("multi_positions_evaluated", p.Name)
		got := o.reports[p.Name]
		var want []string
		if p.Script {
			want = union
		}
		in := func(set []string, x string) bool {
			for _, y := range set {
				if y == x {
					return true
				}
			}
			return false
		}
		diagnosed := func(j int) bool { // did placeholder j demonstrably get a diagnostic here?
			if j == 0 && errFirst {
				return foreign
			}
			for _, rep := range phs[j].Reps {
				if in(got, rep) {
					return true
				}
			}
			return false
		}
		if spur := c11Diff(got, want); len(spur) > 0 {
			allOK = false
			if !p.Script {
				c.Violation("C11:reported-outside-script-position:"+p.Name, fmt.Sprintf("scalar %q with several placeholders reported as untrusted at non-script position %s: %q", text, p.Name, spur), detail())
			} else {
				c.Violation("C11:spurious:"+p.Name+":several-placeholders", fmt.Sprintf("scalar %q at %s: reported %q, expected %q", text, p.Name, got, want), detail())
			}
			continue
		}
		miss := c11Diff(want, got)
		for _, rep := range miss {
			allOK = false
			owner := -1
			for i, ph := range phs {
				if in(ph.Reps, rep) {
					owner = i
					break
				}
			}
			after := -1
			for j := 0; j < owner; j++ {
				if diagnosed(j) {
					after = j
					break
				}
			}
			switch {
			case after >= 0:
				c.Count("multi_later_placeholder_after_reported_placeholder", 1)
				d := detail()
				d["missing"] = rep
				d["earlier_placeholder_with_diagnostic"] = phs[after].Txt
				c.Violation(c11LaterAfterReportedSig, fmt.Sprintf("scalar %q at %s: placeholder %d reads %q but only the diagnostic of the earlier placeholder %d (%s) is reported; checking of a scalar stops at the first placeholder with a diagnostic", text, p.Name, owner+1, rep, after+1, phs[after].Txt), d)
			case owner == 0:
				c.Violation("C11:missed:"+p.Name+":first-placeholder-of-several", fmt.Sprintf("scalar %q at %s: the first placeholder reads %q, not reported (reported: %q)", text, p.Name, rep, got), detail())
			default:
				c.Violation("C11:missed:"+p.Name+":later-placeholder-after-clean-placeholder:"+phs[owner].Sep, fmt.Sprintf("scalar %q at %s: placeholder %d (separator before it: %s) reads %q and no earlier placeholder got a diagnostic, but it is not reported (reported: %q)", text, p.Name, owner+1, phs[owner].Sep, rep, got), detail())
			}
		}
		if len(miss) == 0 {
			for i, ph := range phs {
				if len(ph.Reps) == 0 {
					continue
				}
				if p.Script {
					cls := posClass(i)
					if i > 0 {
						cls = ph.Sep + "/" + cls
					}
					c.SetAdd("multi_reported:"+p.Name, cls)
				} else {
					c.SetAdd("multi_unreported_non_script", p.Name)
				}
			}
		}
	}
	if sample && allOK && len(union) > 0 {
		c.Sample(map[string]interface{}{"family": c.Fam, "scalar_text": text, "expected_reports": union, "observed_run": o.reports["run"], "observed_script": o.reports["github-script.script"], "non_script_positions_reported": 0})
	}
}

// c11MultiFloors: coverage floors of the several-placeholders dimension.
func c11MultiFloors(r *Run) {
	ev, ne := r.Counter("evaluated:multi"), r.Counter("not_evaluated:multi")
	if ev+ne == 0 || ev*100 < 80*(ev+ne) {
		r.Inconclusive(fmt.Sprintf("several-placeholders: only %d of %d scalars could be evaluated", ev, ev+ne))
	}
	for _, pos := range []string{"run", "github-script.script"} {
		if !r.SetHas("multi_reported:"+pos, "first") {
			r.Inconclusive("several placeholders: untrusted read in the first placeholder never seen correctly reported at " + pos)
		}
		for _, sep := range c11SepClasses {
			for _, pc := range []string{"middle", "last"} {
				if !r.SetHas("multi_reported:"+pos, sep+"/"+pc) {
					r.Inconclusive(fmt.Sprintf("several placeholders: untrusted read in a %s placeholder after separator class %s never seen correctly reported at %s", pc, sep, pos))
				}
			}
		}
	}
	for _, p := range c11MultiPositionNames {
		if !r.SetHas("multi_positions_evaluated", p) {
			r.Inconclusive("several placeholders: position never evaluated: " + p)
		}
	}
	for _, p := range c11MultiPositionNames[2:] {
		if !r.SetHas("multi_unreported_non_script", p) {
			r.Inconclusive("several placeholders: no untrusted read evaluated at non-script position " + p)
		}
	}
	if r.Counter("multi_scalars_without_untrusted_read") == 0 {
		r.Inconclusive("several placeholders: no scalar without an untrusted read")
	}
}
