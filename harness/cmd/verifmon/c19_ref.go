package main

// C19 reference model: abstract matrix values and the relations the statement names.
//
//   * c19RefEqual    - deep structural equality (symmetric): scalars by their decoded text,
//                      sequences element-wise with equal length, mappings as key sets compared
//                      case-insensitively (actionlint lower-cases every mapping key below
//                      "matrix:", see parse.go parseMapping(..., caseSensitive=false)).
//   * c19RefContains - "candidate contains filter": mappings by subset, sequences element-wise
//                      (same length, element i contains element i), scalars by equality. A scalar
//                      built from ${{ }} on either side is unknown and therefore never a proven
//                      mismatch.
//
// Written without looking at the shape of RawYAML*.Equals / isYAMLValueSubset: equality is decided on
// a canonical rendering of both sides, containment by a lookup table per mapping.

import (
	"sort"
	"strings"
)

const (
	c19Scalar = iota
	c19Seq
	c19Map
)

// c19Val is one abstract YAML value below "matrix:".
type c19Val struct {
	Kind  int
	Text  string    // scalar: spelling in the workflow (flow safe); for expressions the bare ${{ }} text
	Str   string    // scalar: decoded text
	Expr  bool      // scalar: contains ${{ }}
	Elems []*c19Val // sequence elements
	Keys  []string  // mapping keys as written
	Vals  []*c19Val // mapping values, parallel to Keys
}

// c19Canon renders a value canonically: mapping members sorted by folded key.
func c19Canon(v *c19Val) string {
	var sb strings.Builder
	c19CanonTo(&sb, v)
	return sb.String()
}

func c19CanonTo(sb *strings.Builder, v *c19Val) {
	switch v.Kind {
	case c19Scalar:
		sb.WriteString("s(")
		sb.WriteString(strings.ReplaceAll(strings.ReplaceAll(v.Str, `\`, `\\`), `)`, `\)`))
		sb.WriteString(")")
	case c19Seq:
		sb.WriteString("[")
		for _, e := range v.Elems {
			c19CanonTo(sb, e)
			sb.WriteString(";")
		}
		sb.WriteString("]")
	case c19Map:
		type kv struct {
			k string
			v *c19Val
		}
		ms := make([]kv, len(v.Keys))
		for i, k := range v.Keys {
			ms[i] = kv{strings.ToLower(k), v.Vals[i]}
		}
		sort.Slice(ms, func(i, j int) bool { return ms[i].k < ms[j].k })
		sb.WriteString("{")
		for _, m := range ms {
			sb.WriteString(m.k)
			sb.WriteString("=")
			c19CanonTo(sb, m.v)
			sb.WriteString(";")
		}
		sb.WriteString("}")
	}
}

func c19RefEqual(a, b *c19Val) bool { return c19Canon(a) == c19Canon(b) }

// c19RefContains decides whether candidate value cand contains the exclude filter value filt.
func c19RefContains(cand, filt *c19Val) bool {
	if filt.Kind == c19Scalar && filt.Expr {
		return true
	}
	if cand.Kind == c19Scalar && cand.Expr {
		return true
	}
	if cand.Kind != filt.Kind {
		return false
	}
	switch cand.Kind {
	case c19Scalar:
		return cand.Str == filt.Str
	case c19Seq:
		if len(cand.Elems) != len(filt.Elems) {
			return false
		}
		for i := range cand.Elems {
			if !c19RefContains(cand.Elems[i], filt.Elems[i]) {
				return false
			}
		}
		return true
	default:
		have := map[string]*c19Val{}
		for i, k := range cand.Keys {
			have[strings.ToLower(k)] = cand.Vals[i]
		}
		for i, k := range filt.Keys {
			cv, ok := have[strings.ToLower(k)]
			if !ok || !c19RefContains(cv, filt.Vals[i]) {
				return false
			}
		}
		return true
	}
}

func c19HasExpr(v *c19Val) bool {
	switch v.Kind {
	case c19Scalar:
		return v.Expr
	case c19Seq:
		for _, e := range v.Elems {
			if c19HasExpr(e) {
				return true
			}
		}
	case c19Map:
		for _, e := range v.Vals {
			if c19HasExpr(e) {
				return true
			}
		}
	}
	return false
}

func c19Depth(v *c19Val) int {
	d := 0
	switch v.Kind {
	case c19Seq:
		for _, e := range v.Elems {
			if x := c19Depth(e); x > d {
				d = x
			}
		}
		return d + 1
	case c19Map:
		for _, e := range v.Vals {
			if x := c19Depth(e); x > d {
				d = x
			}
		}
		return d + 1
	}
	return 0
}

// c19Extends is used ONLY to name the class of a witness (never to decide a verdict): small is
// "one-sidedly equal" to big - every member of every mapping of small is present in big - but the two
// are not structurally equal, i.e. big is small plus extra mapping members at some depth.
func c19Extends(small, big *c19Val) bool {
	return c19OneSided(small, big) && !c19RefEqual(small, big)
}

func c19OneSided(a, b *c19Val) bool {
	if a.Kind != b.Kind {
		return false
	}
	switch a.Kind {
	case c19Scalar:
		return a.Str == b.Str
	case c19Seq:
		if len(a.Elems) != len(b.Elems) {
			return false
		}
		for i := range a.Elems {
			if !c19OneSided(a.Elems[i], b.Elems[i]) {
				return false
			}
		}
		return true
	default:
		for i, k := range a.Keys {
			found := false
			for j, k2 := range b.Keys {
				if strings.EqualFold(k, k2) {
					found = c19OneSided(a.Vals[i], b.Vals[j])
					break
				}
			}
			if !found {
				return false
			}
		}
		return true
	}
}

// ---------------------------------------------------------------------------
// abstract matrix

type c19Assign struct {
	Key   string
	Val   *c19Val
	ID    int    // identity across permutations (exclude assigns only)
	Class string // how the generator derived the value (coverage only)
}

type c19Entry struct {
	Expr    string // "- ${{ ... }}" element
	Assigns []*c19Assign
}

type c19Row struct {
	ID   int
	Key  string
	Expr string // "key: ${{ ... }}"
	Vals []*c19Val
}

const (
	c19SecInclude = -1
	c19SecExclude = -2
)

type c19Matrix struct {
	Whole   string // "matrix: ${{ ... }}"
	Rows    []*c19Row
	IncExpr string
	Inc     []*c19Entry
	ExcExpr string
	Exc     []*c19Entry
	Order   []int // written order of the sections: index into Rows, c19SecInclude, c19SecExclude
}

// verdict of one exclude assignment
const (
	c19None     = 0 // not reported
	c19Unknown  = 1 // key reported as not existing in the matrix
	c19NoMatch  = 2 // value reported as matching no candidate
	c19DontCare = 3 // statement silent (reference only)
)

func c19VerdictName(v int) string {
	return [...]string{"not reported", "unknown key", "value matches nothing", "unspecified"}[v]
}

type c19Expect struct {
	Dup      map[int][]bool // row id -> per written value: structurally equal to an earlier one
	DupCount map[int]int    // row id -> n - #distinct
	Exc      map[int]int    // assign id -> verdict
	// coverage / classification
	ExcHitOnlyByInclude map[int]bool // a hit owed to an include value only
}

func (m *c19Matrix) includeHasExpr() bool {
	if m.IncExpr != "" {
		return true
	}
	for _, e := range m.Inc {
		if e.Expr != "" {
			return true
		}
	}
	return false
}

// candidates returns the row (nil if none) and every candidate value of the folded key, row values
// first, then include assignments in written order. fromInc[i] tells whether candidate i stems from include.
func (m *c19Matrix) candidates(key string) (row *c19Row, cands []*c19Val, fromInc []bool, defined bool) {
	for _, r := range m.Rows {
		if strings.EqualFold(r.Key, key) {
			row = r
			defined = true
			for _, v := range r.Vals {
				cands = append(cands, v)
				fromInc = append(fromInc, false)
			}
		}
	}
	for _, e := range m.Inc {
		for _, a := range e.Assigns {
			if strings.EqualFold(a.Key, key) {
				defined = true
				cands = append(cands, a.Val)
				fromInc = append(fromInc, true)
			}
		}
	}
	return
}

// c19Reference computes what the statement demands for matrix m.
func c19Reference(m *c19Matrix) *c19Expect {
	x := &c19Expect{Dup: map[int][]bool{}, DupCount: map[int]int{}, Exc: map[int]int{}, ExcHitOnlyByInclude: map[int]bool{}}
	if m.Whole != "" {
		return x
	}
	for _, r := range m.Rows {
		if r.Expr != "" {
			continue
		}
		seen := map[string]bool{}
		flags := make([]bool, len(r.Vals))
		n := 0
		for i, v := range r.Vals {
			k := c19Canon(v)
			if seen[k] {
				flags[i] = true
				n++
			}
			seen[k] = true
		}
		x.Dup[r.ID] = flags
		x.DupCount[r.ID] = n
	}
	if m.ExcExpr != "" {
		return x
	}
	incExpr := m.includeHasExpr()
	for _, e := range m.Exc {
		if e.Expr != "" {
			continue
		}
		for _, a := range e.Assigns {
			if incExpr {
				// an include element (or the whole include section) given by an expression may define
				// any key and any value: nothing about exclude can be proved
				x.Exc[a.ID] = c19None
				continue
			}
			row, cands, fromInc, defined := m.candidates(a.Key)
			if row != nil && row.Expr != "" {
				x.Exc[a.ID] = c19None // row built from an expression
				continue
			}
			if !defined {
				if c19HasExpr(a.Val) {
					x.Exc[a.ID] = c19DontCare // unknown key, but the entry is built from an expression
				} else {
					x.Exc[a.ID] = c19Unknown
				}
				continue
			}
			hit, hitRow := false, false
			for i, cv := range cands {
				if c19RefContains(cv, a.Val) {
					hit = true
					if !fromInc[i] {
						hitRow = true
					}
				}
			}
			switch {
			case hit:
				x.Exc[a.ID] = c19None
				x.ExcHitOnlyByInclude[a.ID] = !hitRow
			case c19HasExpr(a.Val):
				// the filter is partly an expression and its static part matches nothing: "entries
				// built from expressions are never reported" and "reported iff no candidate contains
				// it" pull in different directions - not compared
				x.Exc[a.ID] = c19DontCare
			default:
				x.Exc[a.ID] = c19NoMatch
			}
		}
	}
	return x
}
