package main

// C17 reference validator: three-valued (accept / reject / don't care), written from the property
// statement, GitHub's filter-pattern cheat sheet and `man git-check-ref-format`, not from glob.go.
//
// Filter-pattern syntax (both kinds):
//   - the pattern is not empty and contains no line break;
//   - an optional leading `!` negates and must be followed by at least one character;
//   - `*` / `**` are wildcards; `?` and `+` quantify the preceding element, which must be a
//     non-special one: a literal character, an escaped character or a `[...]` set;
//   - `[...]` is a non-empty set of characters and `x-y` ranges with x <= y, closed by `]`;
//   - `\` followed by one of `* ? + [ ! \` is that literal character; any other `\` is a literal
//     backslash (file names may contain it).
// Git ref-name character rules (branch / tag filters only), applied to the literal characters of the
// pattern outside sets: no space, `~`, `^`, `:`, ASCII control character or DEL, no backslash, no
// literal `[`, `?`, `*`; the name does not begin with `/` and does not end with `/` or `.`.
//
// Where the statement says nothing the verdict is "don't care" (see the Assume lines in c17.go).
// A construct whose extent is ambiguous (`\` or `[` inside a set) makes the whole verdict don't-care
// unless a definite violation stands to its left; constructs with an unambiguous extent only mark
// the pattern and scanning goes on, so that a definite violation elsewhere still yields "reject".

// Classes on which the coordinator ruled; true = the reference rejects, false = don't care.
const (
	c17StrictEscBackslash = false // ref filter `\\`: Git forbids the backslash, TestValidateGlobOK pins it as fine
	c17StrictNegSlash     = true  // ref filter `!/a`: the name begins with `/`
	c17StrictCtrl         = true  // ref filter with ASCII control characters other than TAB/CR/LF, or DEL
	c17StrictClassNL      = false // line break inside a [...] set
)

type c17Verdict int

const (
	c17Accept c17Verdict = iota
	c17Reject
	c17DontCare
)

func c17Escapable(r rune) bool {
	switch r {
	case '*', '?', '+', '[', '!', '\\':
		return true
	}
	return false
}

// c17RefForbidden: Git rule 4 (single characters that may not occur anywhere in a ref name).
// Result: 0 allowed, 1 forbidden (space, ~, ^, :, TAB), 2 other ASCII control character / DEL.
func c17RefForbidden(r rune) int {
	switch {
	case r == ' ' || r == '~' || r == '^' || r == ':' || r == '\t':
		return 1
	case r < 0x20 || r == 0x7f:
		return 2
	}
	return 0
}

// c17SequenceRule reports whether the raw text touches one of Git's multi-character rules, which
// are not "character rules" and on which the statement is silent.
func c17SequenceRule(p []rune, nameStart int) bool {
	name := p[nameStart:]
	n := len(name)
	if n == 1 && name[0] == '@' {
		return true
	}
	if n > 0 && name[0] == '.' {
		return true
	}
	for i := 0; i+1 < n; i++ {
		a, b := name[i], name[i+1]
		if (a == '.' && b == '.') || (a == '/' && b == '/') || (a == '/' && b == '.') || (a == '@' && b == '{') {
			return true
		}
	}
	const lock = ".lock"
	for i := 0; i+len(lock) <= n; i++ {
		if string(name[i:i+len(lock)]) == lock && (i+len(lock) == n || name[i+len(lock)] == '/') {
			return true
		}
	}
	return false
}

// c17Reference decides pattern p as branch/tag filter (isRef) or path filter. The string result is
// the reason class of a reject or the class of a don't-care.
func c17Reference(p []rune, isRef bool) (c17Verdict, string) {
	n := len(p)
	if n == 0 {
		return c17Reject, "empty"
	}
	mark := "" // first don't-care class with unambiguous extent
	note := func(s string) {
		if mark == "" {
			mark = s
		}
	}
	if !isRef && (p[0] == ' ' || p[n-1] == ' ') {
		note("path-edge-space")
	}
	i := 0
	if p[0] == '!' {
		if n == 1 {
			return c17Reject, "bang-alone"
		}
		i = 1
	}
	nameStart := i
	if isRef && c17SequenceRule(p, nameStart) {
		note("ref-sequence-rule")
	}
	quantifiable := false // the previous element is a non-special one
	var lastPlain rune    // the last element if it is an unescaped literal character, else 0
	for i < n {
		ch := p[i]
		switch ch {
		case '\n', '\r':
			return c17Reject, "line-break"
		case '*':
			quantifiable, lastPlain = false, 0
			i++
		case '?', '+':
			if !quantifiable {
				return c17Reject, "quantifier-after-special"
			}
			quantifiable, lastPlain = false, 0
			i++
		case '\\':
			if i+1 < n && c17Escapable(p[i+1]) {
				if isRef {
					switch p[i+1] {
					case '[', '?', '*':
						return c17Reject, "ref-escaped-forbidden-char"
					case '\\':
						if c17StrictEscBackslash {
							return c17Reject, "ref-escaped-backslash"
						}
						note("ref-escaped-backslash")
					}
				}
				quantifiable, lastPlain = true, 0
				i += 2
			} else {
				if isRef {
					return c17Reject, "ref-backslash"
				}
				quantifiable, lastPlain = true, 0
				i++
			}
		case '[':
			j := i + 1
			if j < n && p[j] == ']' {
				return c17Reject, "empty-class"
			}
			members := 0
			rangesTrusted := true
			closed := false
			for j < n {
				x := p[j]
				if x == ']' {
					closed = true
					break
				}
				if x == '\\' || x == '[' {
					return c17DontCare, "class-backslash-or-bracket"
				}
				if x == '-' {
					note("class-stray-dash")
					rangesTrusted = false
					members++
					j++
					continue
				}
				if x == '\n' || x == '\r' {
					if c17StrictClassNL {
						return c17Reject, "line-break-in-class"
					}
					note("class-line-break")
				}
				if isRef && c17RefForbidden(x) != 0 {
					note("ref-forbidden-char-in-class")
				}
				if j+1 < n && p[j+1] == '-' {
					if j+2 >= n {
						return c17Reject, "class-unclosed"
					}
					y := p[j+2]
					switch {
					case y == ']':
						note("class-stray-dash") // `[a-]`
						members += 2
						j += 2
					case y == '\\' || y == '[':
						return c17DontCare, "class-backslash-or-bracket"
					case y == '-':
						note("class-stray-dash")
						rangesTrusted = false
						members += 2
						j += 3
					default:
						if y == '\n' || y == '\r' {
							if c17StrictClassNL {
								return c17Reject, "line-break-in-class"
							}
							note("class-line-break")
						}
						if isRef && c17RefForbidden(y) != 0 {
							note("ref-forbidden-char-in-class")
						}
						if rangesTrusted && x > y {
							return c17Reject, "range-reversed"
						}
						members += 2
						j += 3
					}
					continue
				}
				members++
				j++
			}
			if !closed {
				return c17Reject, "class-unclosed"
			}
			if members == 1 {
				note("single-char-class")
			}
			quantifiable, lastPlain = true, 0
			i = j + 1
		default:
			if isRef {
				switch c17RefForbidden(ch) {
				case 1:
					return c17Reject, "ref-forbidden-char"
				case 2:
					if c17StrictCtrl {
						return c17Reject, "ref-control-char"
					}
					note("ref-control-char")
				}
				if ch == '/' && i == nameStart {
					if nameStart == 0 {
						return c17Reject, "ref-leading-slash"
					}
					if c17StrictNegSlash {
						return c17Reject, "ref-leading-slash-after-negation"
					}
					note("ref-leading-slash-after-negation")
				}
			}
			quantifiable, lastPlain = true, ch
			i++
		}
	}
	if isRef && (lastPlain == '/' || lastPlain == '.') {
		return c17Reject, "ref-trailing-slash-or-dot"
	}
	if mark != "" {
		return c17DontCare, mark
	}
	return c17Accept, ""
}
