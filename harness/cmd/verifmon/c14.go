package main

// C14 — calls are checked exactly against the callee's declared interface.
//
// Reference-model monitor. The reference is c14Iface (c14_local.go): an interface as *written* by
// the generator (names, required, default, type, secrets, outputs) plus the rules of the statement:
//   * an input / secret is reported iff the callee does not declare it (names compare ignoring case)
//   * a declared input is reported as missing iff `required: true`, no default, not supplied
//   * a declared secret is reported as missing iff `required: true`, not supplied, no `secrets: inherit`
//   * steps.<id>.outputs.<n> / needs.<job>.outputs.<n> is reported iff <n> is not declared
//     (unless the callee sets outputs dynamically)
//   * a value whose type cannot be assigned to the declared reusable-workflow input type is reported
// The observable is the set of (what, lower-cased name, line) parsed from the diagnostics of the real
// Linter; it is compared with the set computed by the reference.
//
// This file: diagnostics -> findings, comparison, and the completely enumerated bundled data set.

import (
	"fmt"
	"regexp"
	"sort"
	"strings"

	"github.com/rhysd/actionlint"
)

func init() { registry["C14"] = runC14 }

// c14Finding is one interface verdict: what was reported, about which name, where.
type c14Finding struct {
	What string `json:"what"` // undef-input | missing-input | undef-secret | missing-secret | undef-output | type
	Name string `json:"name"` // lower case
	Line int    `json:"line"`
}

func (f c14Finding) String() string { return fmt.Sprintf("%s(%s)@%d", f.What, f.Name, f.Line) }

const (
	c14UndefInput    = "undef-input"
	c14MissingInput  = "missing-input"
	c14UndefSecret   = "undef-secret"
	c14MissingSecret = "missing-secret"
	c14UndefOutput   = "undef-output"
	c14Type          = "type"
)

var (
	c14ReUndefInputAct   = regexp.MustCompile(`^input "([^"]*)" is not defined in action .*\. available inputs are .*$`)
	c14ReMissingInputAct = regexp.MustCompile(`^missing input "([^"]*)" which is required by action .*\. all required inputs are .*$`)
	c14ReUndefInputWf    = regexp.MustCompile(`^input "([^"]*)" is not defined in "[^"]*" reusable workflow\. .*$`)
	c14ReMissingInputWf  = regexp.MustCompile(`^input "([^"]*)" is required by "[^"]*" reusable workflow$`)
	c14ReUndefSecret     = regexp.MustCompile(`^secret "([^"]*)" is not defined in "[^"]*" reusable workflow\. .*$`)
	c14ReMissingSecret   = regexp.MustCompile(`^secret "([^"]*)" is required by "[^"]*" reusable workflow$`)
	c14ReType            = regexp.MustCompile(`^input "([^"]*)" is typed as (\w+) by reusable workflow "[^"]*"\. (.*) value cannot be assigned$`)
	c14ReProp            = regexp.MustCompile(`^property "([^"]*)" is not defined in object type \{.*\}$`)
	c14ReTooOld          = regexp.MustCompile(`^the runner of "([^"]*)" action is too old to run on GitHub Actions`)
	c14ReTemplate        = regexp.MustCompile(`^object, array, and null values should not be evaluated in template with \$\{\{ \}\}`)
)

// c14Parse turns diagnostics into findings. tolerateTemplate holds the lines on which the
// (unrelated, legitimate) "object, array, and null values should not be evaluated in template"
// diagnostic is expected because the generator passed such a value there. Everything that is not
// recognised is returned in rest.
func c14Parse(ds []Diag, tolerateTemplate map[int]bool) (got []c14Finding, tooOld []Diag, rest []Diag) {
	for _, d := range ds {
		m := d.Msg
		switch {
		case d.Kind == "action" && c14ReUndefInputAct.MatchString(m):
			got = append(got, c14Finding{c14UndefInput, strings.ToLower(c14ReUndefInputAct.FindStringSubmatch(m)[1]), d.Line})
		case d.Kind == "action" && c14ReMissingInputAct.MatchString(m):
			got = append(got, c14Finding{c14MissingInput, strings.ToLower(c14ReMissingInputAct.FindStringSubmatch(m)[1]), d.Line})
		case d.Kind == "action" && c14ReTooOld.MatchString(m):
			tooOld = append(tooOld, d)
		case d.Kind == "workflow-call" && c14ReUndefInputWf.MatchString(m):
			got = append(got, c14Finding{c14UndefInput, strings.ToLower(c14ReUndefInputWf.FindStringSubmatch(m)[1]), d.Line})
		case d.Kind == "workflow-call" && c14ReMissingInputWf.MatchString(m):
			got = append(got, c14Finding{c14MissingInput, strings.ToLower(c14ReMissingInputWf.FindStringSubmatch(m)[1]), d.Line})
		case d.Kind == "workflow-call" && c14ReUndefSecret.MatchString(m):
			got = append(got, c14Finding{c14UndefSecret, strings.ToLower(c14ReUndefSecret.FindStringSubmatch(m)[1]), d.Line})
		case d.Kind == "workflow-call" && c14ReMissingSecret.MatchString(m):
			got = append(got, c14Finding{c14MissingSecret, strings.ToLower(c14ReMissingSecret.FindStringSubmatch(m)[1]), d.Line})
		case d.Kind == "expression" && c14ReType.MatchString(m):
			got = append(got, c14Finding{c14Type, strings.ToLower(c14ReType.FindStringSubmatch(m)[1]), d.Line})
		case d.Kind == "expression" && c14ReProp.MatchString(m):
			got = append(got, c14Finding{c14UndefOutput, strings.ToLower(c14ReProp.FindStringSubmatch(m)[1]), d.Line})
		case d.Kind == "expression" && c14ReTemplate.MatchString(m) && tolerateTemplate[d.Line]:
			// legitimate and outside the statement
		default:
			rest = append(rest, d)
		}
	}
	return
}

func c14SortFindings(fs []c14Finding) {
	sort.Slice(fs, func(i, j int) bool {
		a, b := fs[i], fs[j]
		if a.Line != b.Line {
			return a.Line < b.Line
		}
		if a.What != b.What {
			return a.What < b.What
		}
		return a.Name < b.Name
	})
}

func c14FindingStrings(fs []c14Finding) []string {
	out := make([]string, len(fs))
	for i, f := range fs {
		out[i] = f.String()
	}
	return out
}

// c14Diff returns the findings expected but not observed (missed) and observed but not expected
// (spurious), as multisets.
func c14Diff(want, got []c14Finding) (missed, spurious []c14Finding) {
	cnt := map[c14Finding]int{}
	for _, f := range want {
		cnt[f]++
	}
	for _, f := range got {
		if cnt[f] > 0 {
			cnt[f]--
		} else {
			spurious = append(spurious, f)
		}
	}
	for _, f := range want {
		if cnt[f] > 0 {
			cnt[f]--
			missed = append(missed, f)
		}
	}
	c14SortFindings(missed)
	c14SortFindings(spurious)
	return
}

// c14Classifier gives the narrow class of one disagreement (used in the signature).
type c14Classifier func(f c14Finding, missed bool) string

// c14Compare applies the oracle to one linted file and reports every disagreement. It returns true
// when observed == expected.
func c14Compare(c *Case, scope string, ds []Diag, want []c14Finding, ignoreTypeLines, tolerateTemplate map[int]bool, classify c14Classifier, detail func() map[string]interface{}) bool {
	got, tooOld, rest := c14Parse(ds, tolerateTemplate)
	if len(ignoreTypeLines) > 0 {
		kept := got[:0]
		for _, f := range got {
			if f.What == c14Type && ignoreTypeLines[f.Line] {
				c.Count("type_reports_outside_compared_domain", 1)
				continue
			}
			kept = append(kept, f)
		}
		got = kept
	}
	c14SortFindings(want)
	c14SortFindings(got)
	if c.Verbose {
		c.Logf("  [%s] expected: %v", scope, c14FindingStrings(want))
		c.Logf("  [%s] observed: %v", scope, c14FindingStrings(got))
		for _, d := range ds {
			c.Logf("      %s", d.String())
		}
	}
	mk := func(extra map[string]interface{}) map[string]interface{} {
		m := detail()
		m["scope"] = scope
		m["expected"] = c14FindingStrings(want)
		m["observed"] = c14FindingStrings(got)
		m["diags"] = diagStrings(ds)
		for k, v := range extra {
			m[k] = v
		}
		return m
	}
	ok := true
	for _, d := range tooOld {
		ok = false
		c.Violation("C14:"+scope+":unexpected-too-old-report", "an action that is not listed as outdated is reported as too old: "+d.String(), mk(nil))
	}
	for _, d := range rest {
		ok = false
		c.Violation("C14:"+scope+":unexpected-diagnostic:"+d.Kind+":"+c14MsgClass(d.Msg), "a generated call site of a well-formed callee produced a diagnostic outside the interface checks: "+d.String(), mk(nil))
	}
	missed, spurious := c14Diff(want, got)
	for _, f := range missed {
		ok = false
		c.Violation("C14:"+scope+":"+f.What+":not-reported:"+classify(f, true),
			fmt.Sprintf("the reference expects %s but it was not reported", f), mk(map[string]interface{}{"finding": f.String()}))
	}
	for _, f := range spurious {
		ok = false
		c.Violation("C14:"+scope+":"+f.What+":reported-wrongly:"+classify(f, false),
			fmt.Sprintf("%s was reported but the reference says the callee's interface allows it", f), mk(map[string]interface{}{"finding": f.String()}))
	}
	return ok
}

// c14MsgClass reduces a message to a short stable class: its first words without quoted parts.
func c14MsgClass(msg string) string {
	s := regexp.MustCompile(`"[^"]*"`).ReplaceAllString(msg, "_")
	w := strings.Fields(s)
	if len(w) > 6 {
		w = w[:6]
	}
	return sanitizeName(strings.Join(w, "-"))
}

var c14PlainKeyRe = regexp.MustCompile(`^[A-Za-z_][A-Za-z0-9_-]*$`)
var c14YAMLWords = map[string]bool{"true": true, "false": true, "null": true, "yes": true, "no": true, "on": true, "off": true, "y": true, "n": true, "~": true}

// c14Key renders a mapping key as a YAML scalar.
func c14Key(name string) string {
	if c14PlainKeyRe.MatchString(name) && !c14YAMLWords[strings.ToLower(name)] {
		return name
	}
	return "'" + strings.ReplaceAll(name, "'", "''") + "'"
}

// c14IsIdent: usable after a dot in an expression.
func c14IsIdent(name string) bool { return c14PlainKeyRe.MatchString(name) }

// ---------------------------------------------------------------------------
// bundled data set

const (
	c14UndeclaredInput  = "c14-undeclared-input"
	c14UndeclaredOutput = "c14_undeclared_output"
)

type c14BundledStep struct {
	with  [][2]string // name as written, value
	usesL int
	keyL  map[string]int // lower-case name -> line of its key
}

// c14BundledSrc renders a one-job workflow with one step using spec (id "act") followed by one
// step per output reference (a shaped expression in one of four contexts).
func c14BundledSrc(spec string, with [][2]string, refs []c14ShapedRef) (src string, st c14BundledStep, refLines []int) {
	b := NewYB()
	b.L(0, "on: push")
	b.L(0, "jobs:")
	b.L(2, "test:")
	b.L(4, "runs-on: ubuntu-latest")
	b.L(4, "steps:")
	b.W("      - ")
	st.usesL = b.W("uses: " + spec).Line
	b.W("\n")
	b.L(8, "id: act")
	st.keyL = map[string]int{}
	st.with = with
	if len(with) > 0 {
		b.L(8, "with:")
		for _, kv := range with {
			p := b.L(10, c14Key(kv[0])+": "+kv[1])
			st.keyL[strings.ToLower(kv[0])] = p.Line
		}
	}
	for _, r := range refs {
		refLines = append(refLines, c14EmitRef(b, r))
	}
	return b.String(), st, refLines
}

func c14SortedKeysIn(m actionlint.ActionMetadataInputs) []string {
	ks := make([]string, 0, len(m))
	for k := range m {
		ks = append(ks, k)
	}
	sort.Strings(ks)
	return ks
}

func c14SortedKeysOut(m actionlint.ActionMetadataOutputs) []string {
	ks := make([]string, 0, len(m))
	for k := range m {
		ks = append(ks, k)
	}
	sort.Strings(ks)
	return ks
}

// c14BundledEval lints one rendered workflow and compares.
func c14BundledEval(c *Case, spec, sub, src string, want []c14Finding, wantTooOld int, lineShape map[int]string) {
	ds, err := lintSrc(src)
	c.Eval(1)
	if err != nil {
		c.Violation("C14:bundled:fatal-error", "linting a step that uses a bundled action returned a fatal error: "+err.Error(), map[string]interface{}{"spec": spec, "sub": sub, "src": src})
		return
	}
	c.Logf("--- %s %s\n%s", spec, sub, src)
	scope := "bundled"
	if wantTooOld > 0 {
		scope = "outdated"
		// the only permitted diagnostic is the "too old" one, exactly once
		_, tooOld, _ := c14Parse(ds, nil)
		if len(tooOld) != wantTooOld {
			c.Violation("C14:outdated:too-old-report-count", fmt.Sprintf("outdated spec %q produced %d 'too old' diagnostics, expected %d", spec, len(tooOld), wantTooOld), map[string]interface{}{"spec": spec, "src": src, "diags": diagStrings(ds)})
			return
		}
		kept := ds[:0:0]
		for _, d := range ds {
			if !(d.Kind == "action" && c14ReTooOld.MatchString(d.Msg)) {
				kept = append(kept, d)
			}
		}
		ds = kept
		c.Count("outdated_specs_reported_too_old", 1)
	}
	classify := func(f c14Finding, missed bool) string {
		if sh, ok := lineShape[f.Line]; ok && f.What == c14UndefOutput {
			return sub + ":shape-" + sh
		}
		return sub
	}
	c14Compare(c, scope, ds, want, nil, nil, classify, func() map[string]interface{} {
		return map[string]interface{}{"spec": spec, "sub": sub, "src": src}
	})
	for _, f := range want {
		c.SetAdd("expected_kinds", scope+":"+f.What)
	}
	if len(want) > 0 {
		c.Nontrivial("bundled|" + spec + "|" + sub)
	}
}

func c14BundledCase(c *Case, spec string, meta *actionlint.ActionMetadata) {
	inKeys := c14SortedKeysIn(meta.Inputs)
	outKeys := c14SortedKeysOut(meta.Outputs)
	// consistency of the table itself: keys are the lower-cased names
	for _, k := range inKeys {
		if in := meta.Inputs[k]; in == nil || strings.ToLower(in.Name) != k {
			c.Violation("C14:bundled:table-key-not-lower-cased-name", fmt.Sprintf("PopularActions[%q].Inputs key %q does not equal the lower-cased input name", spec, k), map[string]interface{}{"spec": spec, "key": k})
			return
		}
	}
	for _, k := range outKeys {
		if o := meta.Outputs[k]; o == nil || strings.ToLower(o.Name) != k {
			c.Violation("C14:bundled:table-key-not-lower-cased-name", fmt.Sprintf("PopularActions[%q].Outputs key %q does not equal the lower-cased output name", spec, k), map[string]interface{}{"spec": spec, "key": k})
			return
		}
	}
	if _, both := actionlint.OutdatedPopularActionSpecs[spec]; both {
		c.Violation("C14:bundled:spec-both-known-and-outdated", fmt.Sprintf("%q is in PopularActions and in OutdatedPopularActionSpecs", spec), map[string]interface{}{"spec": spec})
		return
	}
	var required [][2]string
	for _, k := range inKeys {
		if meta.Inputs[k].Required {
			required = append(required, [2]string{meta.Inputs[k].Name, "x"})
		}
	}
	c.Count("bundled_required_inputs", len(required))
	c.Count("bundled_declared_inputs", len(inKeys))
	c.Count("bundled_declared_outputs", len(outKeys))
	if meta.SkipInputs {
		c.Count("bundled_skip_inputs_specs", 1)
	}
	dynamicOutputs := meta.SkipOutputs || strings.HasPrefix(spec, "actions/github-script@")
	if dynamicOutputs {
		c.Count("bundled_dynamic_outputs_specs", 1)
	}

	// (a) exactly the required inputs
	src, _, _ := c14BundledSrc(spec, required, nil)
	c14BundledEval(c, spec, "required-only", src, nil, 0, nil)
	if c.Idx == 0 {
		c.Sample(map[string]interface{}{"family": "bundled", "spec": spec, "sub": "required-only", "src": src})
	}

	// (b) each required input removed in turn
	for i := range required {
		var with [][2]string
		with = append(with, required[:i]...)
		with = append(with, required[i+1:]...)
		src, st, _ := c14BundledSrc(spec, with, nil)
		var want []c14Finding
		if !meta.SkipInputs {
			want = append(want, c14Finding{c14MissingInput, strings.ToLower(required[i][0]), st.usesL})
		}
		c14BundledEval(c, spec, "required-removed", src, want, 0, nil)
	}

	// (c) an undeclared input next to the required ones
	if _, declared := meta.Inputs[c14UndeclaredInput]; !declared {
		with := append(append([][2]string{}, required...), [2]string{c14UndeclaredInput, "x"})
		src, st, _ := c14BundledSrc(spec, with, nil)
		var want []c14Finding
		if !meta.SkipInputs {
			want = append(want, c14Finding{c14UndefInput, c14UndeclaredInput, st.keyL[c14UndeclaredInput]})
		}
		c14BundledEval(c, spec, "undeclared-input", src, want, 0, nil)
	}

	// (d) every declared input, upper case / seeded random case / as declared
	for v := 0; v < 3; v++ {
		var with [][2]string
		for _, k := range inKeys {
			n := meta.Inputs[k].Name
			switch v {
			case 0:
				n = strings.ToUpper(n)
			case 1:
				n = c14RandCase(c.R, n)
			}
			with = append(with, [2]string{n, "x"})
		}
		if len(with) == 0 {
			continue
		}
		src, _, _ := c14BundledSrc(spec, with, nil)
		c14BundledEval(c, spec, []string{"all-declared-upper-case", "all-declared-random-case", "all-declared"}[v], src, nil, 0, nil)
	}

	// (e) outputs: declared ones (as declared / upper / random case / lower-case index syntax) are
	// clean, an undeclared one is reported, whatever the shape of the surrounding expression is.
	// Shapes and contexts are assigned by position, so the coverage of the bundled part is fixed.
	act := c14ActiveShapes()
	k := c.Idx * 7
	var refs []c14ShapedRef
	addDeclared := func(ref string) {
		sr := c14MkRef(act[k%len(act)], (k+k/len(act))%len(c14CtxNames), ref)
		k++
		refs = append(refs, sr)
		c14CoverRef(c, "bundled", sr, true)
	}
	for _, key := range outKeys {
		n := meta.Outputs[key].Name
		if c14IsIdent(n) {
			addDeclared("steps.act.outputs." + n)
			addDeclared("steps.ACT.outputs." + strings.ToUpper(n))
			addDeclared("steps.act.outputs." + c14RandCase(c.R, n))
		} else {
			c.Count("bundled_output_names_not_identifiers", 1)
		}
		if !strings.Contains(key, "'") {
			addDeclared("steps.act.outputs['" + key + "']")
		}
	}
	if len(refs) > 0 {
		src, _, lines := c14BundledSrc(spec, required, refs)
		ls := map[int]string{}
		for i, l := range lines {
			ls[l] = refs[i].Shape
		}
		c14BundledEval(c, spec, "declared-outputs", src, nil, 0, ls)
	}
	if _, declared := meta.Outputs[c14UndeclaredOutput]; !declared {
		var urefs []c14ShapedRef
		for i, sh := range act {
			urefs = append(urefs, c14MkRef(sh, (i+c.Idx)%len(c14CtxNames), "steps.act.outputs."+c14UndeclaredOutput))
		}
		src, _, lines := c14BundledSrc(spec, required, urefs)
		var want []c14Finding
		ls := map[int]string{}
		for i, l := range lines {
			ls[l] = urefs[i].Shape
			if !dynamicOutputs {
				want = append(want, c14Finding{c14UndefOutput, c14UndeclaredOutput, l})
				c14CoverRef(c, "bundled", urefs[i], false)
			}
		}
		if dynamicOutputs {
			c.Nontrivial("bundled|" + spec + "|dynamic-output-accepted")
		}
		c14BundledEval(c, spec, "undeclared-output", src, want, 0, ls)
	}
}

func c14OutdatedCase(c *Case, spec string) {
	if _, both := actionlint.PopularActions[spec]; both {
		c.Violation("C14:bundled:spec-both-known-and-outdated", fmt.Sprintf("%q is in PopularActions and in OutdatedPopularActionSpecs", spec), map[string]interface{}{"spec": spec})
		return
	}
	// no interface is known: no input and no output may be reported, whatever is written
	act := c14ActiveShapes()
	src, _, _ := c14BundledSrc(spec, [][2]string{{c14UndeclaredInput, "x"}}, []c14ShapedRef{c14MkRef(act[c.Idx%len(act)], c.Idx%len(c14CtxNames), "steps.act.outputs."+c14UndeclaredOutput)})
	c14BundledEval(c, spec, "outdated", src, nil, 1, nil)
	src, _, _ = c14BundledSrc(spec, nil, nil)
	c14BundledEval(c, spec, "outdated-bare", src, nil, 1, nil)
	c.Nontrivial("outdated|" + spec)
}

// c14RandCase flips the case of every letter independently.
func c14RandCase(r *Rand, s string) string {
	b := []byte(s)
	for i, ch := range b {
		if ch >= 'a' && ch <= 'z' && r.Bool() {
			b[i] = ch - 32
		} else if ch >= 'A' && ch <= 'Z' && r.Bool() {
			b[i] = ch + 32
		}
	}
	return string(b)
}

// c14CaseVariant: as is / lower / upper / random.
func c14CaseVariant(r *Rand, s string) string {
	switch r.Intn(4) {
	case 0:
		return strings.ToLower(s)
	case 1:
		return strings.ToUpper(s)
	case 2:
		return c14RandCase(r, s)
	}
	return s
}

func runC14(r *Run) {
	r.Rule = "bundled data set: every spec of actionlint.PopularActions x {required only, each required input removed, undeclared input, all declared names in upper/random case, declared / undeclared outputs} and every outdated spec, enumerated completely through the real Linter. Local callees: generated action.yml / workflow_call interfaces (required x default, typed inputs, secrets, outputs) written to a scratch repository, call sites with random subsets, undeclared extras, letter-case variants, typed literal, single-expression and multi-expression template values (calls containing a template with >= 2 expressions are linted 8 times with fresh Linters per derivation mode and must give the same diagnostics each time), secrets mapping / inherit, steps.<id>.outputs.* and needs.<job>.outputs.* references, each wrapped into one of the expression shapes of c14_shapes.go (direct, parenthesised, ==/!= operand, function argument, either operand of && and ||, each position of a && b || c, under !, inside index brackets) and written in a run template, an env template, an if template or a bare if condition; reusable workflows are resolved both from the file and from the registered AST; the jobs of the caller are written in a seeded order (1-3 dependant jobs before, between or after the 1-4 calling jobs, several callers of one callee), the verdict must not depend on it. Non-trivial = a distinct case in which the reference expects at least one report (or a dynamic-outputs / inherit exemption applies)."
	r.Assume("diagnostics are identified by kind and message shape (regular expressions in c14.go); a diagnostic of a generated call site that matches none of them is itself reported")
	r.Assume("outdated specs have no declared interface: exactly the 'too old' diagnostic and no input/output report is expected")
	r.Assume("local callees are well-formed: generated action.yml files are valid by construction, generated reusable workflows must lint clean on their own (cases whose callee does not are skipped and counted)")
	r.Assume("type checks are compared where the statement is unambiguous: plain unquoted literals and single expressions of known type; number<-{number,any}, string<-{string,number,any}, boolean<-{bool,any} must be clean, every other combination for number and string must be reported; boolean inputs receiving non-boolean values are not compared")
	r.Assume("not compared: quoted literals, null-like literals other than `null`, YAML numbers that strconv.ParseFloat rejects, undeclared `args` / `entrypoint` keys of a step (special keys of Docker actions), mixed-case names inside index syntax outputs['Name'] (C08), `default: null`")

	specs := make([]string, 0, len(actionlint.PopularActions))
	for s := range actionlint.PopularActions {
		specs = append(specs, s)
	}
	sort.Strings(specs)
	outdated := make([]string, 0, len(actionlint.OutdatedPopularActionSpecs))
	for s := range actionlint.OutdatedPopularActionSpecs {
		outdated = append(outdated, s)
	}
	sort.Strings(outdated)

	var fams []*Family
	fams = append(fams, &Family{Name: "bundled", N: len(specs), Do: func(c *Case) {
		c14BundledCase(c, specs[c.Idx], actionlint.PopularActions[specs[c.Idx]])
	}})
	fams = append(fams, &Family{Name: "outdated", N: len(outdated), Do: func(c *Case) {
		c14OutdatedCase(c, outdated[c.Idx])
	}})
	fams = append(fams, c14LocalFamilies(r)...)
	r.RunFamilies(fams)
	r.SetExhaustive(true)
	r.Extra("exhaustive_bound", fmt.Sprintf("all %d PopularActions specs and all %d OutdatedPopularActionSpecs; local interfaces are sampled", len(specs), len(outdated)))
	r.Extra("bundled_specs", len(specs))
	r.Extra("expression_shapes_compared", len(c14ActiveShapes()))
	r.Extra("expression_shapes_silent", c14SilentShapes())
	r.Extra("outdated_specs", len(outdated))
	if r.ReplayOf != nil {
		return
	}

	// coverage floors
	if len(specs) < 50 || len(outdated) < 50 {
		r.Inconclusive(fmt.Sprintf("bundled data set unexpectedly small: %d specs, %d outdated", len(specs), len(outdated)))
	}
	for _, k := range []string{
		"bundled:" + c14MissingInput, "bundled:" + c14UndefInput, "bundled:" + c14UndefOutput,
		"action:" + c14MissingInput, "action:" + c14UndefInput, "action:" + c14UndefOutput,
		"workflow:" + c14MissingInput, "workflow:" + c14UndefInput, "workflow:" + c14UndefOutput,
		"workflow:" + c14MissingSecret, "workflow:" + c14UndefSecret, "workflow:" + c14Type,
	} {
		if !r.SetHas("expected_kinds", k) {
			r.Inconclusive("no case in which the reference expects " + k)
		}
	}
	for _, k := range []string{
		"action_required_with_default_not_supplied", "action_required_supplied_in_other_case", "action_output_declared_ref_other_case",
		"workflow_secrets_inherit_with_required_secret", "workflow_required_supplied_in_other_case", "workflow_typed_value_assignable", "workflow_typed_value_unassignable",
		"workflow_mode_file", "workflow_mode_ast", "workflow_optional_with_default_not_supplied", "workflow_output_declared_ref_other_case",
		"bundled_dynamic_outputs_specs", "outdated_specs_reported_too_old",
		"workflow_calls_with_multi_expression_template", "workflow_repeated_lints",
	} {
		if r.Counter(k) == 0 {
			r.Inconclusive("coverage floor not met: " + k + " never observed")
		}
	}
	for _, k := range []string{"string<-template", "number<-template", "boolean<-template"} {
		if !r.SetHas("multi_template_pairs", k) {
			r.Inconclusive("no template with two or more expressions was given to an input of type " + k)
		}
	}
	c14ShapeFloors(r)
	for _, oc := range []string{"after-caller", "before-caller-callee-not-yet-cached", "before-caller-callee-cached-by-earlier-caller"} {
		for _, mode := range []string{"file", "ast"} {
			for _, d := range []string{"declared", "undeclared"} {
				if !r.SetHas("order_cells", oc+"|"+mode+"|"+d) {
					r.Inconclusive("coverage floor not met: no " + d + " needs.<job>.outputs reference with job order " + oc + " in derivation mode " + mode)
				}
			}
		}
	}
	for _, l := range []string{"callers-first", "dependants-first", "interleaved"} {
		if !r.SetHas("job_layouts", l) {
			r.Inconclusive("coverage floor not met: job layout " + l + " never generated")
		}
	}
	if gen, bad := r.Counter("workflow_callees_generated"), r.Counter("workflow_callees_not_clean"); gen == 0 || bad*10 > gen {
		r.Inconclusive(fmt.Sprintf("too many generated reusable workflows do not lint clean on their own: %d of %d", bad, gen))
	}
}
