package main

// C16 — every output format renders the diagnostics faithfully, one per line.
//
// Round-trip monitor: one Linter call both returns []*Error and prints into a buffer (or, for the
// CLI family, the real binary prints to stdout); the printed text is parsed back and compared with
// the returned list, in order, without loss or duplication.
//
//   default / -oneline : structural parse (header, optional 3-line snippet block); every header is
//                        parsed with the problem-matcher regexp read from
//                        <repo>/.github/actionlint-matcher.json at check time and must give back
//                        file, line, column, message and kind; messages contain no line break.
//   -format '{{json .}}' and JSON-lines templates: decoded with encoding/json, all fields compared.
//   snippet            : printed source line == line `Line` of the source; for printable-ASCII
//                        lines the caret index == Column-1; end_column == end of the indicator.
//   renderer fuzz      : PrettyPrint / GetTemplateFields / ErrorFormatter.PrintErrors on arbitrary
//                        (line, column, source) triples never panic and keep the header intact.

import (
	"bytes"
	"encoding/json"
	"fmt"
	"io"
	"math"
	"os"
	"path/filepath"
	"regexp"
	"sort"
	"strconv"
	"strings"
	"unicode/utf8"

	"github.com/rhysd/actionlint"
)

func init() { registry["C16"] = runC16 }

// ---------------------------------------------------------------------------
// the shipped problem matcher

type c16Matcher struct {
	re                         *regexp.Regexp
	pattern                    string
	file, line, col, msg, code int
}

func c16LoadMatcher() (*c16Matcher, error) {
	p := filepath.Join(repoDir(), ".github", "actionlint-matcher.json")
	b, err := os.ReadFile(p)
	if err != nil {
		return nil, err
	}
	var doc struct {
		ProblemMatcher []struct {
			Owner   string `json:"owner"`
			Pattern []struct {
				Regexp  string `json:"regexp"`
				File    int    `json:"file"`
				Line    int    `json:"line"`
				Column  int    `json:"column"`
				Message int    `json:"message"`
				Code    int    `json:"code"`
			} `json:"pattern"`
		} `json:"problemMatcher"`
	}
	if err := json.Unmarshal(b, &doc); err != nil {
		return nil, fmt.Errorf("%s: %v", p, err)
	}
	if len(doc.ProblemMatcher) != 1 || len(doc.ProblemMatcher[0].Pattern) != 1 {
		return nil, fmt.Errorf("%s: expected exactly one single-line pattern", p)
	}
	pt := doc.ProblemMatcher[0].Pattern[0]
	re, err := regexp.Compile(pt.Regexp)
	if err != nil {
		return nil, fmt.Errorf("%s: regexp does not compile with Go regexp: %v", p, err)
	}
	m := &c16Matcher{re: re, pattern: pt.Regexp, file: pt.File, line: pt.Line, col: pt.Column, msg: pt.Message, code: pt.Code}
	for _, g := range []int{m.file, m.line, m.col, m.msg, m.code} {
		if g < 1 || g > re.NumSubexp() {
			return nil, fmt.Errorf("%s: group index %d out of range", p, g)
		}
	}
	return m, nil
}

type c16Fields struct {
	File string `json:"file"`
	Line string `json:"line"`
	Col  string `json:"col"`
	Msg  string `json:"msg"`
	Kind string `json:"kind"`
}

func (m *c16Matcher) parse(line string) (c16Fields, bool) {
	g := m.re.FindStringSubmatch(line)
	if g == nil {
		return c16Fields{}, false
	}
	return c16Fields{g[m.file], g[m.line], g[m.col], g[m.msg], g[m.code]}, true
}

// ---------------------------------------------------------------------------
// structural parse of the default / oneline output

type c16Block struct {
	Header     string `json:"header"`
	HasSnippet bool   `json:"has_snippet"`
	LineNo     string `json:"line_no,omitempty"`
	Src        string `json:"src,omitempty"`
	Indicator  string `json:"indicator,omitempty"`
}

var (
	c16AnsiRe   = regexp.MustCompile(`\x1b\[\d+m`)
	c16BarRe    = regexp.MustCompile(`^ +\|$`)
	c16SrcRe    = regexp.MustCompile(`^(\d+) \| (.*)$`)
	c16IndRe    = regexp.MustCompile(`^ +\| ( *(?:\^~*)?)$`)
	c16IndOnly  = regexp.MustCompile(`^ *(?:\^~*)?$`)
	c16HeaderRe = regexp.MustCompile(`:-?\d+:-?\d+: `)
)

func c16StripAnsi(s string) string { return c16AnsiRe.ReplaceAllString(s, "") }

// c16ParsePretty splits the output of PrettyPrint calls into blocks. With colour enabled, the
// classification of the lines and the snippet parts use the text with ANSI colour codes removed;
// Header is always the raw line. A line is a header when it is not the start of a snippet block
// (spaces followed by a bar); the three lines after such a bar line belong to the snippet.
func c16ParsePretty(out string, color bool) ([]c16Block, string) {
	if out == "" {
		return nil, ""
	}
	if !strings.HasSuffix(out, "\n") {
		// with colour the very last bytes may be a reset sequence after the line break
		if !(color && strings.HasSuffix(c16StripAnsi(out), "\n")) {
			return nil, "output does not end with a line break"
		}
	}
	lines := strings.Split(out, "\n")
	if last := lines[len(lines)-1]; c16StripAnsi(last) == "" {
		lines = lines[:len(lines)-1]
	}
	var blocks []c16Block
	for i := 0; i < len(lines); {
		raw := lines[i]
		cl := raw
		if color {
			cl = c16StripAnsi(raw)
		}
		if c16BarRe.MatchString(cl) {
			return blocks, fmt.Sprintf("output line %d: snippet bar without a header before it: %q", i+1, raw)
		}
		if !c16HeaderRe.MatchString(cl) {
			return blocks, fmt.Sprintf("output line %d is neither a header line nor part of a snippet: %q", i+1, raw)
		}
		b := c16Block{Header: raw}
		i++
		if i < len(lines) {
			nx := lines[i]
			if color {
				nx = c16StripAnsi(nx)
			}
			if c16BarRe.MatchString(nx) {
				if i+2 >= len(lines) {
					return blocks, fmt.Sprintf("output line %d: truncated snippet block", i+1)
				}
				l2, l3 := lines[i+1], lines[i+2]
				if color {
					l2, l3 = c16StripAnsi(l2), c16StripAnsi(l3)
				}
				m2 := c16SrcRe.FindStringSubmatch(l2)
				m3 := c16IndRe.FindStringSubmatch(l3)
				if m2 == nil || m3 == nil {
					return blocks, fmt.Sprintf("output lines %d-%d: malformed snippet block: %q / %q", i+2, i+3, lines[i+1], lines[i+2])
				}
				if len(nx) != len(m2[1])+2 {
					return blocks, fmt.Sprintf("output line %d: snippet bar not aligned with the line number column: %q / %q", i+1, nx, l2)
				}
				b.HasSnippet, b.LineNo, b.Src, b.Indicator = true, m2[1], m2[2], m3[1]
				i += 3
			}
		}
		blocks = append(blocks, b)
	}
	return blocks, ""
}

// ---------------------------------------------------------------------------
// helpers

// c16SourceLine returns line n (1-based) of src as the renderers define it: lines are separated by
// "\n"; a "\r" before the separator belongs to the separator.
func c16SourceLine(src string, n int) (string, bool) {
	if n < 1 || src == "" {
		return "", false
	}
	ls := strings.Split(src, "\n")
	if strings.HasSuffix(src, "\n") {
		ls = ls[:len(ls)-1]
	}
	if n > len(ls) {
		return "", false
	}
	return strings.TrimSuffix(ls[n-1], "\r"), true
}

func c16PrintableASCII(s string) bool {
	for i := 0; i < len(s); i++ {
		if s[i] < 0x20 || s[i] > 0x7e {
			return false
		}
	}
	return true
}

var c16QuotedRe = regexp.MustCompile(`"(?:[^"\\]|\\.)*"`)
var c16CharLitRe = regexp.MustCompile(`'(?:[^'\\]|\\.){1,10}'`)
var c16BraceRe = regexp.MustCompile(`\{[^{}]*\}`)
var c16ObjTypeRe = regexp.MustCompile(`(?s)\{.+: (?:any|string|number|bool|null|object|array<|\{)`)
var c16NonWord = regexp.MustCompile(`[^a-z0-9]+`)

// c16Skeleton is the static text of a message: quoted parts removed, digits normalised.
func c16Skeleton(kind, msg string) string {
	s := c16QuotedRe.ReplaceAllString(msg, `""`)
	s = c16CharLitRe.ReplaceAllString(s, "''")
	for i := 0; i < 6; i++ {
		t := c16BraceRe.ReplaceAllString(s, "<obj>")
		if t == s {
			break
		}
		s = t
	}
	if len(s) > 56 {
		s = s[:56]
	}
	var b strings.Builder
	for _, c := range s {
		switch {
		case c >= '0' && c <= '9':
			b.WriteByte('0')
		case c < 0x20 || c > 0x7e:
			b.WriteByte('?')
		default:
			b.WriteRune(c)
		}
	}
	return kind + ": " + b.String()
}

// c16Site names the message format (for signatures): the first words of the static text before
// the first line break (known formats have fixed names).
func c16Site(kind, msg string) string {
	s := msg
	partial := false
	if i := strings.IndexAny(s, "\r\n"); i >= 0 {
		s = s[:i]
		partial = !strings.HasSuffix(s, " ")
	}
	s = c16QuotedRe.ReplaceAllString(s, " ")
	if i := strings.IndexByte(s, '"'); i >= 0 {
		// an unclosed quote: the user text that carries the line break starts here
		s = s[:i]
		partial = false
	}
	w := strings.Fields(strings.ToLower(s))
	if partial && len(w) > 1 {
		w = w[:len(w)-1] // the word that is cut by the line break is user text
	}
	if len(w) > 3 {
		w = w[:3]
	}
	slug := strings.Trim(c16NonWord.ReplaceAllString(strings.Join(w, "-"), "-"), "-")
	switch {
	case strings.HasPrefix(msg, "duplicate value "):
		return "matrix-duplicate-value"
	case strings.HasPrefix(msg, "value ") && strings.Contains(msg, "in \"exclude\" does not match"):
		return "matrix-exclude-value"
	}
	if i := strings.IndexAny(msg, "\r\n"); i >= 0 {
		// a line break inside the rendering of an object type {key: type; ...}
		pre := c16QuotedRe.ReplaceAllString(msg[:i], "")
		if strings.Contains(pre, "{") && c16ObjTypeRe.MatchString(msg) {
			return "object-type-string"
		}
	}
	switch {
	case strings.HasPrefix(msg, "invalid CRON format"):
		return "cron"
	case strings.HasPrefix(msg, "URI for Docker container"):
		return "docker-uri"
	case strings.HasPrefix(msg, "shellcheck reported issue in this script"):
		return "shellcheck-message"
	case strings.HasPrefix(msg, "pyflakes reported issue in this script"):
		return "pyflakes-message"
	}
	return kind + ":" + slug
}

func c16HasNasty(msg string) bool {
	if strings.Contains(msg, "zq") || strings.Contains(msg, "ZQ") || strings.Contains(msg, " [") {
		return true
	}
	for _, c := range msg {
		if c < 0x20 || c > 0x7e {
			return true
		}
	}
	return strings.Contains(msg, `\n`) || strings.Contains(msg, `\x`) || strings.Contains(msg, `\u`) || strings.Contains(msg, `\t`) || strings.Contains(msg, `\r`)
}

type c16ErrJSON struct {
	Message   string `json:"message"`
	Filepath  string `json:"filepath"`
	Line      int    `json:"line"`
	Column    int    `json:"column"`
	Kind      string `json:"kind"`
	Snippet   string `json:"snippet"`
	EndColumn *int   `json:"end_column"`
}

func c16ErrList(errs []*actionlint.Error) []string {
	out := make([]string, len(errs))
	for i, e := range errs {
		out[i] = fmt.Sprintf("%q:%d:%d: %q [%s]", e.Filepath, e.Line, e.Column, e.Message, e.Kind)
	}
	return out
}

// jsonRT is what encoding/json can carry of a Go string (invalid UTF-8 becomes U+FFFD).
func c16JSONRT(s string) string {
	if utf8.ValidString(s) {
		return s
	}
	b, _ := json.Marshal(s)
	var o string
	json.Unmarshal(b, &o)
	return o
}

// ---------------------------------------------------------------------------
// the oracle

type c16Checker struct {
	c                    *Case
	m                    *c16Matcher
	tag                  string
	shellcheck, pyflakes string // external tool executables ("" = disabled), family tool-messages

	scrub   string // scratch directory, removed from messages before they are used as coverage keys
	local   map[string]int
	sets    map[string]map[string]struct{}
	nontriv map[string]struct{}
	pfx     string // counter prefix ("fuzz_" for the renderer fuzz so that it does not feed the workflow floors)
}

// cnt counts locally; flush adds the sums to the run (one lock per case instead of one per event).
func (k *c16Checker) cnt(name string) {
	if k.local == nil {
		k.local = map[string]int{}
	}
	k.local[k.pfx+name]++
}

func (k *c16Checker) flush() {
	for n, v := range k.local {
		k.c.Count(n, v) // sums: the iteration order does not matter
	}
	k.local = nil
	for set, m := range k.sets {
		for e := range m {
			k.c.SetAdd(set, e)
		}
	}
	k.sets = nil
	for key := range k.nontriv {
		k.c.Nontrivial(key)
	}
	k.nontriv = nil
}

func (k *c16Checker) setAdd(set, e string) {
	if k.sets == nil {
		k.sets = map[string]map[string]struct{}{}
	}
	if k.sets[set] == nil {
		k.sets[set] = map[string]struct{}{}
	}
	k.sets[set][e] = struct{}{}
}

func (k *c16Checker) nontrivial(key string) {
	if k.nontriv == nil {
		k.nontriv = map[string]struct{}{}
	}
	k.nontriv[key] = struct{}{}
}

type c16Input struct {
	// srcOf returns the source of the file an error belongs to
	srcOf  func(file string) (string, bool)
	detail map[string]interface{}
}

func (k *c16Checker) viol(sig, what string, in *c16Input, extra map[string]interface{}) {
	d := map[string]interface{}{}
	for a, b := range in.detail {
		d[a] = b
	}
	for a, b := range extra {
		d[a] = b
	}
	k.c.Violation(sig, what, d)
}

// checkMessages reports messages with line breaks. Returns true if one was found.
func (k *c16Checker) checkMessages(errs []*actionlint.Error, in *c16Input) bool {
	bad := false
	for _, e := range errs {
		if strings.ContainsAny(e.Message, "\n\r\u2028\u2029") {
			bad = true
			k.viol("C16:message-contains-linebreak:"+c16Site(e.Kind, e.Message),
				fmt.Sprintf("diagnostic message contains a raw line break (LF, CR, U+2028 or U+2029), so the problem matcher does not parse its header line: %q [%s]", e.Message, e.Kind),
				in, map[string]interface{}{"message": e.Message, "kind": e.Kind, "errors": c16ErrList(errs)})
		}
		if e.Kind == "" || strings.ContainsAny(e.Kind, "[] \n\r") {
			k.viol("C16:kind-not-a-rule-name", fmt.Sprintf("kind %q is not a plain rule name", e.Kind), in, map[string]interface{}{"errors": c16ErrList(errs)})
		}
	}
	return bad
}

// checkPretty compares the output of default / oneline mode with errs.
func (k *c16Checker) checkPretty(mode string, oneline, color bool, errs []*actionlint.Error, out string, in *c16Input) {
	_ = k.c
	ex := func(m map[string]interface{}) map[string]interface{} {
		if m == nil {
			m = map[string]interface{}{}
		}
		m["mode"] = mode
		m["output"] = out
		m["errors"] = c16ErrList(errs)
		m["matcher_regexp"] = k.m.pattern
		return m
	}
	blocks, perr := c16ParsePretty(out, color)
	if perr != "" {
		k.viol("C16:output-structure:"+mode, "printed output is not a sequence of header lines with optional snippet blocks: "+perr, in, ex(nil))
		return
	}
	if len(blocks) != len(errs) {
		k.viol("C16:diagnostic-count:"+mode, fmt.Sprintf("%d diagnostics returned but %d printed", len(errs), len(blocks)), in, ex(nil))
		return
	}
	for i, e := range errs {
		b := blocks[i]
		want := c16Fields{e.Filepath, strconv.Itoa(e.Line), strconv.Itoa(e.Column), e.Message, e.Kind}
		got, ok := k.m.parse(b.Header)
		if !ok || got != want {
			sig := "C16:matcher-mismatch:" + mode
			what := "the shipped problem matcher does not parse the header line back to the diagnostic"
			plain := b.Header
			expect := fmt.Sprintf("%s:%d:%d: %s [%s]", e.Filepath, e.Line, e.Column, e.Message, e.Kind)
			if color {
				plain, expect = c16StripAnsi(plain), c16StripAnsi(expect)
			}
			switch {
			case plain != expect:
				// the matcher is not to blame: the printed header is not the returned diagnostic
				sig = "C16:printed-header-differs-from-returned-diagnostic:" + mode
				what = "the printed header line is not file:line:col: message [kind] of the returned diagnostic"
			case !ok:
				sig = "C16:matcher-does-not-match-header:" + mode
			case got.File != want.File && color:
				sig = "C16:matcher-misparses-file-with-color"
			case got.File == want.File && got.Line == want.Line && got.Col == want.Col && strings.Contains(e.Message, " [") && strings.HasPrefix(want.Msg, got.Msg):
				sig = "C16:matcher-misparses-bracket-in-message"
			case got.File == want.File && got.Line == want.Line && got.Col == want.Col && strings.Contains(e.Message, "\x1b["):
				sig = "C16:matcher-misparses-ansi-escape-in-message:" + c16Site(e.Kind, e.Message)
			}
			k.viol(sig, fmt.Sprintf("%s: header %q parsed=%v as %+v, want %+v", what, b.Header, ok, got, want),
				in, ex(map[string]interface{}{"header": b.Header, "parsed": got, "want": want}))
			continue
		}
		if c16HasNasty(e.Message) {
			k.cnt("headers_with_user_text_parsed_back")
		}
		k.cnt("headers_parsed_back")
		if color {
			k.cnt("cli_color_headers_parsed_back")
		}
		if oneline {
			if b.HasSnippet {
				k.viol("C16:oneline-prints-snippet", "oneline mode printed a snippet", in, ex(nil))
			}
			continue
		}
		if !b.HasSnippet {
			k.cnt("default_mode_without_snippet")
			continue
		}
		src, _ := in.srcOf(e.Filepath)
		k.checkSnippet(mode, color, e, src, b.LineNo, b.Src, b.Indicator, in, ex)
	}
}

func (k *c16Checker) checkSnippet(mode string, color bool, e *actionlint.Error, src, lineNo, printed, ind string, in *c16Input, ex func(map[string]interface{}) map[string]interface{}) {
	_ = k.c
	if lineNo != "" && lineNo != strconv.Itoa(e.Line) {
		k.viol("C16:snippet-line-number", fmt.Sprintf("snippet is labelled line %s but the diagnostic is at line %d", lineNo, e.Line), in, ex(nil))
		return
	}
	want, ok := c16SourceLine(src, e.Line)
	if color {
		want = c16StripAnsi(want)
	}
	if !ok || printed != want {
		k.viol("C16:snippet-is-not-the-source-line", fmt.Sprintf("snippet shows %q but line %d of the source is %q (exists=%v)", printed, e.Line, want, ok), in, ex(nil))
		return
	}
	k.cnt("snippets_checked")
	if !c16IndOnly.MatchString(ind) {
		k.viol("C16:indicator-malformed", fmt.Sprintf("indicator %q is not spaces, a caret and tildes", ind), in, ex(nil))
		return
	}
	if e.Column <= 0 {
		k.cnt("snippet_with_nonpositive_column") // no column to put a caret under: not judged
		return
	}
	if c16PrintableASCII(want) {
		if strings.IndexByte(ind, '^') != e.Column-1 {
			k.viol("C16:caret-not-under-column", fmt.Sprintf("caret at index %d but column is %d; line %q indicator %q", strings.IndexByte(ind, '^'), e.Column, want, ind), in, ex(nil))
			return
		}
		k.cnt("carets_checked")
		if e.Column-1 < len(want) && want[e.Column-1] != ' ' {
			k.cnt("carets_checked_on_token")
		}
	}
}

// checkJSON compares the output of a JSON template with errs. lines: JSON-lines template.
func (k *c16Checker) checkJSON(mode string, lines bool, errs []*actionlint.Error, out string, in *c16Input) {
	_ = k.c
	ex := func(m map[string]interface{}) map[string]interface{} {
		if m == nil {
			m = map[string]interface{}{}
		}
		m["mode"] = mode
		m["output"] = out
		m["errors"] = c16ErrList(errs)
		return m
	}
	var got []c16ErrJSON
	dec := json.NewDecoder(strings.NewReader(out))
	if lines {
		for {
			var o c16ErrJSON
			err := dec.Decode(&o)
			if err == io.EOF {
				break
			}
			if err != nil {
				k.viol("C16:json-undecodable:"+mode, "output is not a stream of JSON objects: "+err.Error(), in, ex(nil))
				return
			}
			got = append(got, o)
		}
		// one object per line
		n := 0
		for _, l := range strings.Split(out, "\n") {
			if strings.TrimSpace(l) != "" {
				n++
			}
		}
		if n != len(got) {
			k.viol("C16:jsonl-not-one-object-per-line", fmt.Sprintf("%d objects on %d non-empty lines", len(got), n), in, ex(nil))
			return
		}
	} else {
		if err := dec.Decode(&got); err != nil {
			k.viol("C16:json-undecodable:"+mode, "output is not a JSON array of error objects: "+err.Error(), in, ex(nil))
			return
		}
		var rest interface{}
		if err := dec.Decode(&rest); err != io.EOF {
			k.viol("C16:json-trailing-data:"+mode, "data after the JSON array", in, ex(nil))
			return
		}
		if got == nil {
			k.viol("C16:json-null-instead-of-array", "{{json .}} printed null", in, ex(nil))
			return
		}
	}
	if len(got) != len(errs) {
		k.viol("C16:diagnostic-count:"+mode, fmt.Sprintf("%d diagnostics returned but %d objects printed", len(errs), len(got)), in, ex(nil))
		return
	}
	for i, e := range errs {
		g := got[i]
		bad := ""
		switch {
		case g.Message != c16JSONRT(e.Message):
			bad = "message"
		case g.Filepath != c16JSONRT(e.Filepath):
			bad = "filepath"
		case g.Line != e.Line:
			bad = "line"
		case g.Column != e.Column:
			bad = "column"
		case g.Kind != e.Kind:
			bad = "kind"
		case g.EndColumn == nil:
			bad = "end_column"
		}
		if bad != "" {
			k.viol("C16:json-roundtrip:"+bad, fmt.Sprintf("field %s of diagnostic %d does not round-trip: got %+v want %s", bad, i, g, c16ErrList(errs[i : i+1])[0]), in, ex(nil))
			continue
		}
		k.cnt("json_objects_compared")
		src, _ := in.srcOf(e.Filepath)
		k.checkFields(mode, e, src, g.Snippet, *g.EndColumn, in, ex)
	}
}

// checkFields checks snippet and end_column of template fields against the source.
func (k *c16Checker) checkFields(mode string, e *actionlint.Error, src, snippet string, end int, in *c16Input, ex func(map[string]interface{}) map[string]interface{}) {
	_ = k.c
	if snippet == "" {
		// no snippet (or an empty source line without indicator)
		if end != e.Column {
			k.viol("C16:end-column-without-indicator", fmt.Sprintf("no indicator but end_column %d != column %d", end, e.Column), in, ex(nil))
		}
		return
	}
	want, ok := c16SourceLine(src, e.Line)
	want = c16JSONRT(want)
	parts := strings.Split(snippet, "\n")
	// the source line itself cannot contain "\n"; a line consisting of an empty string with an
	// indicator gives "\n^"
	if !ok || len(parts) > 2 || parts[0] != want {
		k.viol("C16:snippet-is-not-the-source-line", fmt.Sprintf("snippet field %q but line %d of the source is %q (exists=%v)", snippet, e.Line, want, ok), in, ex(nil))
		return
	}
	k.cnt("snippet_fields_checked")
	if len(parts) == 1 {
		if end != e.Column {
			k.viol("C16:end-column-without-indicator", fmt.Sprintf("no indicator but end_column %d != column %d", end, e.Column), in, ex(nil))
		}
		return
	}
	ind := parts[1]
	if !c16IndOnly.MatchString(ind) || !strings.Contains(ind, "^") {
		k.viol("C16:indicator-malformed", fmt.Sprintf("indicator %q is not spaces, a caret and tildes", ind), in, ex(nil))
		return
	}
	if end != len(ind) {
		k.viol("C16:end-column-is-not-end-of-indicator", fmt.Sprintf("end_column %d but the indicator %q ends at column %d", end, ind, len(ind)), in, ex(nil))
		return
	}
	if len(ind) > strings.IndexByte(ind, '^')+1 {
		k.cnt("end_columns_checked_with_underline")
	}
	if c16PrintableASCII(want) {
		if strings.IndexByte(ind, '^') != e.Column-1 {
			k.viol("C16:caret-not-under-column", fmt.Sprintf("caret at index %d but column is %d; line %q indicator %q", strings.IndexByte(ind, '^'), e.Column, want, ind), in, ex(nil))
			return
		}
		k.cnt("carets_checked")
	}
}

// ---------------------------------------------------------------------------
// modes through the library

type c16Mode struct {
	name    string
	oneline bool
	format  string
	jsonl   bool
}

var c16Modes = []c16Mode{
	{name: "default"},
	{name: "oneline", oneline: true},
	{name: "json", format: "{{json .}}"},
	{name: "jsonl", format: "{{range $err := .}}{{json $err}}{{end}}", jsonl: true},
	{name: "jsonl-nl", format: `{{range $err := .}}{{json $err}}\n{{end}}`, jsonl: true},
}

// lintAllModes lints src in every mode and applies the oracle. Returns the errors of the first mode.
func (k *c16Checker) lintAllModes(src, cfgPath, cfgText string) []*actionlint.Error {
	c := k.c
	in := &c16Input{
		srcOf:  func(string) (string, bool) { return src, true },
		detail: map[string]interface{}{"src": src, "family": k.tag},
	}
	if cfgText != "" {
		in.detail["config"] = cfgText
	}
	var first []*actionlint.Error
	for mi, md := range c16Modes {
		opts := &actionlint.LinterOptions{Oneline: md.oneline, Format: md.format, ConfigFile: cfgPath, Shellcheck: k.shellcheck, Pyflakes: k.pyflakes}
		errs, out, err := lintSrcOut(src, opts)
		c.Eval(1)
		if err != nil {
			c.Count("lint_returned_fatal_error", 1)
			c.Logf("mode %s: fatal error %v", md.name, err)
			return nil
		}
		if mi == 0 {
			first = errs
			if k.checkMessages(errs, in) {
				// the printed forms are broken as a consequence; do not pile up signatures
				c.Count("workflows_with_linebreak_message", 1)
				return errs
			}
		} else if len(errs) != len(first) {
			c.Count("modes_disagree_on_count", 1) // determinism is C02's business
		}
		for _, e := range errs {
			if strings.ContainsAny(e.Message, "\r\n\u2028\u2029") {
				return first
			}
		}
		c.Logf("--- mode %s: %d diagnostics\n%s", md.name, len(errs), out)
		if md.format == "" {
			k.checkPretty(md.name, md.oneline, false, errs, out, in)
		} else {
			k.checkJSON(md.name, md.jsonl, errs, out, in)
		}
	}
	return first
}

func (k *c16Checker) record(errs []*actionlint.Error, src string) {
	for _, e := range errs {
		k.setAdd("kinds", e.Kind)
		msg := e.Message
		if k.scrub != "" {
			msg = strings.ReplaceAll(msg, k.scrub, "<scratch>")
		}
		sk := c16Skeleton(e.Kind, msg)
		if c16HasNasty(msg) {
			k.nontrivial(sk)
			k.setAdd("echo_formats", sk)
		}
		k.setAdd("message_formats", sk)
		for i := range c16RequiredSites {
			if c16RequiredSites[i].re.MatchString(msg) {
				k.cnt("site_" + c16RequiredSites[i].name)
			}
		}
	}
	if len(errs) > 0 {
		k.cnt("workflows_with_diagnostics")
	}
}

// c16RequiredSites are the printers of composite / listed user values (RawYAMLObject.String,
// RawYAMLArray.String, RawYAMLString.String, ObjectType.String, quotes / sortedQuotes / quotesBuilder
// users fed with user text). Each must be observed with nasty content (an escaped or raw special
// character, or the generator's marker) inside the printed value in every run; otherwise the run is
// inconclusive.
const c16NastyRe = `(?:\\[nrtxuUeafv0"\\]|zq|ZQ|[^\x20-\x7e])`

var c16RequiredSites = []struct {
	name string
	re   *regexp.Regexp
}{
	{"matrix_duplicate_mapping", regexp.MustCompile(`(?s)^duplicate value \{.*` + c16NastyRe + `.* is found in matrix`)},
	{"matrix_duplicate_sequence", regexp.MustCompile(`(?s)^duplicate value \[.*` + c16NastyRe + `.* is found in matrix`)},
	{"matrix_duplicate_scalar", regexp.MustCompile(`(?s)^duplicate value ".*` + c16NastyRe + `.* is found in matrix`)},
	{"matrix_exclude_nomatch_mapping", regexp.MustCompile(`(?s)^value \{.*` + c16NastyRe + `.* in "exclude" does not match`)},
	{"matrix_exclude_nomatch_sequence", regexp.MustCompile(`(?s)^value \[.*` + c16NastyRe + `.* in "exclude" does not match`)},
	{"matrix_exclude_possible_values", regexp.MustCompile(`(?s) combinations\. possible values are .*[\{\[].*` + c16NastyRe)},
	{"matrix_nested_mapping_key", regexp.MustCompile(`(?s)^(?:duplicate value|value) [\[\{].*: \{"(?:[^"\\]|\\.)*` + c16NastyRe)},
	{"matrix_exclude_unknown_key", regexp.MustCompile(`(?s)in "exclude" section does not exist in matrix\. available matrix configurations are .*` + c16NastyRe)},
	{"needs_cycle", regexp.MustCompile(`(?s)detected cycle is .*` + c16NastyRe)},
	{"dispatch_options", regexp.MustCompile(`(?s)is not included in its options .*` + c16NastyRe)},
	{"config_variables", regexp.MustCompile(`(?s)defined configuration variables in actionlint\.yaml are .*` + c16NastyRe)},
	{"config_labels", regexp.MustCompile(`(?s)is unknown\. available labels are .*` + c16NastyRe)},
	{"action_inputs", regexp.MustCompile(`(?s)available inputs are .*` + c16NastyRe)},
	{"action_required_inputs", regexp.MustCompile(`(?s)all required inputs are .*` + c16NastyRe)},
	{"workflow_call_inputs", regexp.MustCompile(`(?s)defined inputs are .*` + c16NastyRe)},
	{"workflow_call_secrets", regexp.MustCompile(`(?s)defined secrets are .*` + c16NastyRe)},
	{"object_type", regexp.MustCompile(`(?s)in object type \{.*` + c16NastyRe)},
}

// ---------------------------------------------------------------------------
// hostile byte-level mutation of a source

func c16Hostile(r *Rand, src string) string {
	b := []byte(src)
	for n := r.Range(1, 3); n > 0 && len(b) > 0; n-- {
		p := r.Intn(len(b))
		switch r.Intn(12) {
		case 0:
			b = bytes.ReplaceAll(b, []byte("\n"), []byte("\r\n"))
		case 1:
			b = append([]byte("\xef\xbb\xbf"), b...)
		case 2:
			b = b[:p]
		case 3:
			b[p] = 0xff
		case 4:
			b[p] = 0
		case 5:
			b[p] = '\t'
		case 6:
			b[p] = '\r'
		case 7:
			b = bytes.TrimRight(b, "\n")
		case 8:
			ins := []string{"\x1b[31m", " ", "\u0085", "\xc3", ": ", " [x]", "\"", "'", "&a ", "*a ", "!!binary ", "- ", "? ", "#", "\n\n", "\t", "é", "日本"}[r.Intn(18)]
			b = append(b[:p], append([]byte(ins), b[p:]...)...)
		case 9:
			// duplicate a line
			ls := strings.SplitAfter(string(b), "\n")
			i := r.Intn(len(ls))
			ls = append(ls[:i+1], ls[i:]...)
			b = []byte(strings.Join(ls, ""))
		case 10:
			// drop a line
			ls := strings.SplitAfter(string(b), "\n")
			i := r.Intn(len(ls))
			ls = append(ls[:i], ls[i+1:]...)
			b = []byte(strings.Join(ls, ""))
		case 11:
			// indent a line
			ls := strings.SplitAfter(string(b), "\n")
			i := r.Intn(len(ls))
			ls[i] = "  " + ls[i]
			b = []byte(strings.Join(ls, ""))
		}
	}
	return string(b)
}

// ---------------------------------------------------------------------------
// corpus

func c16Corpus() []string {
	var files []string
	for _, d := range []string{"testdata/ok", "testdata/err", "testdata/examples", "testdata/format"} {
		for _, pat := range []string{"*.yaml", "*.yml"} {
			ms, _ := filepath.Glob(filepath.Join(repoDir(), d, pat))
			files = append(files, ms...)
		}
	}
	sort.Strings(files)
	return files
}

var c16QuotedYAML = regexp.MustCompile(`'[^'\n]*'|"[^"\\\n]*"`)

// c16CorpusMutate replaces some quoted scalars / plain values of a corpus file with nasty strings.
func c16CorpusMutate(r *Rand, src string) string {
	g := &c16G{r: r, den: 1, used: map[string]int{}}
	n := r.Range(1, 3)
	for ; n > 0; n-- {
		locs := c16QuotedYAML.FindAllStringIndex(src, -1)
		if len(locs) > 0 && r.Chance(2, 3) {
			l := locs[r.Intn(len(locs))]
			old := src[l[0]:l[1]]
			inner := old[1 : len(old)-1]
			ns := g.nasty()
			switch r.Intn(4) {
			case 0:
				ns = inner + ns
			case 1:
				ns = ns + inner
			case 2:
				if len(inner) > 1 {
					p := r.Intn(len(inner))
					for p > 0 && !utf8.RuneStart(inner[p]) {
						p--
					}
					ns = inner[:p] + ns + inner[p:]
				}
			}
			src = src[:l[0]] + c16DQ(r, ns) + src[l[1]:]
			continue
		}
		// replace the plain value after "key: " on a random line
		ls := strings.Split(src, "\n")
		for try := 0; try < 8; try++ {
			i := r.Intn(len(ls))
			l := ls[i]
			j := strings.Index(l, ": ")
			if j < 0 || strings.HasPrefix(strings.TrimSpace(l), "#") {
				continue
			}
			val := strings.TrimSpace(l[j+2:])
			if val == "" || strings.ContainsAny(val[:1], "|>[{&*!'\"") {
				continue
			}
			if r.Bool() {
				ls[i] = l[:j+2] + c16DQ(r, val+g.nasty())
			} else {
				ls[i] = l[:j+2] + c16DQ(r, g.nasty())
			}
			break
		}
		src = strings.Join(ls, "\n")
	}
	return src
}

// ---------------------------------------------------------------------------
// renderer fuzz

var c16FuzzAtoms = []string{"a", "b", " ", " ", "  ", "\t", "é", "日本", "🙂", "ａ", "́", "\xff", "\xc3", "\xe3\x81", "\x00", "\x1b[31m", "\r", "key: value", "- run: echo", "${{ x }}", "~", "^", "|", " ", "\u0085"}

func c16FuzzLine(r *Rand) string {
	switch r.Intn(40) {
	case 0:
		return ""
	case 1:
		// around bufio.Scanner's token limit
		n := []int{65535, 65536, 65537, 100 * 1024, 70000}[r.Intn(5)]
		if r.Bool() {
			return strings.Repeat("x", n)
		}
		return strings.Repeat("日", n/3) + "x"
	}
	var b strings.Builder
	for n := r.Range(0, 12); n > 0; n-- {
		b.WriteString(c16FuzzAtoms[r.Intn(len(c16FuzzAtoms))])
	}
	return b.String()
}

func c16FuzzSource(r *Rand) string {
	switch r.Intn(12) {
	case 0:
		return ""
	case 1:
		return "\n"
	case 2:
		return "\r\n\r\n"
	}
	nl := "\n"
	if r.Chance(1, 6) {
		nl = "\r\n"
	}
	var b strings.Builder
	n := r.Range(1, 6)
	for i := 0; i < n; i++ {
		b.WriteString(c16FuzzLine(r))
		if i+1 < n || r.Chance(2, 3) {
			b.WriteString(nl)
		}
	}
	return b.String()
}

func c16FuzzInt(r *Rand, around int) int {
	switch r.Intn(16) {
	case 0:
		return 0
	case 1:
		return -1
	case 2:
		return -r.Intn(1000)
	case 3:
		return math.MaxInt32
	case 4:
		return math.MinInt64
	case 5:
		return math.MaxInt64
	case 6:
		return around + 1
	case 7:
		return around + 2
	case 8:
		return around
	case 9:
		return 65536 + r.Intn(3)
	case 10:
		return r.Intn(200000)
	}
	if around <= 0 {
		return 1
	}
	return 1 + r.Intn(around)
}

var c16FuzzMsgs = []string{"m", "some message with \"quotes\"", "x [y] z", "日本語 message", "a:1:2: b", "tab\there"}

// c16FuzzOne evaluates one (line, column, source) triple.
func (k *c16Checker) fuzzOne(r *Rand, fmtJSON *actionlint.ErrorFormatter) {
	c := k.c
	src := c16FuzzSource(r)
	nl := countLines(src)
	line := c16FuzzInt(r, nl)
	var ll int
	if l, ok := c16SourceLine(src, line); ok {
		ll = len(l)
	}
	col := c16FuzzInt(r, ll)
	msg := c16FuzzMsgs[r.Intn(len(c16FuzzMsgs))]
	e := &actionlint.Error{Message: msg, Filepath: "dir/f.yml", Line: line, Column: col, Kind: "kind-x"}
	var srcB []byte
	if src != "" || r.Bool() {
		srcB = []byte(src)
	}
	in := &c16Input{
		srcOf:  func(string) (string, bool) { return src, true },
		detail: map[string]interface{}{"family": k.tag, "line": line, "column": col, "message": msg},
	}
	if len(src) <= 4096 {
		in.detail["src"] = src
	} else {
		in.detail["src_prefix"] = src[:2048]
		in.detail["src_len"] = len(src)
		in.detail["src_line_lengths"] = func() []int {
			var o []int
			for _, l := range strings.Split(src, "\n") {
				o = append(o, len(l))
			}
			return o
		}()
	}
	c.Eval(1)
	c.Logf("triple line=%d col=%d lines=%d linelen=%d src=%q", line, col, nl, ll, truncate(src, 300))

	// PrettyPrint
	var buf bytes.Buffer
	if p := c16Recover(func() { e.PrettyPrint(&buf, srcB) }); p != "" {
		k.viol("C16:renderer-panic:PrettyPrint", "PrettyPrint panicked: "+p, in, nil)
		return
	}
	out := buf.String()
	header := fmt.Sprintf("dir/f.yml:%d:%d: %s [kind-x]", line, col, msg)
	if out != header+"\n" && !strings.HasPrefix(out, header+"\n ") {
		k.viol("C16:renderer-header-broken", fmt.Sprintf("PrettyPrint output does not start with the intact header line %q: %q", header, truncate(out, 300)), in, map[string]interface{}{"output": truncate(out, 4096)})
		return
	}
	if line >= 0 && col >= 0 && !strings.Contains(msg, " [") {
		k.checkPretty("fuzz-default", false, false, []*actionlint.Error{e}, out, in)
	} else {
		blocks, perr := c16ParsePretty(out, false)
		if perr != "" || len(blocks) != 1 {
			k.viol("C16:output-structure:fuzz-default", "PrettyPrint output is not a header with an optional snippet block: "+perr, in, map[string]interface{}{"output": truncate(out, 4096)})
			return
		}
		if blocks[0].HasSnippet {
			ex := func(m map[string]interface{}) map[string]interface{} {
				return map[string]interface{}{"output": truncate(out, 4096)}
			}
			k.checkSnippet("fuzz-default", false, e, src, blocks[0].LineNo, blocks[0].Src, blocks[0].Indicator, in, ex)
		}
	}
	shown := out != header+"\n"
	switch {
	case shown:
		k.cnt("snippet_shown")
		k.nontrivial(fmt.Sprintf("shown|%d|%d|%s", line, col, src))
	case line <= 0 || col < 0:
		k.cnt("nonpositive_position")
	case line > nl:
		k.cnt("line_beyond_eof")
	case col-1 > ll:
		k.cnt("column_beyond_eol")
	}
	if l, ok := c16SourceLine(src, line); ok && col >= 2 && col-1 < len(l) && !utf8.RuneStart(l[col-1]) {
		k.cnt("column_inside_rune")
	}
	if ll > 65000 {
		k.cnt("long_line")
	}

	// GetTemplateFields
	var f *actionlint.ErrorTemplateFields
	if p := c16Recover(func() { f = e.GetTemplateFields(srcB) }); p != "" {
		k.viol("C16:renderer-panic:GetTemplateFields", "GetTemplateFields panicked: "+p, in, nil)
		return
	}
	if f.Message != msg || f.Filepath != e.Filepath || f.Line != line || f.Column != col || f.Kind != e.Kind {
		k.viol("C16:template-fields-differ", fmt.Sprintf("GetTemplateFields changed a field: %+v", *f), in, nil)
		return
	}
	ex := func(m map[string]interface{}) map[string]interface{} {
		return map[string]interface{}{"fields": fmt.Sprintf("%+v", *f)}
	}
	if utf8.ValidString(src) {
		k.checkFields("fuzz-fields", e, src, f.Snippet, f.EndColumn, in, ex)
	} else if f.Snippet == "" && f.EndColumn != col {
		k.viol("C16:end-column-without-indicator", fmt.Sprintf("no indicator but end_column %d != column %d", f.EndColumn, col), in, ex(nil))
	}

	// ErrorFormatter with the JSON template (a share of the triples)
	if fmtJSON != nil && r.Chance(1, 4) {
		e2 := &actionlint.Error{Message: "second", Filepath: "dir/f.yml", Line: 1, Column: 1, Kind: "kind-y"}
		errs := []*actionlint.Error{e, e2}
		var jb bytes.Buffer
		var ferr error
		if p := c16Recover(func() { ferr = fmtJSON.PrintErrors(&jb, errs, srcB) }); p != "" {
			k.viol("C16:renderer-panic:PrintErrors", "ErrorFormatter.PrintErrors panicked: "+p, in, nil)
			return
		}
		if ferr != nil {
			k.viol("C16:formatter-error", "ErrorFormatter.PrintErrors failed: "+ferr.Error(), in, nil)
			return
		}
		k.checkJSON("fuzz-json", false, errs, jb.String(), in)
	}
}

func c16Recover(f func()) (p string) {
	defer func() {
		if x := recover(); x != nil {
			p = fmt.Sprint(x)
		}
	}()
	f()
	return ""
}

// ---------------------------------------------------------------------------

func runC16(r *Run) {
	r.Rule = "workflows from a model generator with nasty strings (line breaks via double-quoted escapes and block scalars, CR, tab, NUL, ANSI escapes, ' [x]', ':1:2: ', quotes, non-ASCII, wide runes) at user-string echo sites (keys, ids, labels, shells, globs, cron specs, input names, action refs, docker tags, expression literals, scopes, events, config labels/variables) in random scalar styles; byte-level hostile variants; mutated corpus files of <repo>/testdata; each linted in default, oneline, {{json .}} and two JSON-lines modes through one Linter call that returns []*Error and prints; multi-file runs through LintFiles and the real CLI (default, -no-color, -color, -oneline, -format). Renderer fuzz on (line, column, source) triples. Non-trivial = distinct message format (kind + static text) echoing user text that was compared / distinct triple whose snippet was shown."
	r.Assume("file names are sane: no ':' and no line breaks (the monitor uses w.yml-like names)")
	r.Assume("the problem-matcher regexp is evaluated with Go regexp (leftmost-first, like the JavaScript engine for this pattern) on each output line without its terminating line break")
	r.Assume("a line break in a message is what ends a line for the JavaScript regexp engine that evaluates the shipped problem matcher: LF, CR, U+2028, U+2029 ('.' matches none of them); U+0085 is matched by '.' there and is not judged")
	r.Assume("line N of a source is the N-th LF-separated line with one trailing CR removed (what the renderers define); whether Line agrees with the YAML parser's own line counting for sources containing lone CR / NEL / LS / PS is C07's business")
	r.Assume("JSON output is compared modulo what encoding/json can carry (invalid UTF-8 in the source line becomes U+FFFD)")

	m, err := c16LoadMatcher()
	if err != nil {
		r.Inconclusive("cannot load the shipped problem matcher: " + err.Error())
		return
	}
	r.Extra("matcher_regexp", m.pattern)

	scratch := mkScratch("c16")
	defer os.RemoveAll(scratch)

	corpus := c16Corpus()
	corpusSrc := make([]string, len(corpus))
	for i, f := range corpus {
		b, _ := os.ReadFile(f)
		corpusSrc[i] = string(b)
	}

	cfgFile := func(c *Case, text string) string {
		if text == "" {
			return ""
		}
		p := filepath.Join(scratch, fmt.Sprintf("cfg-%s-%d.yaml", c.Fam, c.Idx))
		if err := os.WriteFile(p, []byte(text), 0o644); err != nil {
			fmt.Fprintf(os.Stderr, "scratch write failed: %v\n", err)
			os.Exit(10)
		}
		return p
	}

	var fams []*Family

	fams = append(fams, &Family{Name: "nasty-workflows", N: r.Q(3000, 100000), Do: func(c *Case) {
		src, cfg, g := c16Workflow(c.R)
		k := &c16Checker{c: c, m: m, tag: "nasty-workflows"}
		c.Logf("source:\n%s\nconfig:\n%s", src, cfg)
		p := cfgFile(c, cfg)
		errs := k.lintAllModes(src, p, cfg)
		if p != "" {
			os.Remove(p)
		}
		k.record(errs, src)
		for _, e := range errs {
			if strings.HasPrefix(e.Message, "could not parse as YAML") {
				c.Count("generator_yaml_errors", 1)
				c.SetAdd("generator_yaml_error_messages", truncate(e.Message, 100))
			}
		}
		classes := make([]string, 0, len(g.used))
		for cl := range g.used {
			classes = append(classes, cl)
		}
		sort.Strings(classes)
		for _, cl := range classes {
			c.SetAdd("site_classes_with_nasty_string", cl)
		}
		k.flush()
		if (c.Idx < 6 && len(errs) > 0) || (c.Idx < 400 && len(errs) > 0 && len(errs) < 4 && c16HasNasty(errs[0].Message) && c.R.Intn(20) == 0) {
			c.Sample(map[string]interface{}{"src": src, "errors": c16ErrList(errs)})
		}
	}})

	fams = append(fams, &Family{Name: "hostile-bytes", N: r.Q(600, 20000), Do: func(c *Case) {
		var src string
		if len(corpusSrc) > 0 && c.R.Bool() {
			src = corpusSrc[c.R.Intn(len(corpusSrc))]
		} else {
			src, _, _ = c16Workflow(c.R)
		}
		src = c16Hostile(c.R, src)
		k := &c16Checker{c: c, m: m, tag: "hostile-bytes"}
		c.Logf("source:\n%q", src)
		errs := k.lintAllModes(src, "", "")
		k.record(errs, src)
		for _, e := range errs {
			if e.Line <= 0 || e.Column <= 0 {
				k.cnt("diagnostics_without_position")
			}
		}
		k.flush()
	}})

	fams = append(fams, &Family{Name: "corpus", N: len(corpus) * r.Q(3, 40), Do: func(c *Case) {
		if len(corpus) == 0 {
			return
		}
		fi := c.Idx % len(corpus)
		src := corpusSrc[fi]
		if c.Idx >= len(corpus) {
			src = c16CorpusMutate(c.R, src)
		}
		k := &c16Checker{c: c, m: m, tag: "corpus:" + filepath.Base(corpus[fi])}
		c.Logf("file %s source:\n%s", corpus[fi], src)
		errs := k.lintAllModes(src, "", "")
		k.record(errs, src)
		k.cnt("corpus_cases")
		k.flush()
	}})

	fams = append(fams, &Family{Name: "files-and-cli", N: r.Q(160, 2500), Do: func(c *Case) { c16CLICase(c, m, scratch) }})

	fams = append(fams, &Family{Name: "project", N: r.Q(800, 20000), Do: func(c *Case) { c16ProjectCase(c, m, scratch) }})

	fams = append(fams, &Family{Name: "tool-messages", N: r.Q(240, 6000), Do: func(c *Case) { c16ToolCase(c, m) }})

	fams = append(fams, &Family{Name: "renderer-fuzz", N: r.Q(100, 10000), Do: func(c *Case) {
		k := &c16Checker{c: c, m: m, tag: "renderer-fuzz", pfx: "fuzz_"}
		f, err := actionlint.NewErrorFormatter("{{json .}}")
		if err != nil {
			c.Violation("C16:formatter-error", "NewErrorFormatter({{json .}}) failed: "+err.Error(), nil)
			return
		}
		for i := 0; i < 1000; i++ {
			k.fuzzOne(c.R, f)
		}
		k.flush()
	}})

	r.RunFamilies(fams)
	if r.ReplayOf != nil {
		return
	}

	// coverage floors
	floor := func(name string, min int64) {
		if v := r.Counter(name); v < min {
			r.Inconclusive(fmt.Sprintf("coverage floor not met: %s = %d < %d", name, v, min))
		}
	}
	if os.Getenv("VERIF_ONLY_FAMILY") == "" {
		floor("headers_parsed_back", int64(r.Q(5000, 100000)))
		floor("headers_with_user_text_parsed_back", int64(r.Q(1000, 20000)))
		floor("snippets_checked", int64(r.Q(5000, 100000)))
		floor("carets_checked", int64(r.Q(5000, 100000)))
		floor("carets_checked_on_token", int64(r.Q(1000, 20000)))
		floor("json_objects_compared", int64(r.Q(5000, 100000)))
		floor("snippet_fields_checked", int64(r.Q(5000, 100000)))
		floor("end_columns_checked_with_underline", int64(r.Q(1000, 20000)))
		floor("fuzz_snippet_shown", int64(r.Q(5000, 500000)))
		floor("fuzz_line_beyond_eof", 1000)
		floor("fuzz_column_beyond_eol", 1000)
		floor("fuzz_column_inside_rune", 500)
		floor("fuzz_nonpositive_position", 1000)
		floor("fuzz_long_line", 100)
		floor("cli_runs", int64(r.Q(100, 2000)))
		floor("cli_color_headers_parsed_back", int64(r.Q(50, 1000)))
		floor("corpus_cases", 100)
		floor("project_cases_linted", int64(r.Q(600, 15000)))
		floor("tool_shellcheck_diagnostics", int64(r.Q(150, 4000)))
		floor("tool_pyflakes_diagnostics", int64(r.Q(150, 4000)))
		floor("tool_headers_parsed_back", int64(r.Q(200, 5000)))
		for _, t := range []string{"shellcheck", "pyflakes"} {
			if n := r.SetLen("tool_" + t + "_message_indexes"); n < c16ToolMsgCount {
				r.Inconclusive(fmt.Sprintf("coverage floor not met: only %d of the %d nasty tool messages reached a %s diagnostic", n, c16ToolMsgCount, t))
			}
		}
		for i := range c16RequiredSites {
			floor("site_"+c16RequiredSites[i].name, int64(r.Q(1, 25)))
		}
		if n := r.SetLen("echo_formats"); n < 60 {
			r.Inconclusive(fmt.Sprintf("coverage floor not met: only %d distinct message formats echoing user text were observed (< 60)", n))
		}
		if n := r.SetLen("kinds"); n < 12 {
			r.Inconclusive(fmt.Sprintf("coverage floor not met: only %d distinct diagnostic kinds were observed (< 12)", n))
		}
		if n := r.Counter("generator_yaml_errors"); n*20 > int64(r.Q(3000, 100000)) {
			r.Inconclusive(fmt.Sprintf("the workflow generator produced %d YAML syntax errors (more than 5%% of the workflows): emitter broken", n))
		}
	}
}
