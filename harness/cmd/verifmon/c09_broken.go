package main

// C09, broken local callees: a reusable workflow file that is missing, a directory, empty, not
// YAML, without workflow_call or with malformed inputs; an action.yml that is not YAML, empty, or
// lacks name / description / runs / the main file / steps / image, or names an unknown runner. The
// defect of a callee is reported once per run. "No error in one job hides diagnostics in another"
// then means: (a) the message texts reported about the callee are the same for every ordering of
// the jobs and every choice of the jobs that do not use it (dependants that need a user and read
// its outputs, unrelated jobs), and are not empty while a user exists; (b) they are located at a
// "uses:" of that callee; (c) they keep their rule kind. All other diagnostics of every job must
// equal those of the job alone with the jobs it needs.

import (
	"fmt"
	"sort"
	"strings"
)

type c09Broken struct {
	Name     string
	Workflow bool
	Rel      string // file / directory relative to the project root
	Silent   bool   // nothing is reported about it by design (control)
}

func (b c09Broken) spec() string { return "./" + b.Rel }

var c09BrokenCallees = []c09Broken{
	{Name: "wf-missing", Workflow: true, Rel: ".github/workflows/missing.yml"},
	{Name: "wf-not-yaml", Workflow: true, Rel: ".github/workflows/bad-yaml.yml"},
	{Name: "wf-no-workflow-call", Workflow: true, Rel: ".github/workflows/no-call.yml"},
	{Name: "wf-bad-inputs", Workflow: true, Rel: ".github/workflows/bad-inputs.yml"},
	{Name: "wf-directory", Workflow: true, Rel: ".github/workflows/a-dir.yml"},
	{Name: "wf-empty", Workflow: true, Rel: ".github/workflows/empty.yml"},
	{Name: "act-not-yaml", Rel: ".github/broken/bad-yaml"},
	{Name: "act-no-name", Rel: ".github/broken/no-name"},
	{Name: "act-no-description", Rel: ".github/broken/no-desc"},
	{Name: "act-no-runs", Rel: ".github/broken/no-runs"},
	{Name: "act-no-main-file", Rel: ".github/broken/no-main"},
	{Name: "act-unknown-runner", Rel: ".github/broken/bad-using"},
	{Name: "act-docker-no-image", Rel: ".github/broken/docker-no-image"},
	{Name: "act-composite-no-steps", Rel: ".github/broken/composite-no-steps"},
	{Name: "act-empty", Rel: ".github/broken/empty"},
	{Name: "act-absent", Rel: ".github/broken/absent", Silent: true},
}

// c09BrokenFiles returns the files of the broken callees (added to the scratch project).
func c09BrokenFiles() map[string]string {
	job := "jobs:\n  j:\n    runs-on: ubuntu-latest\n    steps:\n      - run: echo\n"
	return map[string]string{
		".github/workflows/bad-yaml.yml":               "on: [\n",
		".github/workflows/no-call.yml":                "on: push\n" + job,
		".github/workflows/bad-inputs.yml":             "on:\n  workflow_call:\n    inputs:\n      - a\n" + job,
		".github/workflows/a-dir.yml/f":                "x\n",
		".github/workflows/empty.yml":                  "",
		".github/broken/bad-yaml/action.yml":           "name: [\n",
		".github/broken/no-name/action.yml":            "description: d\nruns:\n  using: node20\n  main: index.js\n",
		".github/broken/no-name/index.js":              "\n",
		".github/broken/no-desc/action.yml":            "name: n\nruns:\n  using: node20\n  main: index.js\n",
		".github/broken/no-desc/index.js":              "\n",
		".github/broken/no-runs/action.yml":            "name: n\ndescription: d\n",
		".github/broken/no-main/action.yml":            "name: n\ndescription: d\nruns:\n  using: node20\n  main: index.js\n",
		".github/broken/bad-using/action.yml":          "name: n\ndescription: d\nruns:\n  using: node12\n  main: index.js\n",
		".github/broken/bad-using/index.js":            "\n",
		".github/broken/docker-no-image/action.yml":    "name: n\ndescription: d\nruns:\n  using: docker\n",
		".github/broken/composite-no-steps/action.yml": "name: n\ndescription: d\ninputs:\n  a:\n    required: true\nruns:\n  using: composite\n",
		".github/broken/empty/action.yml":              "",
		".github/broken/absent/README":                 "no action.yml here\n",
	}
}

// isDefectOf says whether the message is the once-per-run report about the callee itself (as
// opposed to checks of a call against its interface).
func (b c09Broken) isDefectOf(root, msg string) bool {
	if b.Workflow {
		return (strings.HasPrefix(msg, "could not read reusable workflow file for ") || strings.HasPrefix(msg, "error while parsing reusable workflow ")) && strings.Contains(msg, `"`+b.spec()+`"`)
	}
	return strings.Contains(msg, root+"/"+b.Rel+`"`) || strings.Contains(msg, root+"/"+b.Rel+"/action.y")
}

type c09BrokenJob struct {
	*c09Job
	Role   string // "user", "dependant", "unrelated"
	Callee int    // index into the case's callees for users (and for dependants: of the user they need)
}

func c09BrokenCase(c *Case, fam, root string) {
	r := c.R
	// callees of this case: one by rotation, sometimes a second one
	cs := []c09Broken{c09BrokenCallees[c.Idx%len(c09BrokenCallees)]}
	if r.Chance(1, 3) {
		o := c09BrokenCallees[r.Intn(len(c09BrokenCallees))]
		if o.Name != cs[0].Name {
			cs = append(cs, o)
		}
	}
	var jobs []*c09BrokenJob
	add := func(id string, needs []int, role string, callee int, lines []string) int {
		j := &c09Job{ID: id, Needs: needs, Head: append([]string{"  " + id + ":"}, lines...)}
		jobs = append(jobs, &c09BrokenJob{j, role, callee})
		return len(jobs) - 1
	}
	for ci, b := range cs {
		nu := r.Range(1, 3)
		if ci > 0 {
			nu = r.Range(1, 2)
		}
		c.SetAdd("broken_users_per_callee", fmt.Sprint(nu))
		var users []int
		for u := 0; u < nu; u++ {
			id := fmt.Sprintf("x%d%d", ci, u)
			var ls []string
			if b.Workflow {
				ls = append(ls, "    uses: "+b.spec())
				if r.Bool() {
					ls = append(ls, "    with:", "      a: "+r.Pick([]string{"1", "${{ github.sha }}", "${{ github.nope }}"}))
				}
				if r.Chance(1, 3) {
					ls = append(ls, "    secrets: inherit")
				}
			} else {
				ls = append(ls, "    runs-on: "+r.Pick([]string{"ubuntu-latest", "ubuntu-latest", "ubuntu-99.04"}), "    steps:")
				if r.Bool() {
					ls = append(ls, "      - run: echo "+r.Pick([]string{"hi", "${{ github.nope }}", "${{ steps.s0.outputs.x }}"}))
				}
				n := r.Range(1, 2)
				for k := 0; k < n; k++ {
					ls = append(ls, fmt.Sprintf("      - id: s%d", k), "        uses: "+b.spec())
					if r.Bool() {
						ls = append(ls, "        with:", "          a: "+r.Pick([]string{"1", "${{ github.sha }}"}))
					}
					ls = append(ls, fmt.Sprintf("      - run: echo ${{ steps.s%d.outputs.x }}", k))
				}
				if r.Bool() {
					ls = append(ls, "    outputs:", "      o: ${{ steps.s0.outputs.x }}")
				}
			}
			users = append(users, add(id, nil, "user", ci, ls))
		}
		// dependants: need one or two users and read their outputs
		nd := r.Range(0, 3)
		for d := 0; d < nd; d++ {
			u := users[r.Intn(len(users))]
			needs := []int{u}
			if len(users) > 1 && r.Chance(1, 3) {
				v := users[r.Intn(len(users))]
				if v != u {
					needs = append(needs, v)
				}
			}
			var names []string
			for _, n := range needs {
				names = append(names, jobs[n].ID)
			}
			ls := []string{"    needs: [" + strings.Join(names, ", ") + "]", "    runs-on: ubuntu-latest", "    steps:",
				"      - run: echo ${{ needs." + names[0] + ".outputs." + r.Pick([]string{"o", "x", "artifact"}) + " }}",
				"      - run: echo ${{ needs." + names[len(names)-1] + ".result }} " + r.Pick([]string{"", "${{ needs.nope.result }}"})}
			add(fmt.Sprintf("d%d%d", ci, d), needs, "dependant", ci, ls)
		}
	}
	nun := r.Range(0, 2)
	for u := 0; u < nun; u++ {
		add(fmt.Sprintf("z%d", u), nil, "unrelated", -1, []string{"    runs-on: ubuntu-latest", "    steps:", "      - run: echo " + r.Pick([]string{"hi", "${{ github.nope }}", "${{ needs.x00.result }}"}), "      - uses: actions/checkout@v4"})
	}
	plain := make([]*c09Job, len(jobs))
	for i, j := range jobs {
		plain[i] = j.c09Job
	}
	h := &c09Header{Lines: []string{"on: push", "jobs:"}}

	type obs struct {
		doc     *c09Doc
		defects [][]Diag            // per callee
		rest    map[string][]string // other diagnostics per job
		uses    []map[int]bool      // per callee: lines holding "uses: <spec>"
	}
	observe := func(order []int) *obs {
		d := c09Compose(h, plain, order)
		ds, err := c09LocalLint(root, d.Src)
		c.Eval(1)
		if err != nil {
			c.Violation("C09:"+fam+":fatal-error", "fatal error: "+err.Error(), map[string]interface{}{"src": d.Src})
			return nil
		}
		if c09HasYAMLError(ds) {
			c.Violation("C09:"+fam+":generator-emitted-invalid-yaml", "monitor bug: the generated workflow is not YAML", map[string]interface{}{"src": d.Src, "diags": diagStrings(ds)})
			return nil
		}
		o := &obs{doc: d, defects: make([][]Diag, len(cs))}
		var others []Diag
		for _, x := range ds {
			owner := -1
			for ci, b := range cs {
				if b.isDefectOf(root, x.Msg) {
					owner = ci
				}
			}
			if owner >= 0 {
				o.defects[owner] = append(o.defects[owner], x)
			} else {
				others = append(others, x)
			}
		}
		o.rest = d.buckets(others)
		lines := strings.Split(d.Src, "\n")
		for _, b := range cs {
			m := map[int]bool{}
			for i, l := range lines {
				if strings.TrimSpace(l) == "uses: "+b.spec() {
					m[i+1] = true
				}
			}
			o.uses = append(o.uses, m)
		}
		return o
	}
	msgs := func(ds []Diag, withKind bool) []string {
		var out []string
		for _, x := range ds {
			m := strings.ReplaceAll(x.Msg, root, "<root>")
			if withKind {
				out = append(out, m+" ["+x.Kind+"]")
			} else {
				out = append(out, m)
			}
		}
		sort.Strings(out)
		return out
	}

	// references: the users of one callee alone (source order of generation); every job alone with
	// the jobs it needs
	refMsg := make([][]string, len(cs))
	refKind := make([][]string, len(cs))
	for ci, b := range cs {
		var order []int
		for i, j := range jobs {
			if j.Role == "user" && j.Callee == ci {
				order = append(order, i)
			}
		}
		o := observe(order)
		if o == nil {
			return
		}
		refMsg[ci], refKind[ci] = msgs(o.defects[ci], false), msgs(o.defects[ci], true)
		c.SetAdd("broken_callees", b.Name)
		if len(refMsg[ci]) > 0 {
			c.SetAdd("broken_callees_reported", b.Name)
		} else if !b.Silent {
			c.Violation("C09:callee-defect:never-reported", fmt.Sprintf("the defect of %s (%s) is not reported although jobs use it", b.Name, b.spec()), map[string]interface{}{"src": o.doc.Src, "callee": b.Name})
			return
		}
	}
	refRest := map[string][]string{}
	refSrc := map[string]string{}
	for i, j := range jobs {
		o := observe(c09Closure(plain, []int{i}))
		if o == nil {
			return
		}
		refRest[j.ID], refSrc[j.ID] = o.rest[j.ID], o.doc.Src
	}
	c.Nontrivial(fam + "|" + fmt.Sprint(c.Idx) + "|" + cs[0].Name)

	n := len(jobs)
	byRole := func(roles ...string) []int {
		var out []int
		for _, role := range roles {
			for i, j := range jobs {
				if j.Role == role {
					out = append(out, i)
				}
			}
		}
		return out
	}
	var orders [][]int
	orders = append(orders, byRole("dependant", "user", "unrelated"), byRole("user", "dependant", "unrelated"), byRole("unrelated", "dependant", "user"), byRole("user", "unrelated"))
	rev := byRole("user", "unrelated", "dependant")
	for i, k := 0, len(rev)-1; i < k; i, k = i+1, k-1 {
		rev[i], rev[k] = rev[k], rev[i]
	}
	orders = append(orders, rev)
	for v := 0; v < 6; v++ {
		var order []int
		for _, p := range r.Perm(n) {
			if jobs[p].Role != "user" && v >= 3 && r.Chance(1, 3) {
				continue // dependant or unrelated job absent
			}
			order = append(order, p)
		}
		orders = append(orders, order)
	}
	for _, order := range orders {
		o := observe(order)
		if o == nil {
			return
		}
		var ids []string
		for _, i := range order {
			ids = append(ids, jobs[i].ID)
		}
		for ci, b := range cs {
			// where is the first user, and is a dependant of this callee's users written before it?
			first := -1
			for k, i := range order {
				if jobs[i].Role == "user" && jobs[i].Callee == ci {
					first = k
					break
				}
			}
			depBefore, depAfter, depAny := false, false, false
			for k, i := range order {
				if jobs[i].Role == "dependant" && jobs[i].Callee == ci {
					depAny = true
					if k < first {
						depBefore = true
					} else {
						depAfter = true
					}
				}
			}
			kindName := map[bool]string{true: "workflow", false: "action"}[b.Workflow]
			switch {
			case depBefore:
				c.Count("broken_"+kindName+"_dependant_before_first_user", 1)
			case depAfter:
				c.Count("broken_"+kindName+"_dependant_only_after", 1)
			case !depAny:
				c.Count("broken_"+kindName+"_no_dependant", 1)
			}
			detail := map[string]interface{}{"src": o.doc.Src, "callee": b.Name, "spec": b.spec(), "order": ids, "dependant_before_first_user": depBefore,
				"expected_messages_as_with_users_only": refKind[ci], "observed": msgs(o.defects[ci], true)}
			for _, x := range o.defects[ci] {
				if !o.uses[ci][x.Line] {
					c.Violation("C09:callee-defect:reported-away-from-users", fmt.Sprintf("the defect of %s is reported at line %d, which is not a \"uses:\" of it", b.Name, x.Line), detail)
					return
				}
			}
			got := msgs(o.defects[ci], false)
			if !c09Equal(got, refMsg[ci]) {
				sig := "C09:callee-defect:reports-differ-between-orderings"
				if len(got) == 0 {
					sig = "C09:callee-defect:not-reported-in-some-ordering"
				}
				c.Logf("callee %s, order %v\n  with users only: %q\n  here: %q\n%s", b.Name, ids, refMsg[ci], got, o.doc.Src)
				c.Violation(sig, fmt.Sprintf("the reports about the broken callee %s (%s) change with the order / presence of jobs that do not use it (order %v): %d instead of %d reports", b.Name, b.spec(), ids, len(got), len(refMsg[ci])), detail)
				return
			}
			if gk := msgs(o.defects[ci], true); !c09Equal(gk, refKind[ci]) {
				sig := "C09:callee-defect:kind-differs-between-orderings"
				if depBefore {
					sig = "C09:callee-defect:kind-depends-on-dependant-position"
				}
				c.Logf("callee %s, order %v\n  with users only: %q\n  here: %q\n%s", b.Name, ids, refKind[ci], gk, o.doc.Src)
				c.Violation(sig, fmt.Sprintf("the report about the broken callee %s (%s) keeps its text and position but changes its rule kind with the order of the jobs (order %v)", b.Name, b.spec(), ids), detail)
				// this is a difference of the kind only: go on with the other checks
			}
		}
		c.Count("broken_orderings", 1)
		for _, i := range order {
			id := jobs[i].ID
			if c09Equal(o.rest[id], refRest[id]) {
				continue
			}
			onlyRef, onlyGot := c09Diff(refRest[id], o.rest[id])
			c.Violation(c09Sig("broken-callee", onlyRef, onlyGot),
				fmt.Sprintf("diagnostics of job %q (other than the report about the broken callee) differ between the composed workflow (jobs %v) and the workflow with only that job and the jobs it needs", id, ids),
				map[string]interface{}{"src": o.doc.Src, "src_alone": refSrc[id], "job": id, "order": ids, "expected_only_alone": onlyRef, "observed_only_composed": onlyGot})
			return
		}
	}
	if c.Idx == 0 {
		o := observe(orders[0])
		if o != nil {
			c.Sample(map[string]interface{}{"family": fam, "callee": cs[0].Name, "src": o.doc.Src, "defect_reports": msgs(o.defects[0], true)})
		}
	}
}
