package main

// C16, family tool-messages: the shellcheck and pyflakes rules embed the message of an external,
// user-selected executable (-shellcheck / -pyflakes, LinterOptions.Shellcheck / Pyflakes) in their
// diagnostics. The stand-in tool <bin dir>/faketool answers a marker "FT:issues=<n>,msg=<k>" in the
// script with n issues carrying entry k of its table of nasty messages (LF, CR, CRLF, NUL, ANSI
// escapes, U+0085, U+2028, ":1:2: x [y]", "%s", 70 KB, invalid UTF-8, JSON escapes, ...). The usual
// oracles apply: no line break in Message, one header line per diagnostic in default / oneline mode,
// problem-matcher round trip, JSON round trip.

import (
	"fmt"
	"os"
	"path/filepath"
	"strings"
)

// c16ToolMsgCount is the size of nastyMessages in cmd/faketool (indexes are taken modulo the table
// size there, so a larger table only means that some entries are not selected).
const c16ToolMsgCount = 22

func c16ToolCase(c *Case, m *c16Matcher) {
	r := c.R
	tool := filepath.Join(binDir(), "faketool")
	if _, err := os.Stat(tool); err != nil {
		c.Count("tool_missing", 1)
		return
	}
	k := &c16Checker{c: c, m: m, tag: "tool-messages", pfx: "tool_", shellcheck: tool, pyflakes: tool}
	defer k.flush()

	// the first 2*c16ToolMsgCount cases walk through the table (one tool each), the rest is random
	fixed := -1
	onlyPy := false
	if c.Idx < 2*c16ToolMsgCount {
		fixed = c.Idx / 2
		onlyPy = c.Idx%2 == 1
	}
	sameMsg := fixed
	if fixed < 0 && r.Bool() {
		sameMsg = r.Intn(c16ToolMsgCount)
	}
	pick := func() int {
		if sameMsg >= 0 {
			return sameMsg
		}
		return r.Intn(c16ToolMsgCount)
	}

	b := NewYB()
	b.L(0, "on: push")
	wfPython := fixed < 0 && r.Chance(1, 6)
	if wfPython {
		b.L(0, "defaults:")
		b.L(2, "run:")
		b.L(4, "shell: python")
	}
	b.L(0, "jobs:")
	b.L(2, "t:")
	b.L(4, "runs-on: ubuntu-latest")
	jobPython := fixed < 0 && !wfPython && r.Chance(1, 6)
	if jobPython {
		b.L(4, "defaults:")
		b.L(6, "run:")
		b.L(8, "shell: python")
	}
	b.L(4, "steps:")
	type stepInfo struct {
		py  bool
		msg int
		n   int
	}
	var steps []stepInfo
	ns := r.Range(1, 3)
	if fixed >= 0 {
		ns = 1
	}
	for i := 0; i < ns; i++ {
		py := r.Bool()
		if fixed >= 0 {
			py = onlyPy
		}
		st := stepInfo{py: py, msg: pick(), n: r.Range(1, 2)}
		marker := fmt.Sprintf("FT:issues=%d,msg=%d", st.n, st.msg)
		if py {
			switch r.Intn(3) {
			case 0:
				b.L(6, "- run: |")
				b.L(10, "print(1)  # "+marker)
				b.L(10, "import os")
			case 1:
				b.L(6, "- run: 'print(2)  # "+marker+"'")
			default:
				b.L(6, "- name: py")
				b.L(8, "run: |")
				b.L(10, "# "+marker)
				b.L(10, "print(3)")
			}
			if !(wfPython || jobPython) || r.Bool() {
				b.L(8, "shell: python")
			}
		} else {
			sh := r.Pick([]string{"bash", "sh", "bash -e {0}", "sh -e {0}"})
			switch r.Intn(3) {
			case 0:
				b.L(6, "- run: |")
				b.L(10, "echo hi  # "+marker)
				b.L(10, "echo $FOO")
			case 1:
				b.L(6, "- run: echo 2 '"+marker+"'")
			default:
				b.L(6, "- name: sh")
				b.L(8, "run: >-")
				b.L(10, "echo 3")
				b.L(10, "# "+marker)
			}
			b.L(8, "shell: "+sh)
		}
		steps = append(steps, st)
	}
	src := b.String()
	c.Logf("source:\n%s", src)

	errs := k.lintAllModes(src, "", "")
	if errs == nil {
		k.cnt("lint_failed_or_no_diagnostics")
	}
	k.record(errs, src)
	nsc, npy := 0, 0
	for _, e := range errs {
		switch e.Kind {
		case "shellcheck":
			nsc++
		case "pyflakes":
			npy++
		default:
			k.viol("C16:tool-family-unexpected-diagnostic", fmt.Sprintf("unexpected diagnostic in a tool-messages workflow: %q [%s]", e.Message, e.Kind), &c16Input{detail: map[string]interface{}{"src": src}}, nil)
		}
	}
	c.Count("tool_shellcheck_diagnostics", nsc)
	c.Count("tool_pyflakes_diagnostics", npy)
	for _, st := range steps {
		if st.py && npy > 0 {
			c.SetAdd("tool_pyflakes_message_indexes", fmt.Sprint(st.msg))
		}
		if !st.py && nsc > 0 {
			c.SetAdd("tool_shellcheck_message_indexes", fmt.Sprint(st.msg))
		}
	}
	if len(errs) > 0 {
		var ms []string
		for _, st := range steps {
			ms = append(ms, fmt.Sprintf("%v/%d", st.py, st.msg))
		}
		c.Nontrivial("tool|" + strings.Join(ms, ","))
	}
}
