package main

// C03 — family "expr-before": sibling configurations in which an EARLIER element of a sequence or
// an EARLIER value of a mapping is a (valid) whole-value ${{ }} expression of some static type.
// Code that walks a list / mapping and leaves early when it meets an expression-valued element
// (early return instead of continue, giving up on the rest after a type that cannot be merged, ...)
// skips the later elements; their scalars are mutated here.

import (
	"fmt"
	"strings"

	"gopkg.in/yaml.v3"
)

type c03ExprCand struct{ Kind, Text string }

// whole-value expressions by static type class; which of them is legal at a position is decided by
// linting the variant (only clean variants are used)
var c03ExprCands = []c03ExprCand{
	{"any", "${{ fromJSON(github.event.client_payload.extra) }}"},
	{"any-needs", "${{ fromJSON(needs.prep.outputs.inc) }}"},
	{"object", `${{ fromJSON('{"a":1}') }}`},
	{"array", `${{ fromJSON('[1,2]') }}`},
	{"array-of-objects", `${{ fromJSON('[{"a":1}]') }}`},
	{"string", "${{ github.sha }}"},
	{"number", "${{ 1 }}"},
	{"bool", "${{ true }}"},
}

type c03ContRef struct {
	Path []c03Step
	Node *yaml.Node
}

// c03Containers lists every mapping and sequence of the document with its path, in document order.
func c03Containers(doc *yaml.Node) []c03ContRef {
	var out []c03ContRef
	var walk func(n *yaml.Node, path []c03Step)
	walk = func(n *yaml.Node, path []c03Step) {
		switch n.Kind {
		case yaml.MappingNode:
			out = append(out, c03ContRef{append([]c03Step(nil), path...), n})
			for i := 0; i+1 < len(n.Content); i += 2 {
				walk(n.Content[i+1], append(path, c03Step{Key: n.Content[i].Value, Idx: i + 1}))
			}
		case yaml.SequenceNode:
			out = append(out, c03ContRef{append([]c03Step(nil), path...), n})
			for i, c := range n.Content {
				walk(c, append(path, c03Step{Idx: i, Seq: true}))
			}
		}
	}
	if doc.Kind == yaml.DocumentNode && len(doc.Content) == 1 {
		walk(doc.Content[0], nil)
	}
	return out
}

func c03ExprNode(text string) *yaml.Node {
	return &yaml.Node{Kind: yaml.ScalarNode, Tag: "!!str", Value: text}
}

// c03ExprVariant decodes src, replaces element pos (sequence) / the value of pair pos (mapping) of
// the contIdx-th container by the expression, or inserts a new element / a new pair with key C03X
// holding it before position pos, and re-encodes.
func c03ExprVariant(src string, contIdx, pos int, insert bool, text string) (string, []c03Step, bool) {
	var doc yaml.Node
	if err := yaml.Unmarshal([]byte(src), &doc); err != nil {
		return "", nil, false
	}
	conts := c03Containers(&doc)
	if contIdx >= len(conts) {
		return "", nil, false
	}
	ct := conts[contIdx]
	n := ct.Node
	e := c03ExprNode(text)
	switch {
	case n.Kind == yaml.SequenceNode && insert:
		if pos > len(n.Content) {
			return "", nil, false
		}
		nc := append([]*yaml.Node{}, n.Content[:pos]...)
		nc = append(nc, e)
		n.Content = append(nc, n.Content[pos:]...)
	case n.Kind == yaml.SequenceNode:
		if pos >= len(n.Content) {
			return "", nil, false
		}
		n.Content[pos] = e
	case insert:
		if 2*pos > len(n.Content) {
			return "", nil, false
		}
		nc := append([]*yaml.Node{}, n.Content[:2*pos]...)
		nc = append(nc, &yaml.Node{Kind: yaml.ScalarNode, Tag: "!!str", Value: "C03X"}, e)
		n.Content = append(nc, n.Content[2*pos:]...)
	default:
		if 2*pos+1 >= len(n.Content) {
			return "", nil, false
		}
		n.Content[2*pos+1] = e
	}
	out, err := c03Encode(&doc)
	if err != nil {
		return "", nil, false
	}
	return out, ct.Path, true
}

type c03ExprCase struct {
	base    c03Base
	contIdx int
	isSeq   bool
	pos     int
	insert  bool
}

func c03ExprCases(bases []c03Base) []c03ExprCase {
	var out []c03ExprCase
	for _, b := range bases {
		var doc yaml.Node
		if yaml.Unmarshal([]byte(b.Src), &doc) != nil {
			continue
		}
		for i, ct := range c03Containers(&doc) {
			if ct.Node.Kind == yaml.SequenceNode {
				// replace element pos when later elements exist; insert before every element
				for pos := 0; pos < len(ct.Node.Content); pos++ {
					if pos+1 < len(ct.Node.Content) {
						out = append(out, c03ExprCase{b, i, true, pos, false})
					}
					out = append(out, c03ExprCase{b, i, true, pos, true})
				}
				continue
			}
			np := len(ct.Node.Content) / 2
			if np < 1 {
				continue
			}
			for pos := 0; pos < np; pos++ {
				if np >= 2 {
					out = append(out, c03ExprCase{b, i, false, pos, false})
				}
				out = append(out, c03ExprCase{b, i, false, pos, true})
			}
		}
	}
	return out
}

func c03DoExprCase(c *Case, v c03ExprCase) {
	for _, cand := range c03ExprCands {
		vs, cpath, ok := c03ExprVariant(v.base.Src, v.contIdx, v.pos, v.insert, cand.Text)
		if !ok {
			continue
		}
		ds, err := lintSrc(vs)
		c.Eval(1)
		if err != nil || len(ds) > 0 {
			c.Count("exprvar_unclean", 1)
			if v.insert && !v.isSeq && len(ds) > 0 && strings.Contains(ds[0].Msg, "unexpected key \"C03X\"") {
				break // the mapping has a fixed key set: no candidate can be clean
			}
			continue
		}
		c.Count("exprvar_clean", 1)
		c.Count("exprvar_clean_"+cand.Kind, 1)
		op := "replace"
		if v.insert {
			op = "insert"
		}
		// the step below the container that holds the expression itself
		exprIdx := v.pos
		if !v.isSeq {
			exprIdx = 2*v.pos + 1
		}
		depth := len(cpath)
		opt := &c03Opt{Tag: "after_expr_map"}
		if v.isSeq {
			opt.Tag = "after_expr_seq"
			opt.Keep = func(p []c03Step) bool { return len(p) > depth && p[depth].Idx > exprIdx }
		} else {
			opt.Keep = func(p []c03Step) bool { return len(p) > depth && p[depth].Idx != exprIdx }
		}
		maxDepth := -1
		if !c.Thorough() {
			// quick: one closed form (and sometimes the unclosed one) per scalar
			opt.Forms = []int{c.R.Intn(4)}
			if c.R.Intn(4) == 0 {
				opt.Forms = append(opt.Forms, 4)
			}
			if !v.isSeq {
				maxDepth = 3
			}
		} else if !v.isSeq && !v.base.Tmpl {
			maxDepth = 3
		}
		name := fmt.Sprintf("%s~expr[%s %s %s at %s#%d]", v.base.Name, op, cand.Kind, map[bool]string{true: "element", false: "value"}[v.isSeq], c03PathString(cpath), v.pos)
		c03MutateOpt(c, name, vs, cpath, maxDepth, false, false, opt)
	}
}

// ---------------------------------------------------------------------------
// family "saturated": greedily turn every scalar value of a base into a valid whole-value
// expression (kept only when the workflow stays clean), then sweep the result. Whatever comes
// before a mutated scalar – at any nesting level – is then mostly expression-valued.

var c03SaturateCands = []c03ExprCand{
	{"any", "${{ fromJSON(github.event.client_payload.extra) }}"},
	{"string", "${{ github.sha }}"},
	{"bool", "${{ true }}"},
	{"number", "${{ 1 }}"},
}

// c03Saturate returns the saturated source and the number of scalars that were replaced.
func c03Saturate(c *Case, src string) (string, int) {
	var doc yaml.Node
	if err := yaml.Unmarshal([]byte(src), &doc); err != nil {
		return "", 0
	}
	cur, err := c03Encode(&doc)
	if err != nil {
		return "", 0
	}
	if ds, err := lintSrc(cur); err != nil || len(ds) > 0 {
		return "", 0
	}
	replaced := 0
	for si, sc := range c03Scalars(&doc) {
		n := sc.Node
		if c03IsNull(n) || strings.Contains(n.Value, "${{") {
			continue
		}
		old := *n
		start := (si + c.R.Intn(len(c03SaturateCands))) % len(c03SaturateCands)
		for k := 0; k < len(c03SaturateCands); k++ {
			cand := c03SaturateCands[(start+k)%len(c03SaturateCands)]
			n.Value, n.Tag, n.Style = cand.Text, "!!str", 0
			out, err := c03Encode(&doc)
			if err == nil {
				ds, lerr := lintSrc(out)
				c.Eval(1)
				if lerr == nil && len(ds) == 0 {
					cur = out
					replaced++
					c.Count("saturated_"+cand.Kind, 1)
					break
				}
			}
			*n = old
		}
	}
	return cur, replaced
}

func c03DoSaturated(c *Case, b c03Base) {
	vs, n := c03Saturate(c, b.Src)
	if vs == "" {
		return
	}
	c.Count("saturated_scalars", n)
	c.Count("saturated_bases", 1)
	opt := &c03Opt{Tag: "in_saturated"}
	if !c.Thorough() {
		opt.Forms = []int{c.R.Intn(4), 4}
	}
	c03MutateOpt(c, b.Name+"~saturated", vs, nil, -1, false, false, opt)
}
