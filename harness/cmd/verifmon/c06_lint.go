package main

// C06 level (b): a generated workflow that is clean with literal definitions must stay clean when
// ONE definition is replaced by a dynamic / unknown one (matrix row, row value, include value,
// include element, include section, whole matrix given by fromJSON(...); workflow_dispatch input
// without a type; workflow_call input shadowed by an untyped workflow_dispatch input of the same
// name; popular or local action -> unknown action / action with dynamic outputs; job with declared
// outputs or local reusable workflow -> reusable workflow that cannot be resolved).

import (
	"fmt"
	"io"
	"os"
	"path/filepath"
	"regexp"
	"strconv"
	"strings"

	"github.com/rhysd/actionlint"
)

// ---------------------------------------------------------------------------
// literal matrix values

type c06Val struct {
	K     c06Kind
	S     string
	Names []string
	Kids  []*c06Val
	Dyn   string // when set, the value is written as this ${{ }} expression instead
}

// plain strings that are also valid runner labels (a row may be used at runs-on)
var c06Words = []string{"ubuntu-latest", "windows-latest", "macos-latest", "ubuntu-22.04", "linux", "x64", "arm64", "self-hosted"}
var c06Nums = []string{"1", "2", "16", "2.5", "20", "3", "7"}

func c06GenVal(r *Rand, depth int) *c06Val {
	x := r.Intn(100)
	switch {
	case depth > 0 && x < 18:
		v := &c06Val{K: c06Obj}
		for _, n := range c06PickNames(r, r.Range(1, 3)) {
			v.Names = append(v.Names, n)
			v.Kids = append(v.Kids, c06GenVal(r, depth-1))
		}
		return v
	case depth > 0 && x < 30:
		v := &c06Val{K: c06Arr}
		first := c06GenVal(r, depth-1)
		v.Kids = append(v.Kids, first)
		for i := r.Intn(3); i > 0; i-- {
			v.Kids = append(v.Kids, first.vary(r))
		}
		return v
	case x < 70:
		return &c06Val{K: c06Str, S: r.Pick(c06Words)}
	case x < 88:
		return &c06Val{K: c06Num, S: r.Pick(c06Nums)}
	case x < 97:
		return &c06Val{K: c06Bool, S: r.Pick([]string{"true", "false"})}
	}
	return &c06Val{K: c06Null, S: "null"}
}

// vary returns a value of the same shape with other scalars.
func (v *c06Val) vary(r *Rand) *c06Val {
	n := &c06Val{K: v.K, S: v.S, Names: v.Names}
	switch v.K {
	case c06Str:
		n.S = r.Pick(c06Words)
	case c06Num:
		n.S = r.Pick(c06Nums)
	case c06Bool:
		n.S = r.Pick([]string{"true", "false"})
	}
	for _, k := range v.Kids {
		n.Kids = append(n.Kids, k.vary(r))
	}
	return n
}

func (v *c06Val) clone() *c06Val {
	n := *v
	n.Kids = nil
	for _, k := range v.Kids {
		n.Kids = append(n.Kids, k.clone())
	}
	return &n
}

func (v *c06Val) yaml() string {
	if v.Dyn != "" {
		return c06Quote("${{ " + v.Dyn + " }}")
	}
	switch v.K {
	case c06Obj:
		parts := make([]string, len(v.Kids))
		for i, k := range v.Kids {
			parts[i] = v.Names[i] + ": " + k.yaml()
		}
		return "{" + strings.Join(parts, ", ") + "}"
	case c06Arr:
		parts := make([]string, len(v.Kids))
		for i, k := range v.Kids {
			parts[i] = k.yaml()
		}
		return "[" + strings.Join(parts, ", ") + "]"
	}
	return v.S
}

// json writes the value as JSON text (for fromJSON('...') literals; no single quotes inside).
func (v *c06Val) json() string {
	switch v.K {
	case c06Obj:
		parts := make([]string, len(v.Kids))
		for i, k := range v.Kids {
			parts[i] = `"` + v.Names[i] + `": ` + k.json()
		}
		return "{" + strings.Join(parts, ", ") + "}"
	case c06Arr:
		parts := make([]string, len(v.Kids))
		for i, k := range v.Kids {
			parts[i] = k.json()
		}
		return "[" + strings.Join(parts, ", ") + "]"
	case c06Str:
		return `"` + v.S + `"`
	}
	return v.S
}

// ty models checkRawYAMLValue (generator guidance only).
func (v *c06Val) ty() *c06Ty {
	switch v.K {
	case c06Obj:
		t := &c06Ty{K: c06Obj}
		for i, k := range v.Kids {
			t.Names = append(t.Names, v.Names[i])
			t.Props = append(t.Props, k.ty())
		}
		return t
	case c06Arr:
		e := v.Kids[0].ty()
		for _, k := range v.Kids[1:] {
			e = c06Merge(e, k.ty())
		}
		return c06ArrOf(e)
	}
	return &c06Ty{K: v.K}
}

// c06OtherShape returns a literal whose shape conflicts with v (object next to scalar and v.v.).
func c06OtherShape(r *Rand, v *c06Val) *c06Val {
	if v.K == c06Obj || v.K == c06Arr {
		if r.Chance(1, 4) {
			return &c06Val{K: c06Num, S: r.Pick(c06Nums)}
		}
		return &c06Val{K: c06Str, S: r.Pick(c06Words)}
	}
	o := &c06Val{K: c06Obj}
	for _, n := range c06PickNames(r, r.Range(1, 2)) {
		o.Names = append(o.Names, n)
		o.Kids = append(o.Kids, &c06Val{K: c06Str, S: r.Pick(c06Words)})
	}
	return o
}

// c06ObjKey picks a property name of an object among the values (or any key).
func c06ObjKey(r *Rand, vs []*c06Val) string {
	for _, v := range vs {
		for _, n := range v.nodes() {
			if n.K == c06Obj && len(n.Names) > 0 {
				return n.Names[r.Intn(len(n.Names))]
			}
		}
	}
	return r.Pick(c06KeyPool)
}

// literal-typed include elements (keys disjoint from every other matrix key)
var c06TypedIncPool = []c06Root{
	{2, `fromJSON('{"jos": "linux", "jn": 1}')`, c06ObjOf(nil, "jos", c06TStr, "jn", c06TNum)},
	{2, `fromJSON('{"jcfg": {"a": "x"}}')`, c06ObjOf(nil, "jcfg", c06ObjOf(nil, "a", c06TStr))},
	{2, `fromJson('{"jflag": true}')`, c06ObjOf(nil, "jflag", c06TBool)},
}

// nodes lists all value nodes (for choosing the one to make dynamic).
func (v *c06Val) nodes() []*c06Val {
	out := []*c06Val{v}
	for _, k := range v.Kids {
		out = append(out, k.nodes()...)
	}
	return out
}

func c06Quote(s string) string { return "'" + strings.ReplaceAll(s, "'", "''") + "'" }

// ---------------------------------------------------------------------------
// workflow model

type c06Row struct {
	Name string
	Vals []*c06Val
	Expr string // row given by an expression
}

type c06Inc struct {
	Names []string
	Vals  []*c06Val
	Expr  string // element given by an (any-typed) expression
	// element that is given by a literal-typed expression already in the literal workflow
	// (fromJSON('{...}'), typed as a closed object)
	TypedExpr string
	TypedT    *c06Ty
}

type c06Matrix struct {
	Rows    []*c06Row
	Inc     []*c06Inc
	IncExpr string
	Expr    string
	// the matrix of the LITERAL workflow is given by one expression of closed object type
	// ("matrix: ${{ fromJSON('{...}') }}", "matrix: ${{ needs.prep.outputs }}")
	BaseExpr       string
	BaseT          *c06Ty // model of checkMatrixExpression's result
	BaseAllStr     bool   // flat object of strings, no include
	BaseIncUntyped string // the same expression with an "include" array that is not array<object>
}

func (m *c06Matrix) clone() *c06Matrix {
	n := &c06Matrix{IncExpr: m.IncExpr, Expr: m.Expr, BaseExpr: m.BaseExpr, BaseT: m.BaseT, BaseAllStr: m.BaseAllStr, BaseIncUntyped: m.BaseIncUntyped}
	for _, r := range m.Rows {
		nr := &c06Row{Name: r.Name, Expr: r.Expr}
		for _, v := range r.Vals {
			nr.Vals = append(nr.Vals, v.clone())
		}
		n.Rows = append(n.Rows, nr)
	}
	for _, i := range m.Inc {
		ni := &c06Inc{Names: i.Names, Expr: i.Expr, TypedExpr: i.TypedExpr, TypedT: i.TypedT}
		for _, v := range i.Vals {
			ni.Vals = append(ni.Vals, v.clone())
		}
		n.Inc = append(n.Inc, ni)
	}
	return n
}

// ty models checkMatrix for literal definitions.
func (m *c06Matrix) ty() *c06Ty {
	if m.BaseExpr != "" {
		return m.BaseT
	}
	o := &c06Ty{K: c06Obj}
	for _, r := range m.Rows {
		t := r.Vals[0].ty()
		for _, v := range r.Vals[1:] {
			t = c06Merge(t, v.ty())
		}
		o.Names = append(o.Names, r.Name)
		o.Props = append(o.Props, t)
	}
	for _, inc := range m.Inc {
		if inc.TypedExpr != "" {
			o = c06Merge(o, inc.TypedT)
			continue
		}
		for i, n := range inc.Names {
			t := inc.Vals[i].ty()
			found := false
			for j := range o.Names {
				if o.Names[j] == n {
					o.Props[j] = c06Merge(o.Props[j], t)
					found = true
				}
			}
			if !found {
				o.Names = append(o.Names, n)
				o.Props = append(o.Props, t)
			}
		}
	}
	return o
}

func (m *c06Matrix) write(b *YB, indent int) {
	if m.Expr != "" {
		b.Lf(indent, "matrix: %s", c06Quote("${{ "+m.Expr+" }}"))
		return
	}
	if m.BaseExpr != "" {
		b.Lf(indent, "matrix: %s", c06Quote("${{ "+m.BaseExpr+" }}"))
		return
	}
	b.L(indent, "matrix:")
	for _, r := range m.Rows {
		if r.Expr != "" {
			b.Lf(indent+2, "%s: %s", r.Name, c06Quote("${{ "+r.Expr+" }}"))
			continue
		}
		parts := make([]string, len(r.Vals))
		for i, v := range r.Vals {
			parts[i] = v.yaml()
		}
		b.Lf(indent+2, "%s: [%s]", r.Name, strings.Join(parts, ", "))
	}
	if m.IncExpr != "" {
		b.Lf(indent+2, "include: %s", c06Quote("${{ "+m.IncExpr+" }}"))
		return
	}
	if len(m.Inc) > 0 {
		b.L(indent+2, "include:")
		for _, inc := range m.Inc {
			if inc.Expr != "" {
				b.Lf(indent+4, "- %s", c06Quote("${{ "+inc.Expr+" }}"))
				continue
			}
			if inc.TypedExpr != "" {
				b.Lf(indent+4, "- %s", c06Quote("${{ "+inc.TypedExpr+" }}"))
				continue
			}
			for i, n := range inc.Names {
				lead := "  "
				if i == 0 {
					lead = "- "
				}
				b.Lf(indent+4, "%s%s: %s", lead, n, inc.Vals[i].yaml())
			}
		}
	}
}

type c06Input struct {
	Name    string
	Type    string // boolean number string choice environment; "" = no type given
	Options bool
	Default string // workflow_call only: default given by an expression (complete YAML scalar)
}

type c06Wf struct {
	Mode     string     // plain | conflict | norows | incconflict (shape of the build matrix)
	Forced   int        // number of forced uses
	MapElem  bool       // the build include has the element ${{ needs.prep.outputs }} conflicting with row y
	Dispatch []c06Input // workflow_dispatch inputs
	Call     []c06Input // workflow_call inputs (always typed)
	Twin     string     // name of a workflow_call input that also exists as an untyped workflow_dispatch input

	PrepRemote bool // job "prep" is a call of a reusable workflow that cannot be resolved

	Build      *c06Matrix
	BuildSlots map[string]string
	BuildSteps []map[string]string
	CoAction   string // checkout | unknown | script | pathsfilter
	CacheKnown bool

	CallM      *c06Matrix
	CallRemote bool
	CallSlots  map[string]string

	ActLocal   bool
	AfterSteps []map[string]string
}

func (w *c06Wf) clone() *c06Wf {
	n := *w
	n.Dispatch = append([]c06Input(nil), w.Dispatch...)
	n.Call = append([]c06Input(nil), w.Call...)
	n.Build = w.Build.clone()
	n.CallM = w.CallM.clone()
	return &n
}

func c06WriteInputs(b *YB, indent int, ins []c06Input) {
	b.L(indent, "inputs:")
	for _, in := range ins {
		b.Lf(indent+2, "%s:", in.Name)
		b.L(indent+4, "description: d")
		if in.Type != "" {
			b.Lf(indent+4, "type: %s", in.Type)
		}
		if in.Options {
			b.L(indent+4, "options: [a, b]")
		}
		if in.Default != "" {
			b.Lf(indent+4, "default: %s", in.Default)
		}
	}
}

func c06WriteSlot(b *YB, indent int, key string, slots map[string]string, slot string) {
	if v, ok := slots[slot]; ok {
		b.Lf(indent, "%s: %s", key, v)
	}
}

func c06WriteSteps(b *YB, steps []map[string]string) {
	for _, s := range steps {
		b.Lf(6, "- run: %s", c06Or(s["step-run"], "echo"))
		c06WriteSlot(b, 8, "name", s, "step-name")
		c06WriteSlot(b, 8, "if", s, "step-if")
		c06WriteSlot(b, 8, "timeout-minutes", s, "step-timeout")
		c06WriteSlot(b, 8, "continue-on-error", s, "step-coe")
		c06WriteSlot(b, 8, "working-directory", s, "step-wd")
		if v, ok := s["step-envobj"]; ok {
			b.Lf(8, "env: %s", v)
		} else if v, ok := s["step-env"]; ok {
			b.L(8, "env:")
			b.Lf(10, "SOME_VAR: %s", v)
		}
	}
}

func c06Or(a, b string) string {
	if a != "" {
		return a
	}
	return b
}

func (w *c06Wf) render() string {
	b := NewYB()
	b.L(0, "on:")
	b.L(2, "push:")
	disp := append([]c06Input(nil), w.Dispatch...)
	if w.Twin != "" {
		disp = append(disp, c06Input{Name: w.Twin})
	}
	b.L(2, "workflow_dispatch:")
	c06WriteInputs(b, 4, disp)
	b.L(2, "workflow_call:")
	c06WriteInputs(b, 4, w.Call)
	b.L(0, "jobs:")
	// prep
	b.L(2, "prep:")
	if w.PrepRemote {
		b.L(4, "uses: octo-org/some-repo/.github/workflows/prepare.yml@v1")
	} else {
		b.L(4, "runs-on: ubuntu-latest")
		b.L(4, "outputs:")
		b.L(6, "y: '${{ steps.s.outputs.v }}'")
		b.L(6, "z: lit")
		b.L(4, "steps:")
		b.L(6, "- id: s")
		b.L(6, "  run: echo \"v=1\" >> \"$GITHUB_OUTPUT\"")
	}
	// build
	b.L(2, "build:")
	b.L(4, "needs: [prep]")
	b.L(4, "strategy:")
	c06WriteSlot(b, 6, "fail-fast", w.BuildSlots, "fail-fast")
	c06WriteSlot(b, 6, "max-parallel", w.BuildSlots, "max-parallel")
	w.Build.write(b, 6)
	b.Lf(4, "runs-on: %s", c06Or(w.BuildSlots["runs-on"], "ubuntu-latest"))
	c06WriteSlot(b, 4, "if", w.BuildSlots, "job-if")
	c06WriteSlot(b, 4, "timeout-minutes", w.BuildSlots, "job-timeout")
	c06WriteSlot(b, 4, "continue-on-error", w.BuildSlots, "job-coe")
	if v, ok := w.BuildSlots["job-env"]; ok {
		b.L(4, "env:")
		b.Lf(6, "JOB_VAR: %s", v)
	}
	if v, ok := w.BuildSlots["job-out"]; ok {
		b.L(4, "outputs:")
		b.Lf(6, "o1: %s", v)
	}
	b.L(4, "steps:")
	switch w.CoAction {
	case "checkout":
		b.L(6, "- uses: actions/checkout@v4")
		b.L(6, "  id: co")
	case "unknown":
		b.L(6, "- uses: octo-org/unknown-action@v1")
		b.L(6, "  id: co")
	case "script":
		b.L(6, "- uses: actions/github-script@v7")
		b.L(6, "  id: co")
		b.L(6, "  with:")
		b.L(6, "    script: return 1")
	case "pathsfilter":
		b.L(6, "- uses: dorny/paths-filter@v3")
		b.L(6, "  id: co")
		b.L(6, "  with:")
		b.L(6, "    filters: x")
	}
	if w.CacheKnown {
		b.L(6, "- uses: actions/cache@v4")
	} else {
		b.L(6, "- uses: octo-org/other-cache@v2")
	}
	b.L(6, "  id: cache")
	b.L(6, "  with:")
	b.L(6, "    path: x")
	b.Lf(6, "    key: %s", c06Or(w.BuildSlots["step-with"], "k"))
	c06WriteSteps(b, w.BuildSteps)
	// call
	b.L(2, "call:")
	b.L(4, "needs: [prep]")
	b.L(4, "strategy:")
	w.CallM.write(b, 6)
	c06WriteSlot(b, 4, "if", w.CallSlots, "job-if")
	if w.CallRemote {
		b.L(4, "uses: octo-org/some-repo/.github/workflows/callee.yml@v1")
	} else {
		b.L(4, "uses: ./.github/workflows/callee.yml")
	}
	b.L(4, "with:")
	b.Lf(6, "num: %s", c06Or(w.CallSlots["with-num"], "1"))
	b.Lf(6, "str: %s", c06Or(w.CallSlots["with-str"], "x"))
	b.Lf(6, "flag: %s", c06Or(w.CallSlots["with-flag"], "true"))
	// after
	b.L(2, "after:")
	b.L(4, "needs: [call]")
	b.L(4, "runs-on: ubuntu-latest")
	b.L(4, "steps:")
	if w.ActLocal {
		b.L(6, "- uses: ./act")
	} else {
		b.L(6, "- uses: octo-org/remote-act@v3")
	}
	b.L(6, "  id: act")
	c06WriteSteps(b, w.AfterSteps)
	return b.String()
}

const c06CalleeYAML = `on:
  workflow_call:
    inputs:
      num:
        type: number
      str:
        type: string
      flag:
        type: boolean
    outputs:
      result:
        description: d
        value: x
      other:
        description: d
        value: y
jobs:
  j:
    runs-on: ubuntu-latest
    steps:
      - run: echo
`

const c06ActionYAML = `name: act
description: d
inputs:
  in1:
    description: d
    required: false
outputs:
  out1:
    description: d
  out2:
    description: d
runs:
  using: node20
  main: index.js
`

// ---------------------------------------------------------------------------
// generation

var c06DynPool = []string{"fromJSON(needs.prep.outputs.y)", "fromJSON(needs.prep.outputs.y).k9", "fromJSON(needs.prep.outputs.z)[0]", "github.event.alpha", "fromJSON(vars.some_key)", "fromJson(github.event.zz).other"}

func c06InputTy(t string) *c06Ty {
	switch t {
	case "boolean":
		return c06TBool
	case "number":
		return c06TNum
	case "":
		return c06TAny
	}
	return c06TStr
}

// roots available at workflow key `key` given the job's context models.
func c06RootsFor(key string, ctx map[string]*c06Ty, eventInputs *c06Ty) (roots []c06Root, status, hash bool) {
	avail, special := actionlint.WorkflowKeyAvailability(key)
	has := map[string]bool{}
	for _, a := range avail {
		has[a] = true
	}
	for _, n := range []string{"matrix", "steps", "needs", "inputs"} {
		if t, ok := ctx[n]; ok && has[n] {
			roots = append(roots, c06Root{0, n, t})
		}
	}
	for _, b := range c06BuiltinRoots() {
		if has[b.Name] {
			roots = append(roots, b)
		}
	}
	if has["secrets"] {
		roots = append(roots, c06Root{1, "secrets", c06ObjOf(c06TStr)})
	}
	if has["github"] && eventInputs != nil {
		roots = append(roots, c06Root{1, "github.event.inputs", eventInputs})
	}
	roots = append(roots, c06JSONRoots...)
	for _, s := range special {
		if s == "hashfiles" {
			hash = true
		}
		if s == "success" {
			status = true
		}
	}
	return
}

// c06ModelEnv builds an API-level environment from the context models, used to pre-filter the
// generated use sites with the real checker (guidance only; the verdict comes from Linter.Lint).
func c06ModelEnv(ctx map[string]*c06Ty) *c06Env {
	e := &c06Env{}
	for _, n := range c06CtxNames {
		if t, ok := ctx[n]; ok {
			e.Ty = append(e.Ty, t)
		} else {
			e.Ty = append(e.Ty, c06ObjOf(nil))
		}
	}
	return e
}

type c06SlotSpec struct {
	Slot string
	Key  string
	Want []c06Want
	Form string // one | tpl | cond
}

var c06BuildJobSlots = []c06SlotSpec{
	{"job-if", "jobs.<job_id>.if", []c06Want{c06WAny, c06WBool}, "cond"},
	{"runs-on", "jobs.<job_id>.runs-on", []c06Want{c06WStrOnly, c06WArr}, "one"},
	{"job-timeout", "jobs.<job_id>.timeout-minutes", []c06Want{c06WNum}, "one"},
	{"job-coe", "jobs.<job_id>.continue-on-error", []c06Want{c06WBool}, "one"},
	{"fail-fast", "jobs.<job_id>.strategy", []c06Want{c06WBool}, "one"},
	{"max-parallel", "jobs.<job_id>.strategy", []c06Want{c06WNum}, "one"},
	{"job-env", "jobs.<job_id>.env", []c06Want{c06WScalar}, "tpl"},
	{"job-out", "jobs.<job_id>.outputs.<output_id>", []c06Want{c06WScalar}, "tpl"},
}

// input of step "cache": only step "co" precedes it
var c06CacheWithSlot = c06SlotSpec{"step-with", "jobs.<job_id>.steps.with", []c06Want{c06WScalar}, "tpl"}

var c06StepSlots = []c06SlotSpec{
	{"step-run", "jobs.<job_id>.steps.run", []c06Want{c06WScalar}, "tpl"},
	{"step-name", "jobs.<job_id>.steps.name", []c06Want{c06WScalar}, "tpl"},
	{"step-if", "jobs.<job_id>.steps.if", []c06Want{c06WAny, c06WBool}, "cond"},
	{"step-timeout", "jobs.<job_id>.steps.timeout-minutes", []c06Want{c06WNum}, "one"},
	{"step-coe", "jobs.<job_id>.steps.continue-on-error", []c06Want{c06WBool}, "one"},
	{"step-wd", "jobs.<job_id>.steps.working-directory", []c06Want{c06WScalar}, "tpl"},
	{"step-env", "jobs.<job_id>.steps.env", []c06Want{c06WScalar}, "tpl"},
	{"step-envobj", "jobs.<job_id>.steps.env", []c06Want{c06WObj}, "one"},
}

var c06CallJobSlots = []c06SlotSpec{
	{"job-if", "jobs.<job_id>.if", []c06Want{c06WAny}, "cond"},
	{"with-num", "jobs.<job_id>.with.<with_id>", []c06Want{c06WNum}, "one"},
	{"with-str", "jobs.<job_id>.with.<with_id>", []c06Want{c06WStr}, "one"},
	{"with-flag", "jobs.<job_id>.with.<with_id>", []c06Want{c06WAny}, "one"},
}

type c06JobGen struct {
	r    *Rand
	ctx  map[string]*c06Ty
	ev   *c06Ty
	menv *c06Env
	gens map[string]*c06Gen
}

func c06NewJobGen(r *Rand, ctx map[string]*c06Ty, eventInputs *c06Ty) *c06JobGen {
	return &c06JobGen{r: r, ctx: ctx, ev: eventInputs, menv: c06ModelEnv(ctx), gens: map[string]*c06Gen{}}
}

// one generates one expression for a slot, pre-filtered through the real checker on the model.
func (j *c06JobGen) one(sp c06SlotSpec, w c06Want, tplPos bool) string {
	g := j.gens[sp.Key]
	if g == nil {
		roots, status, hash := c06RootsFor(sp.Key, j.ctx, j.ev)
		g = c06NewGenOpt(j.r, roots, status, hash, true)
		g.noise = 2
		j.gens[sp.Key] = g
	}
	var e *c06E
	for try := 0; try < 5; try++ {
		e = g.expr(w, j.r.Range(0, 2))
		if strings.Contains(e.S, "github.event.inputs") || strings.Contains(strings.ToLower(e.S), "secrets") {
			break // not modelled in the API-level environment; let the linter decide
		}
		res := c06Run(j.menv, e.S)
		if res.Parse != "" || len(res.Errs) > 0 {
			continue
		}
		ok := true
		if tplPos || w == c06WScalar {
			ok = !(strings.HasPrefix(res.Ty, "{") || strings.HasPrefix(res.Ty, "array") || res.Ty == "null" || res.Ty == "object")
		}
		switch w {
		case c06WStr:
			ok = res.Ty == "string" || res.Ty == "number" || res.Ty == "any"
		case c06WStrOnly:
			ok = res.Ty == "string" || res.Ty == "any"
		case c06WArr:
			ok = strings.HasPrefix(res.Ty, "array") || res.Ty == "any"
		case c06WNum:
			ok = res.Ty == "number" || res.Ty == "any"
		case c06WBool:
			ok = res.Ty == "bool" || res.Ty == "any"
		case c06WObj:
			ok = strings.HasPrefix(res.Ty, "{") || res.Ty == "object" || res.Ty == "any"
		}
		if ok {
			break
		}
	}
	return e.S
}

func (j *c06JobGen) slot(sp c06SlotSpec) string {
	w := sp.Want[j.r.Intn(len(sp.Want))]
	switch sp.Form {
	case "one":
		return c06Quote("${{ " + j.one(sp, w, false) + " }}")
	case "cond":
		if j.r.Bool() {
			return c06Quote(j.one(sp, w, false))
		}
		// a condition written with ${{ }} is also checked as a template value
		return c06Quote("${{ " + j.one(sp, w, true) + " }}")
	}
	var b strings.Builder
	b.WriteString(j.r.Pick([]string{"echo ", "pre-", "", "x "}))
	for i := j.r.Range(1, 2); i > 0; i-- {
		b.WriteString("${{ " + j.one(sp, w, true) + " }}")
		b.WriteString(j.r.Pick([]string{"", " ", "-post", "/dir"}))
	}
	return c06Quote(b.String())
}

func (j *c06JobGen) slots(specs []c06SlotSpec, num, den int) map[string]string {
	m := map[string]string{}
	for _, sp := range specs {
		if j.r.Chance(num, den) {
			m[sp.Slot] = j.slot(sp)
		}
	}
	return m
}

func c06StepsModel(ids map[string]*c06Ty) *c06Ty {
	t := &c06Ty{K: c06Obj}
	for _, id := range []string{"co", "cache", "act"} {
		if o, ok := ids[id]; ok {
			t.Names = append(t.Names, id)
			t.Props = append(t.Props, c06ObjOf(nil, "outputs", o, "conclusion", c06TStr, "outcome", c06TStr))
		}
	}
	return t
}

func c06GenWf(r *Rand) *c06Wf {
	w := &c06Wf{CoAction: "checkout", CacheKnown: true, ActLocal: true}
	// inputs
	types := []string{"boolean", "number", "string", "choice", "environment"}
	names := []string{"d_flag", "d_count", "d_who", "d_pick", "d_env"}
	for _, i := range r.Perm(5)[:r.Range(1, 4)] {
		w.Dispatch = append(w.Dispatch, c06Input{Name: names[i], Type: types[i], Options: types[i] == "choice"})
	}
	ctypes := []string{"boolean", "number", "string"}
	cnames := []string{"w_flag", "w_count", "w_name"}
	for _, i := range r.Perm(3)[:r.Range(1, 3)] {
		w.Call = append(w.Call, c06Input{Name: cnames[i], Type: ctypes[i]})
	}
	inputs := &c06Ty{K: c06Obj}
	for _, in := range w.Call {
		inputs.Names = append(inputs.Names, in.Name)
		inputs.Props = append(inputs.Props, c06InputTy(in.Type))
	}
	evIn := &c06Ty{K: c06Obj}
	for _, in := range w.Dispatch {
		inputs.Names = append(inputs.Names, in.Name)
		inputs.Props = append(inputs.Props, c06InputTy(in.Type))
		evIn.Names = append(evIn.Names, in.Name)
		evIn.Props = append(evIn.Props, c06TStr)
	}
	// defaults of typed workflow_call inputs: checked against the declared type; only the
	// workflow_dispatch inputs (declared above them) are referenced
	dg := c06NewJobGen(r, map[string]*c06Ty{"inputs": func() *c06Ty {
		t := &c06Ty{K: c06Obj}
		for _, in := range w.Dispatch {
			t.Names = append(t.Names, in.Name)
			t.Props = append(t.Props, c06InputTy(in.Type))
		}
		return t
	}()}, evIn)
	for i, in := range w.Call {
		if r.Chance(1, 2) {
			want := map[string]c06Want{"boolean": c06WBool, "number": c06WNum, "string": c06WScalar}[in.Type]
			w.Call[i].Default = dg.slot(c06SlotSpec{"call-default", "on.workflow_call.inputs.<inputs_id>.default", []c06Want{want}, "one"})
		}
	}
	needsPrep := c06ObjOf(nil, "prep", c06ObjOf(nil, "outputs", c06ObjOf(nil, "y", c06TStr, "z", c06TStr), "result", c06TStr))

	// build job. Three shapes of literal matrix:
	//  plain    - all values of a key have the same shape
	//  conflict - some rows / nested arrays mix shapes (object next to scalar ...): the precise
	//             Merge is any (or string), uses dereference through it; replacing ONE element by an
	//             any-typed expression keeps the row any wherever the element stands
	//  norows   - no rows; include = literal elements followed by elements given by literal-typed
	//             expressions (closed objects), so that after replacing a literal element by an
	//             any-typed expression an open object WITHOUT properties is merged with closed ones
	//  incconflict - rows (plain or conflicting) AND include elements whose literal values conflict in
	//             shape with the row of the same key, or with another include element defining the
	//             same new key: the key is any only because of an include literal, and the forced
	//             uses dereference through it. Replacing ONE include element (first, middle, last) or
	//             the whole include section by an expression of unknown / open type must keep them
	//             accepted: such an element may give any key any type.
	//  exprmatrix - the whole matrix is ONE expression of closed object type with the used keys
	//             (fromJSON of a literal, optionally with "include"/"exclude" members; the declared
	//             outputs of job prep). It is replaced by the same object opened (|| github.event keeps
	//             the known keys; github.event alone; a {string => string} object for flat string
	//             objects), by an any-typed expression, and by the literal with an "include" member that
	//             is not array<object>.
	mode := []string{"plain", "plain", "conflict", "conflict", "norows", "incconflict", "incconflict", "exprmatrix", "exprmatrix"}[r.Intn(9)]
	w.Mode = mode
	rowConflict := mode == "conflict" || mode == "incconflict" && r.Chance(1, 3)
	w.Build = &c06Matrix{}
	var forced []string
	rowNames := c06PickNames(r, r.Range(1, 4))
	if mode == "norows" || mode == "exprmatrix" {
		rowNames = nil
	}
	for _, n := range rowNames {
		first := c06GenVal(r, 2)
		if rowConflict && r.Chance(1, 3) && first.K != c06Arr {
			// nested array whose elements conflict
			first = &c06Val{K: c06Arr, Kids: []*c06Val{first, c06OtherShape(r, first)}}
			if r.Bool() {
				first.Kids[0], first.Kids[1] = first.Kids[1], first.Kids[0]
			}
		}
		row := &c06Row{Name: n, Vals: []*c06Val{first}}
		seen := map[string]bool{first.yaml(): true}
		for i := r.Intn(3); i > 0; i-- {
			v := first.vary(r)
			if rowConflict && r.Chance(2, 3) {
				v = c06OtherShape(r, first)
			}
			if !seen[v.yaml()] { // the matrix rule reports duplicate values
				seen[v.yaml()] = true
				row.Vals = append(row.Vals, v)
			}
		}
		if rowConflict && r.Bool() {
			p := r.Perm(len(row.Vals))
			vs := make([]*c06Val, len(p))
			for i, j := range p {
				vs[i] = row.Vals[j]
			}
			row.Vals = vs
		}
		w.Build.Rows = append(w.Build.Rows, row)
		if rowConflict {
			// a use that is accepted only because the precise merge is any
			t := row.Vals[0].ty()
			for _, v := range row.Vals[1:] {
				t = c06Merge(t, v.ty())
			}
			key := c06ObjKey(r, row.Vals)
			switch {
			case t.K == c06Any:
				forced = append(forced, "matrix."+n+"."+key)
			case t.K == c06Arr && t.Elem.K == c06Any:
				forced = append(forced, "matrix."+n+"[0]."+key)
			}
		}
	}
	// All literal values of one matrix key have the same shape: then replacing a literal by a
	// dynamic value only removes information. (With conflicting literals actionlint's Merge falls
	// back to any, and REMOVING one of them makes the type more precise, which is not a loosening.)
	proto := map[string]*c06Val{}
	for k := r.Intn(3); k > 0; k-- {
		inc := &c06Inc{}
		used := map[string]bool{}
		for a := r.Range(1, 2); a > 0; a-- {
			if r.Bool() && len(w.Build.Rows) > 0 {
				row := w.Build.Rows[r.Intn(len(w.Build.Rows))]
				if !used[row.Name] {
					used[row.Name] = true
					inc.Names = append(inc.Names, row.Name)
					inc.Vals = append(inc.Vals, row.Vals[0].vary(r))
				}
			} else {
				n := r.Pick([]string{"extra", "exp", "more"})
				if !used[n] {
					used[n] = true
					if proto[n] == nil {
						proto[n] = c06GenVal(r, 1)
					}
					inc.Names = append(inc.Names, n)
					inc.Vals = append(inc.Vals, proto[n].vary(r))
				}
			}
		}
		if len(inc.Names) > 0 {
			w.Build.Inc = append(w.Build.Inc, inc)
		}
	}
	if mode == "incconflict" {
		w.Build.Inc = nil
		nInc := r.Range(2, 3)
		for i := 0; i < nInc; i++ {
			w.Build.Inc = append(w.Build.Inc, &c06Inc{})
		}
		add := func(i int, name string, v *c06Val) {
			inc := w.Build.Inc[i]
			for _, n := range inc.Names {
				if n == name {
					return
				}
			}
			inc.Names = append(inc.Names, name)
			inc.Vals = append(inc.Vals, v)
		}
		rowTy := func(row *c06Row) *c06Ty {
			t := row.Vals[0].ty()
			for _, v := range row.Vals[1:] {
				t = c06Merge(t, v.ty())
			}
			return t
		}
		// a row key whose include value has another shape than the row
		var cands []*c06Row
		for _, row := range w.Build.Rows {
			if k := rowTy(row).K; k != c06Any {
				cands = append(cands, row)
			}
		}
		if len(cands) > 0 {
			row := cands[r.Intn(len(cands))]
			v := c06OtherShape(r, row.Vals[0])
			add(r.Intn(nInc), row.Name, v)
			if c06Merge(rowTy(row), v.ty()).K == c06Any {
				forced = append(forced, "matrix."+row.Name+"."+c06ObjKey(r, append([]*c06Val{v}, row.Vals...)))
			}
		}
		// a new key defined with conflicting shapes by the first and the last element
		key := r.Pick([]string{"extra", "exp", "more"})
		v1 := c06GenVal(r, 1)
		v2 := c06OtherShape(r, v1)
		if r.Bool() {
			v1, v2 = v2, v1
		}
		add(0, key, v1)
		add(nInc-1, key, v2)
		if c06Merge(v1.ty(), v2.ty()).K == c06Any {
			forced = append(forced, "matrix."+key+"."+c06ObjKey(r, []*c06Val{v1, v2}))
		}
		for _, inc := range w.Build.Inc {
			if len(inc.Names) == 0 {
				add2 := "filler"
				inc.Names = append(inc.Names, add2)
				inc.Vals = append(inc.Vals, &c06Val{K: c06Str, S: r.Pick(c06Words)})
			}
		}
	}
	if mode == "incconflict" && r.Chance(1, 3) {
		// an include element of closed all-string object type (the declared outputs of job prep) that
		// conflicts with a row of objects: matrix.y is any. When prep becomes a call of an unknown
		// reusable workflow the element is a {string => string} object, which may still define y.
		yv := &c06Val{K: c06Obj, Names: []string{"name"}, Kids: []*c06Val{{K: c06Str, S: r.Pick(c06Words)}}}
		hasY := false
		for _, row := range w.Build.Rows {
			if row.Name == "y" {
				hasY = true
			}
		}
		if !hasY {
			w.Build.Rows = append(w.Build.Rows, &c06Row{Name: "y", Vals: []*c06Val{yv}})
			el := &c06Inc{TypedExpr: "needs.prep.outputs", TypedT: c06ObjOf(nil, "y", c06TStr, "z", c06TStr)}
			at := r.Intn(len(w.Build.Inc) + 1)
			w.Build.Inc = append(w.Build.Inc[:at], append([]*c06Inc{el}, w.Build.Inc[at:]...)...)
			forced = append(forced, "matrix.y."+r.Pick([]string{"name", "k9"}))
			w.MapElem = true
		}
	}
	if mode == "exprmatrix" {
		w.Build.Inc = nil
		if r.Chance(1, 4) {
			w.Build.BaseExpr = "needs.prep.outputs"
			w.Build.BaseT = c06ObjOf(nil, "y", c06TStr, "z", c06TStr)
			w.Build.BaseAllStr = true
			forced = append(forced, r.Pick([]string{"matrix.y", "matrix['z']", "matrix.Z"}))
		} else {
			obj := &c06Val{K: c06Obj}
			allStr := r.Chance(1, 3)
			for _, n := range c06PickNames(r, r.Range(1, 3)) {
				obj.Names = append(obj.Names, n)
				if allStr {
					obj.Kids = append(obj.Kids, &c06Val{K: c06Str, S: r.Pick(c06Words)})
				} else {
					obj.Kids = append(obj.Kids, c06GenVal(r, 2))
				}
			}
			t := obj.ty()
			members := obj.json()
			members = members[1 : len(members)-1]
			incOnly := ""
			var elems []string
			if !allStr && r.Bool() {
				// "include": elements add keys / repeat keys with the same shape
				for k := r.Range(1, 2); k > 0; k-- {
					el := &c06Val{K: c06Obj}
					if r.Bool() {
						i := r.Intn(len(obj.Names))
						el.Names = append(el.Names, obj.Names[i])
						el.Kids = append(el.Kids, obj.Kids[i].vary(r))
					}
					name := r.Pick([]string{"extra", "exp"})
					if proto[name] == nil {
						proto[name] = c06GenVal(r, 1)
					}
					el.Names = append(el.Names, name)
					el.Kids = append(el.Kids, proto[name].vary(r))
					incOnly = name
					elems = append(elems, el.json())
					for i, n := range el.Names {
						if p := t.prop(n); p != nil {
							for j := range t.Names {
								if t.Names[j] == n {
									t.Props[j] = c06Merge(p, el.Kids[i].ty())
								}
							}
						} else {
							t.Names = append(t.Names, n)
							t.Props = append(t.Props, el.Kids[i].ty())
						}
					}
				}
			}
			excl := ""
			if r.Chance(1, 5) {
				excl = `, "exclude": [{"` + obj.Names[0] + `": ` + obj.Kids[0].json() + `}]`
			}
			if len(elems) > 0 {
				w.Build.BaseExpr = "fromJSON('{" + members + `, "include": [` + strings.Join(elems, ", ") + "]" + excl + "}')"
				if r.Chance(2, 3) {
					w.Build.BaseIncUntyped = "fromJSON('{" + members + `, "include": [` + strings.Join(elems, ", ") + ", 1]" + excl + "}')"
				} else {
					w.Build.BaseIncUntyped = "fromJSON('{" + members + `, "include": []` + excl + "}')"
				}
			} else {
				w.Build.BaseExpr = "fromJSON('{" + members + excl + "}')"
			}
			w.Build.BaseT = t
			w.Build.BaseAllStr = allStr
			use := obj.Names[0]
			if incOnly != "" {
				use = incOnly
			}
			if k := t.prop(use).K; k == c06Str || k == c06Num || k == c06Bool {
				forced = append(forced, r.Pick([]string{"matrix." + use, "matrix['" + use + "']"}))
			} else {
				forced = append(forced, "toJSON(matrix."+use+")")
			}
		}
	}
	if mode == "norows" {
		w.Build.Inc = nil
		for k := r.Range(1, 2); k > 0; k-- {
			inc := &c06Inc{}
			for _, n := range r.Perm(3)[:r.Range(1, 2)] {
				name := []string{"extra", "exp", "more"}[n]
				if proto[name] == nil {
					proto[name] = c06GenVal(r, 1)
				}
				inc.Names = append(inc.Names, name)
				inc.Vals = append(inc.Vals, proto[name].vary(r))
			}
			w.Build.Inc = append(w.Build.Inc, inc)
		}
		for _, i := range r.Perm(len(c06TypedIncPool))[:r.Range(1, 2)] {
			w.Build.Inc = append(w.Build.Inc, &c06Inc{TypedExpr: c06TypedIncPool[i].Name, TypedT: c06TypedIncPool[i].T})
		}
		// a use of a key that only the literal elements define
		first := w.Build.Inc[0]
		if first.Vals[0].K != c06Obj && first.Vals[0].K != c06Arr && first.Vals[0].K != c06Null {
			forced = append(forced, "matrix."+first.Names[0])
		} else {
			forced = append(forced, "toJSON(matrix."+first.Names[0]+")")
		}
	}
	buildCtx := map[string]*c06Ty{
		"matrix": w.Build.ty(), "needs": needsPrep, "inputs": inputs,
		"steps": c06StepsModel(map[string]*c06Ty{"co": c06ObjOf(nil, "commit", c06TStr, "ref", c06TStr), "cache": c06ObjOf(nil, "cache-hit", c06TStr)}),
	}
	jg := c06NewJobGen(r, buildCtx, evIn)
	w.BuildSlots = jg.slots(c06BuildJobSlots, 2, 5)
	if r.Chance(2, 5) {
		wctx := map[string]*c06Ty{"matrix": buildCtx["matrix"], "needs": needsPrep, "inputs": inputs,
			"steps": c06StepsModel(map[string]*c06Ty{"co": c06ObjOf(nil, "commit", c06TStr, "ref", c06TStr)})}
		w.BuildSlots["step-with"] = c06NewJobGen(r, wctx, evIn).slot(c06CacheWithSlot)
	}
	for k := r.Range(1, 2); k > 0; k-- {
		w.BuildSteps = append(w.BuildSteps, jg.slots(c06StepSlots, 2, 5))
	}
	w.Forced = len(forced)
	for _, f := range forced {
		w.BuildSteps = append(w.BuildSteps, map[string]string{"step-run": c06Quote("echo ${{ " + f + " }}")})
	}

	// call job
	w.CallM = &c06Matrix{Rows: []*c06Row{
		{Name: "n", Vals: []*c06Val{{K: c06Num, S: "1"}, {K: c06Num, S: "2"}}},
		{Name: "s", Vals: []*c06Val{{K: c06Str, S: "linux"}, {K: c06Str, S: "x64"}}},
		{Name: "b", Vals: []*c06Val{{K: c06Bool, S: "true"}, {K: c06Bool, S: "false"}}},
	}}
	if r.Bool() {
		w.CallM.Inc = []*c06Inc{{Names: []string{"n", "o"}, Vals: []*c06Val{{K: c06Num, S: "16"}, {K: c06Obj, Names: []string{"k"}, Kids: []*c06Val{{K: c06Num, S: "20"}}}}}}
	}
	cg := c06NewJobGen(r, map[string]*c06Ty{"matrix": w.CallM.ty(), "needs": needsPrep, "inputs": inputs}, evIn)
	w.CallSlots = cg.slots(c06CallJobSlots, 3, 4)

	// after job
	needsCall := c06ObjOf(nil, "call", c06ObjOf(nil, "outputs", c06ObjOf(nil, "result", c06TStr, "other", c06TStr), "result", c06TStr))
	ag := c06NewJobGen(r, map[string]*c06Ty{"needs": needsCall, "inputs": inputs,
		"steps": c06StepsModel(map[string]*c06Ty{"act": c06ObjOf(nil, "out1", c06TStr, "out2", c06TStr)})}, evIn)
	for k := r.Range(1, 2); k > 0; k-- {
		w.AfterSteps = append(w.AfterSteps, ag.slots(c06StepSlots, 2, 5))
	}
	return w
}

var c06ElemRe = regexp.MustCompile(`include element (\d+) of (\d+)`)

// c06ElemPos: position class of the replaced include element named in a variant description.
func c06ElemPos(desc string) string {
	m := c06ElemRe.FindStringSubmatch(desc)
	if m == nil {
		return "none"
	}
	i, _ := strconv.Atoi(m[1])
	n, _ := strconv.Atoi(m[2])
	switch {
	case n == 1:
		return "only"
	case i == 0:
		return "first"
	case i == n-1:
		return "last"
	}
	return "middle"
}

type c06Variant struct {
	Kind string
	Desc string
	Wf   *c06Wf
}

func c06MatrixVariants(r *Rand, w *c06Wf, pick func(*c06Wf) *c06Matrix, tag string) []c06Variant {
	var out []c06Variant
	dyn := func() string { return r.Pick(c06DynPool) }
	base := pick(w)
	for ri, row := range base.Rows {
		n := w.clone()
		d := dyn()
		pick(n).Rows[ri].Expr = d
		out = append(out, c06Variant{"row-by-expression", fmt.Sprintf("%s matrix row %q given by ${{ %s }}", tag, row.Name, d), n})

		n = w.clone()
		d = dyn()
		vals := pick(n).Rows[ri].Vals
		nodes := vals[r.Intn(len(vals))].nodes()
		nodes[r.Intn(len(nodes))].Dyn = d
		out = append(out, c06Variant{"row-value-by-expression", fmt.Sprintf("one value inside %s matrix row %q replaced by ${{ %s }}", tag, row.Name, d), n})
	}
	for ii, inc := range base.Inc {
		n := w.clone()
		d := dyn()
		pick(n).Inc[ii].Expr = d
		out = append(out, c06Variant{"include-element-by-expression", fmt.Sprintf("%s include element %d of %d given by ${{ %s }}", tag, ii, len(base.Inc), d), n})
		n = w.clone()
		pick(n).Inc[ii].Expr = "github.event"
		out = append(out, c06Variant{"include-element-by-open-object", fmt.Sprintf("%s include element %d of %d given by ${{ github.event }} (open object without known properties)", tag, ii, len(base.Inc)), n})

		if inc.TypedExpr != "" {
			continue
		}
		n = w.clone()
		d = dyn()
		vi := r.Intn(len(inc.Vals))
		nodes := pick(n).Inc[ii].Vals[vi].nodes()
		nodes[r.Intn(len(nodes))].Dyn = d
		out = append(out, c06Variant{"include-value-by-expression", fmt.Sprintf("value of %q in %s include element %d replaced by ${{ %s }}", inc.Names[vi], tag, ii, d), n})
	}
	if len(base.Inc) > 0 {
		n := w.clone()
		d := dyn()
		pick(n).IncExpr = d
		out = append(out, c06Variant{"include-by-expression", fmt.Sprintf("%s include section given by ${{ %s }}", tag, d), n})
	}
	n := w.clone()
	d := dyn()
	pick(n).Expr = d
	out = append(out, c06Variant{"matrix-by-expression", fmt.Sprintf("%s matrix given by ${{ %s }}", tag, d), n})
	return out
}

func c06Variants(r *Rand, w *c06Wf) []c06Variant {
	out := c06MatrixVariants(r, w, func(x *c06Wf) *c06Matrix { return x.Build }, "build")
	if be := w.Build.BaseExpr; be != "" {
		add := func(kind, expr, what string) {
			n := w.clone()
			n.Build.Expr = expr
			out = append(out, c06Variant{kind, fmt.Sprintf("build matrix ${{ %s }} replaced by ${{ %s }} (%s)", be, expr, what), n})
		}
		add("matrix-expression-opened-keeping-keys", be+" || github.event", "the same object left open")
		add("matrix-expression-to-open-object", "github.event", "open object without known properties")
		if w.Build.BaseAllStr {
			add("matrix-expression-to-string-map", r.Pick([]string{"vars", be + " || vars"}), "{string => string}")
		}
		if w.Build.BaseIncUntyped != "" {
			add("matrix-expression-include-untyped", w.Build.BaseIncUntyped, "\"include\" member typed array<any>")
		}
	}
	out = append(out, c06MatrixVariants(r, w, func(x *c06Wf) *c06Matrix { return x.CallM }, "call")...)
	for i, in := range w.Dispatch {
		n := w.clone()
		n.Dispatch[i].Type = ""
		n.Dispatch[i].Options = false
		out = append(out, c06Variant{"dispatch-input-untyped", fmt.Sprintf("workflow_dispatch input %q (%s) without a type", in.Name, in.Type), n})
	}
	for _, in := range w.Call {
		n := w.clone()
		n.Twin = in.Name
		out = append(out, c06Variant{"call-input-shadowed-by-untyped-dispatch-input", fmt.Sprintf("workflow_call input %q (%s) also declared as workflow_dispatch input without a type", in.Name, in.Type), n})
	}
	for _, a := range []string{"unknown", "script", "pathsfilter"} {
		n := w.clone()
		n.CoAction = a
		out = append(out, c06Variant{"popular-action-to-" + a, "step co: actions/checkout@v4 replaced by an action with unknown/dynamic outputs (" + a + ")", n})
	}
	n := w.clone()
	n.CacheKnown = false
	out = append(out, c06Variant{"popular-action-to-unknown", "step cache: actions/cache@v4 replaced by an unknown action", n})
	n = w.clone()
	n.ActLocal = false
	out = append(out, c06Variant{"local-action-to-unknown", "step act: local action ./act replaced by an unknown remote action", n})
	n = w.clone()
	n.PrepRemote = true
	out = append(out, c06Variant{"job-outputs-to-unresolvable-workflow-call", "job prep (declared outputs) replaced by a call of a reusable workflow that cannot be resolved", n})
	n = w.clone()
	n.CallRemote = true
	out = append(out, c06Variant{"local-workflow-call-to-unresolvable", "job call: local reusable workflow replaced by one that cannot be resolved", n})
	return out
}

var c06LintVariantKinds = []string{"row-by-expression", "row-value-by-expression", "include-element-by-expression", "include-element-by-open-object", "include-value-by-expression", "include-by-expression", "matrix-by-expression",
	"matrix-expression-opened-keeping-keys", "matrix-expression-to-open-object", "matrix-expression-to-string-map", "matrix-expression-include-untyped",
	"dispatch-input-untyped", "call-input-shadowed-by-untyped-dispatch-input", "popular-action-to-unknown", "popular-action-to-script", "popular-action-to-pathsfilter",
	"local-action-to-unknown", "job-outputs-to-unresolvable-workflow-call", "local-workflow-call-to-unresolvable"}

// ---------------------------------------------------------------------------

var c06ProjRoot string
var c06Proj *actionlint.Project

func c06SetupProject() func() {
	root := mkScratch("c06")
	writeFiles(root, map[string]string{
		".github/workflows/callee.yml": c06CalleeYAML,
		"act/action.yml":               c06ActionYAML,
		"act/index.js":                 "// empty\n",
		".git/HEAD":                    "ref: refs/heads/main\n",
	})
	p, err := actionlint.NewProject(root)
	if err != nil {
		fmt.Fprintf(os.Stderr, "C06: cannot create scratch project: %v\n", err)
		os.Exit(10)
	}
	c06ProjRoot, c06Proj = root, p
	return func() { os.RemoveAll(root) }
}

func c06Lint(src string) ([]Diag, error) {
	l, err := actionlint.NewLinter(io.Discard, &actionlint.LinterOptions{})
	if err != nil {
		return nil, err
	}
	errs, err := l.Lint(filepath.Join(c06ProjRoot, ".github", "workflows", "w.yml"), []byte(src), c06Proj)
	if err != nil {
		return nil, err
	}
	return toDiags(errs), nil
}

func c06LintFamilies(r *Run) []*Family {
	return []*Family{{Name: "lint-definitions", N: r.Q(1200, 30000), Do: func(c *Case) {
		a := c06NewAcc()
		defer a.flush(c)
		w := c06GenWf(c.R)
		src := w.render()
		base, err := c06Lint(src)
		a.Eval(1)
		a.Count("lint_workflows", 1)
		if err != nil {
			c.Violation("C06:lint:fatal-error", "linting the literal workflow failed: "+err.Error(), map[string]interface{}{"src": src})
			return
		}
		c.Logf("--- literal workflow ---\n%s--- diagnostics: %v", src, diagStrings(base))
		if len(base) > 0 {
			a.Count("lint_workflows_not_clean", 1)
			for _, d := range base {
				a.SetAdd("lint_classes_in_literal_workflows", c06Class(d.Msg))
			}
			return
		}
		a.Count("lint_workflows_clean", 1)
		a.Count("lint_clean_matrix_shape:"+w.Mode, 1)
		if w.Mode == "incconflict" {
			a.Count("lint_incconflict_forced_uses", w.Forced)
		}
		for vi, v := range c06Variants(c.R, w) {
			vsrc := v.Wf.render()
			got, err := c06Lint(vsrc)
			a.Eval(1)
			a.Count("lint_variants", 1)
			a.Count("lint_variant:"+v.Kind, 1)
			if w.MapElem && v.Kind == "job-outputs-to-unresolvable-workflow-call" {
				a.Count("lint_map_typed_include_element", 1)
			}
			if w.Mode == "incconflict" {
				switch v.Kind {
				case "include-element-by-expression", "include-element-by-open-object":
					a.Count("lint_incconflict_include_element_replaced:"+c06ElemPos(v.Desc), 1)
				case "include-by-expression":
					a.Count("lint_incconflict_include_section_replaced", 1)
				}
			}
			c.Nontrivial("lint|" + v.Kind + "|" + vsrc)
			if err != nil {
				c.Violation("C06:lint:fatal-error", "linting the loosened workflow failed: "+err.Error(), map[string]interface{}{"src": vsrc})
				continue
			}
			if len(got) == 0 {
				if c.Idx == 1 && vi%7 == 0 {
					c.Sample(map[string]interface{}{"level": "lint", "replacement": v.Desc, "src": vsrc, "diagnostics": 0})
				}
				continue
			}
			c.Logf("--- VIOLATED by %s (%s) ---\n%s--- diagnostics: %v", v.Kind, v.Desc, vsrc, diagStrings(got))
			first := c06FirstByClass(got)
			sig := "C06:lint:" + c06Class(first.Msg)
			switch v.Kind {
			case "include-element-by-expression", "include-element-by-open-object":
				// one witness class whatever the use that is hit: an include ELEMENT of unknown
				// type leaves a diagnostic at a use of some matrix key
				sig = "C06:lint:unknown-include-element"
			case "include-by-expression":
				sig = "C06:lint:unknown-include-section"
			case "matrix-expression-include-untyped":
				sig = "C06:lint:matrix-expression-include-of-unknown-type"
			case "job-outputs-to-unresolvable-workflow-call":
				if w.MapElem {
					sig = "C06:lint:map-typed-include-element"
				}
			}
			c.Violation(sig,
				fmt.Sprintf("workflow is clean with literal definitions but gets a diagnostic after: %s: %s", v.Desc, first.String()),
				map[string]interface{}{"src": vsrc, "literal_src": src, "replacement": v.Desc, "kind": v.Kind,
					"files":    map[string]string{".github/workflows/callee.yml": c06CalleeYAML, "act/action.yml": c06ActionYAML},
					"expected": "no diagnostics (none with the literal definitions)", "observed": diagStrings(got)})
		}
	}}}
}

// c06FirstByClass picks the diagnostic that names the witness class: the one whose class comes first
// in the class table (expression-level causes before the follow-up checks of rule_expression.go).
func c06FirstByClass(ds []Diag) Diag {
	best, bi := ds[0], len(c06Classes)+1
	for _, d := range ds {
		for i, c := range c06Classes {
			if c.re.MatchString(d.Msg) {
				if i < bi {
					best, bi = d, i
				}
				break
			}
		}
	}
	return best
}

func c06LintFloors(r *Run) {
	n, clean := r.Counter("lint_workflows"), r.Counter("lint_workflows_clean")
	r.Extra("lint_clean_fraction", fmt.Sprintf("%.3f", float64(clean)/float64(c06Max64(n, 1))))
	if clean*100 < n*40 {
		r.Inconclusive(fmt.Sprintf("only %d of %d generated literal workflows were clean (floor 40%%)", clean, n))
	}
	for _, p := range []string{"first", "middle", "last"} {
		if r.Counter("lint_incconflict_include_element_replaced:"+p) < 40 {
			r.Inconclusive("matrix with rows and conflicting include literals: fewer than 40 replacements of the " + p + " include element")
		}
	}
	if r.Counter("lint_incconflict_include_section_replaced") < 40 || r.Counter("lint_incconflict_forced_uses") < 100 {
		r.Inconclusive("matrix with rows and conflicting include literals: too few include-section replacements / forced uses of a key that is any through include")
	}
	if r.Counter("lint_map_typed_include_element") < 30 {
		r.Inconclusive("fewer than 30 workflows where an include element of closed string-object type conflicting with a row became a {string => string} object")
	}
	for _, m := range []string{"plain", "conflict", "norows", "incconflict", "exprmatrix"} {
		if r.Counter("lint_clean_matrix_shape:"+m) < 50 {
			r.Inconclusive("fewer than 50 clean literal workflows with matrix shape " + m)
		}
	}
	for _, k := range c06LintVariantKinds {
		if r.Counter("lint_variant:"+k) < 20 {
			r.Inconclusive("definition replacement exercised fewer than 20 times on a clean workflow: " + k)
		}
	}
}
