package main

// C05: random operator / function tree around the single reference of a scalar. The tree is built
// bottom-up from the reference: every step wraps the current expression as one operand of `!`,
// `&&`, `||`, one of the six comparisons, parentheses, a function call argument or an index; all
// other operands are context-free literal sub-trees, so the scalar still holds exactly one
// reference. A conservative type class is tracked so that the tree never produces a type error:
// the only diagnostic a generated scalar can cause is the undefined-property one.

import (
	"fmt"
	"strings"
)

const (
	c05LvOr   = 1
	c05LvAnd  = 2
	c05LvCmp  = 3
	c05LvNot  = 4
	c05LvAtom = 5
)

// c05Expr: class is one of obj (may be an object), str (string or any), num, bool, scalar (some
// non-object type, unknown which).
type c05Expr struct {
	text  string
	off   int // offset of the reference token in text, -1 for literal trees
	level int
	class string
}

// par parenthesises e as an operand of an operator of level outer when the (right-associative)
// grammar needs it, and sometimes when it does not.
func (g *c05Gen) par(e c05Expr, outer int, left bool) c05Expr {
	need := e.level < outer || e.level == outer && left
	if need || e.level < c05LvAtom && g.r.Chance(1, 4) {
		o := e.off
		if o >= 0 {
			o++
		}
		return c05Expr{"(" + e.text + ")", o, c05LvAtom, e.class}
	}
	return e
}

func (g *c05Gen) bin(l c05Expr, op string, r c05Expr, level int, class string) c05Expr {
	l, r = g.par(l, level, true), g.par(r, level, false)
	sp := " "
	if g.r.Chance(1, 6) {
		sp = ""
	}
	off := -1
	if l.off >= 0 {
		off = l.off
	} else if r.off >= 0 {
		off = len(l.text) + len(sp) + len(op) + len(sp) + r.off
	}
	return c05Expr{l.text + sp + op + sp + r.text, off, level, class}
}

func (g *c05Gen) call(fn string, args []c05Expr, class string) c05Expr {
	var sb strings.Builder
	sb.WriteString(fn + "(")
	off := -1
	for i, a := range args {
		if i > 0 {
			sb.WriteString(", ")
		}
		if a.off >= 0 {
			off = sb.Len() + a.off
		}
		sb.WriteString(a.text)
	}
	sb.WriteString(")")
	return c05Expr{sb.String(), off, c05LvAtom, class}
}

// c05MergeClass: class of `a && b` / `a || b`. Only two strings certainly give a string: type
// narrowing looks through `!` (the type of `!x || y` is typeof(x) merged with typeof(y)), so a
// logical operator over booleans need not be typed bool.
func c05MergeClass(a, b string) string {
	if a == "str" && b == "str" {
		return "str"
	}
	return "scalar"
}

// lit builds a context-free literal tree of the wanted class ("" = any of str/num/bool).
func (g *c05Gen) lit(depth int, class string, ifSlot bool) c05Expr {
	r := g.r
	if class == "" {
		class = r.Pick([]string{"str", "str", "num", "bool"})
	}
	atom := func(cl string) c05Expr {
		var t string
		switch cl {
		case "str":
			t = r.Pick([]string{"'a'", "'x'", "''", "'v1'", "'main'"})
		case "num":
			t = r.Pick([]string{"1", "0", "42", "1.5"})
		default:
			t = r.Pick([]string{"true", "false"})
			if ifSlot && r.Chance(1, 3) {
				t = r.Pick([]string{"success()", "always()", "failure()"})
			}
		}
		return c05Expr{t, -1, c05LvAtom, cl}
	}
	if depth <= 0 || class == "num" {
		return atom(class)
	}
	switch class {
	case "str":
		switch r.Intn(4) {
		case 0:
			return g.call("format", []c05Expr{{"'{0}'", -1, c05LvAtom, "str"}, g.lit(depth-1, "", ifSlot)}, "str")
		case 1:
			return g.call("toJSON", []c05Expr{g.lit(depth-1, "", ifSlot)}, "str")
		case 2:
			return g.bin(g.lit(depth-1, "str", ifSlot), "||", g.lit(depth-1, "str", ifSlot), c05LvOr, "str")
		}
		return g.bin(g.lit(depth-1, "str", ifSlot), "&&", g.lit(depth-1, "str", ifSlot), c05LvAnd, "str")
	default: // bool
		switch r.Intn(6) {
		case 0:
			e := g.par(g.lit(depth-1, "", ifSlot), c05LvNot, false)
			return c05Expr{"!" + e.text, -1, c05LvNot, "bool"}
		case 1:
			return g.bin(g.lit(depth-1, "", ifSlot), r.Pick([]string{"==", "!="}), g.lit(depth-1, "", ifSlot), c05LvCmp, "bool")
		case 2:
			return g.bin(atom("num"), r.Pick([]string{"<", "<=", ">", ">="}), atom(r.Pick([]string{"num", "str"})), c05LvCmp, "bool")
		case 3:
			return g.call(r.Pick([]string{"contains", "startsWith", "endsWith"}), []c05Expr{atom("str"), atom("str")}, "bool")
		case 4:
			return g.bin(g.lit(depth-1, "bool", ifSlot), "&&", g.lit(depth-1, "bool", ifSlot), c05LvAnd, "scalar")
		}
		return g.bin(g.lit(depth-1, "bool", ifSlot), "||", g.lit(depth-1, "bool", ifSlot), c05LvOr, "scalar")
	}
}

func (g *c05Gen) litDepth() int {
	switch g.r.Intn(6) {
	case 0:
		return 2
	case 1, 2:
		return 1
	}
	return 0
}

// wrap puts e at one operand position of a randomly chosen operator / function and returns the new
// expression and the label of the position. strOnly: keep the class "str" (fromJSON slots).
func (g *c05Gen) wrap(e c05Expr, strOnly, ifSlot bool) (c05Expr, string) {
	r := g.r
	names := []string{"&&", "||", "()", "format", "toJSON"}
	ws := []int{6, 6, 1, 2, 1}
	add := func(n string, w int) {
		names = append(names, n)
		ws = append(ws, w)
	}
	if !strOnly {
		add("!", 3)
		add("eq", 3)
		if e.class == "str" || e.class == "num" {
			add("ord", 3)
			add("strfn", 2)
			add("fromJSON", 1)
		}
		if e.class == "str" {
			add("index", 1)
		}
	}
	switch op := g.weighted(names, ws); op {
	case "&&", "||":
		sc := ""
		if strOnly {
			sc = "str"
		} else if e.class != "obj" && e.class != "scalar" && r.Chance(6, 10) {
			sc = e.class
		}
		sib := g.lit(g.litDepth(), sc, ifSlot)
		lv := c05LvAnd
		if op == "||" {
			lv = c05LvOr
		}
		cl := c05MergeClass(e.class, sib.class)
		if r.Bool() {
			return g.bin(e, op, sib, lv, cl), op + ":L"
		}
		return g.bin(sib, op, e, lv, cl), op + ":R"
	case "()":
		return c05Expr{"(" + e.text + ")", e.off + 1, c05LvAtom, e.class}, "()"
	case "!":
		x := g.par(e, c05LvNot, false)
		return c05Expr{"!" + x.text, x.off + 1, c05LvNot, "bool"}, "!"
	case "eq":
		o := r.Pick([]string{"==", "!="})
		var sib c05Expr
		if e.class == "obj" || r.Chance(1, 10) {
			sib = c05Expr{"null", -1, c05LvAtom, "null"}
		} else {
			sib = g.lit(r.Intn(2), "", ifSlot)
		}
		if r.Bool() {
			return g.bin(e, o, sib, c05LvCmp, "bool"), o + ":L"
		}
		return g.bin(sib, o, e, c05LvCmp, "bool"), o + ":R"
	case "ord":
		o := r.Pick([]string{"<", "<=", ">", ">="})
		sib := g.lit(0, r.Pick([]string{"str", "num"}), ifSlot)
		if r.Bool() {
			return g.bin(e, o, sib, c05LvCmp, "bool"), o + ":L"
		}
		return g.bin(sib, o, e, c05LvCmp, "bool"), o + ":R"
	case "format":
		n := r.Range(1, 3)
		k := r.Range(1, n)
		holders := make([]string, n)
		for i := range holders {
			holders[i] = fmt.Sprintf("{%d}", i)
		}
		args := []c05Expr{{"'" + strings.Join(holders, r.Pick([]string{" ", "-", ""})) + "'", -1, c05LvAtom, "str"}}
		for i := 1; i <= n; i++ {
			if i == k {
				args = append(args, e)
			} else {
				args = append(args, g.lit(r.Intn(2), "", ifSlot))
			}
		}
		return g.call(r.Pick([]string{"format", "format", "Format"}), args, "str"), fmt.Sprintf("format#%d", k)
	case "toJSON":
		return g.call(r.Pick([]string{"toJSON", "toJSON", "tojson"}), []c05Expr{e}, "str"), "toJSON#0"
	case "strfn":
		fn := r.Pick([]string{"contains", "startsWith", "endsWith"})
		other := g.lit(0, "str", ifSlot)
		if r.Bool() {
			return g.call(fn, []c05Expr{e, other}, "bool"), fn + "#0"
		}
		return g.call(fn, []c05Expr{other, e}, "bool"), fn + "#1"
	case "fromJSON":
		return g.call("fromJSON", []c05Expr{e}, "scalar"), "fromJSON#0"
	default: // index
		pre := `fromJSON('{"a":"b"}')[`
		return c05Expr{pre + e.text + "]", len(pre) + e.off, c05LvAtom, "scalar"}, "index"
	}
}

// tree builds the expression around the reference for a slot. It returns the text before and after
// the reference token and the operator path from the root to the reference.
func (g *c05Gen) tree(ref string, p *c05Pick, s c05Slot, templated bool) (string, string, []string) {
	r := g.r
	cl := "scalar"
	switch {
	case s.fromJSON:
		cl = "str" // the picker only lets string-assignable references into these slots
	case p.obj:
		cl = "obj"
	case p.str:
		cl = "str"
	}
	e := c05Expr{ref, 0, c05LvAtom, cl}
	var path []string // innermost first
	n := 0
	if !r.Chance(1, 10) {
		n = r.Range(1, 4)
	}
	if s.kind == "object" {
		// the scalar must evaluate to the object itself: at most parentheses
		if r.Chance(1, 4) {
			e = c05Expr{"(" + e.text + ")", e.off + 1, c05LvAtom, e.class}
			path = append(path, "()")
		}
		return e.text[:e.off], e.text[e.off+len(ref):], path
	}
	for i := 0; i < n; i++ {
		var l string
		e, l = g.wrap(e, s.fromJSON, s.isIf)
		path = append(path, l)
	}
	// close the tree so that its type suits the slot
	closeWith := func(ops ...string) {
		switch op := r.Pick(ops); op {
		case "!":
			x := g.par(e, c05LvNot, false)
			e = c05Expr{"!" + x.text, x.off + 1, c05LvNot, "bool"}
			path = append(path, "!")
		case "null":
			o := r.Pick([]string{"==", "!="})
			e = g.bin(e, o, c05Expr{"null", -1, c05LvAtom, "null"}, c05LvCmp, "bool")
			path = append(path, o+":L")
		case "toJSON":
			e = g.call("toJSON", []c05Expr{e}, "str")
			path = append(path, "toJSON#0")
		case "format":
			e = g.call("format", []c05Expr{{"'{0}'", -1, c05LvAtom, "str"}, e}, "str")
			path = append(path, "format#1")
		case "fromJSON":
			e = g.call(r.Pick([]string{"fromJSON", "fromJSON", "fromjson"}), []c05Expr{e}, "scalar")
			path = append(path, "fromJSON#0")
		}
	}
	switch {
	case s.fromJSON:
		closeWith("fromJSON")
	case s.kind == "bool":
		if e.class != "bool" {
			closeWith("!", "null")
		}
	case s.kind == "string":
		if e.class != "str" {
			closeWith("toJSON", "format")
		}
	case s.isIf && !templated:
		// a bare condition may have any type
	default:
		if e.class == "obj" {
			closeWith("toJSON", "format", "!", "null")
		}
	}
	// root first
	for i, j := 0, len(path)-1; i < j; i, j = i+1, j-1 {
		path[i], path[j] = path[j], path[i]
	}
	return e.text[:e.off], e.text[e.off+len(ref):], path
}

// c05NormPath drops the explicit-parentheses steps and frames the labels with '>' so that label
// sequences can be searched as substrings.
func c05NormPath(path []string) string {
	var sb strings.Builder
	sb.WriteString(">")
	for _, l := range path {
		if l == "()" {
			continue
		}
		sb.WriteString(l + ">")
	}
	return sb.String()
}

// the operand positions reached through checkWithNarrowing (type narrowing of `l && r` assumed
// truthy and `l || r` assumed falsy): ternary idiom `X && a || b`, `X || a && b`, `!(X || y) || z`,
// `!(X && y) && z`; with the reference on either side of the inner operator.
var c05NarrowShapes = []string{
	">||:L>&&:L>", ">||:L>&&:R>", ">&&:L>||:L>", ">&&:L>||:R>",
	">||:L>!>||:L>", ">||:L>!>||:R>", ">&&:L>!>&&:L>", ">&&:L>!>&&:R>",
}

var c05OperandLabels = []string{
	"&&:L", "&&:R", "||:L", "||:R", "!",
	"==:L", "==:R", "!=:L", "!=:R", "<:L", "<:R", "<=:L", "<=:R", ">:L", ">:R", ">=:L", ">=:R",
	"format#1", "format#2", "format#3", "toJSON#0", "fromJSON#0",
	"contains#0", "contains#1", "startsWith#0", "startsWith#1", "endsWith#0", "endsWith#1", "index",
}

var c05LogicalLabels = []string{"&&:L", "&&:R", "||:L", "||:R", "!"}
