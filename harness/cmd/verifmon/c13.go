package main

// C13 — unknown, duplicate and missing keys are reported in every section, and never suppress the
// diagnostics of sibling keys.
//
// Mutation monitor. An independent table (c13_data.go) maps YAML paths to sections with their accepted
// keys and mandatory keys. Every mapping node of a base workflow that matches a row is mutated at text
// level (one key per line is inserted or removed, indentation kept); the mutated text is re-parsed with
// yaml.v3 and compared structurally with the intended tree, so that the position of the mutated key is
// known independently of actionlint. The diagnostics of the mutant are compared with those of the base.

import (
	"fmt"
	"os"
	"path/filepath"
	"regexp"
	"sort"
	"strconv"
	"strings"
	"unicode"

	"gopkg.in/yaml.v3"
)

func init() { registry["C13"] = runC13 }

// ---------------------------------------------------------------------------
// template rendering

type c13Rendered struct {
	Src        string
	MarkerLine []int  // 1-based line of every alternation
	Dirty      []bool // which alternations were rendered dirty
}

// c13Render renders a template; pick(i) tells whether alternation i is rendered dirty.
func c13Render(tpl string, pick func(i int) bool) c13Rendered {
	var out c13Rendered
	var sb strings.Builder
	line := 1
	i := 0
	for i < len(tpl) {
		if strings.HasPrefix(tpl[i:], "@{") {
			mid := strings.Index(tpl[i:], "@|")
			end := strings.Index(tpl[i:], "@}")
			if mid < 0 || end < 0 || mid > end {
				panic("c13: malformed template alternation at line " + strconv.Itoa(line))
			}
			clean, dirty := tpl[i+2:i+mid], tpl[i+mid+2:i+end]
			d := pick(len(out.MarkerLine))
			out.MarkerLine = append(out.MarkerLine, line)
			out.Dirty = append(out.Dirty, d)
			if d {
				sb.WriteString(dirty)
			} else {
				sb.WriteString(clean)
			}
			i += end + 2
			continue
		}
		if tpl[i] == '\n' {
			line++
		}
		sb.WriteByte(tpl[i])
		i++
	}
	out.Src = sb.String()
	return out
}

func c13CountMarkers(tpl string) int { return strings.Count(tpl, "@{") }

// ---------------------------------------------------------------------------
// YAML helpers

func c13ParseDoc(src string) (*yaml.Node, error) {
	var n yaml.Node
	if err := yaml.Unmarshal([]byte(src), &n); err != nil {
		return nil, err
	}
	if n.Kind != yaml.DocumentNode || len(n.Content) != 1 {
		return nil, fmt.Errorf("not a single document")
	}
	return &n, nil
}

func c13Clone(n *yaml.Node) *yaml.Node {
	c := *n
	c.Content = make([]*yaml.Node, len(n.Content))
	for i, ch := range n.Content {
		c.Content[i] = c13Clone(ch)
	}
	return &c
}

// c13Canon writes a position-free canonical form of a node tree.
func c13Canon(sb *strings.Builder, n *yaml.Node) {
	switch n.Kind {
	case yaml.DocumentNode:
		sb.WriteString("D(")
	case yaml.MappingNode:
		sb.WriteString("M(")
	case yaml.SequenceNode:
		sb.WriteString("S(")
	case yaml.ScalarNode:
		sb.WriteString("s<" + n.Tag + ">" + strconv.Quote(n.Value))
		return
	case yaml.AliasNode:
		sb.WriteString("*" + n.Value)
		return
	default:
		sb.WriteString("?(")
	}
	for _, c := range n.Content {
		c13Canon(sb, c)
		sb.WriteByte(',')
	}
	sb.WriteByte(')')
}

func c13CanonString(n *yaml.Node) string {
	var sb strings.Builder
	c13Canon(&sb, n)
	return sb.String()
}

// c13MapNode is one mapping node of a base workflow that matches a table row.
type c13MapNode struct {
	Idx  []int    // child indices from the document node down to the mapping
	Path []string // YAML path
	Sec  *c13Section
}

func c13MatchSection(path []string) *c13Section {
	for i := range c13Sections {
		s := &c13Sections[i]
		if len(s.Path) != len(path) {
			continue
		}
		ok := true
		for j, seg := range s.Path {
			if seg == "*" {
				if path[j] == "[]" {
					ok = false
				}
			} else if seg != path[j] {
				ok = false
			}
			if !ok {
				break
			}
		}
		if ok {
			return s
		}
	}
	return nil
}

func c13Walk(n *yaml.Node, path []string, idx []int, out *[]c13MapNode) {
	switch n.Kind {
	case yaml.DocumentNode:
		for i, c := range n.Content {
			c13Walk(c, path, append(append([]int{}, idx...), i), out)
		}
	case yaml.MappingNode:
		if s := c13MatchSection(path); s != nil && !s.Skip && len(n.Content) >= 2 {
			*out = append(*out, c13MapNode{append([]int{}, idx...), append([]string{}, path...), s})
		}
		for i := 0; i+1 < len(n.Content); i += 2 {
			k := n.Content[i]
			if k.Kind != yaml.ScalarNode {
				continue
			}
			// the value of a repeated key is not part of the workflow (only the repetition itself is
			// reported), so nothing below it is in the domain of the property
			rep := false
			for j := 0; j < i; j += 2 {
				if strings.EqualFold(n.Content[j].Value, k.Value) {
					rep = true
				}
			}
			if rep {
				continue
			}
			c13Walk(n.Content[i+1], append(append([]string{}, path...), k.Value), append(append([]int{}, idx...), i+1), out)
		}
	case yaml.SequenceNode:
		for i, c := range n.Content {
			c13Walk(c, append(append([]string{}, path...), "[]"), append(append([]int{}, idx...), i), out)
		}
	}
}

func c13At(doc *yaml.Node, idx []int) *yaml.Node {
	n := doc
	for _, i := range idx {
		if i >= len(n.Content) {
			return nil
		}
		n = n.Content[i]
	}
	return n
}

// ---------------------------------------------------------------------------
// text-level mutation of block mappings

type c13Base struct {
	ID    string
	Src   string
	Lines []string
	Doc   *yaml.Node
	Nodes []c13MapNode
	Diags []Diag

	layoutDiags map[string][]Diag
}

func c13NewBase(id, src string) (*c13Base, error) {
	doc, err := c13ParseDoc(src)
	if err != nil {
		return nil, err
	}
	b := &c13Base{ID: id, Src: src, Lines: strings.Split(src, "\n"), Doc: doc}
	c13Walk(doc, nil, nil, &b.Nodes)
	ds, err := lintSrc(src)
	if err != nil {
		return nil, err
	}
	b.Diags = ds
	return b, nil
}

func c13Indent(line string) int {
	i := 0
	for i < len(line) && line[i] == ' ' {
		i++
	}
	return i
}

func c13Blank(line string) bool { return strings.TrimSpace(line) == "" }

// c13Editable checks that the mapping is written in block style with every key on a line of its own
// at one common column, and returns the key column (1-based).
func (b *c13Base) c13Editable(m *yaml.Node) (col int, ok bool) {
	if m.Kind != yaml.MappingNode || m.Style&yaml.FlowStyle != 0 || len(m.Content) < 2 {
		return 0, false
	}
	if m.Anchor != "" || m.Style&yaml.TaggedStyle != 0 {
		return 0, false
	}
	col = m.Content[0].Column
	prevLine := 0
	for i := 0; i+1 < len(m.Content); i += 2 {
		k := m.Content[i]
		if k.Kind != yaml.ScalarNode || k.Column != col || k.Line <= prevLine || k.Line > len(b.Lines) {
			return 0, false
		}
		if k.Style&(yaml.LiteralStyle|yaml.FoldedStyle) != 0 {
			return 0, false
		}
		prevLine = k.Line
		line := b.Lines[k.Line-1]
		if len(line) < col-1 {
			return 0, false
		}
		for j, ch := range []byte(line[:col-1]) {
			if ch == ' ' {
				continue
			}
			if ch == '-' && i == 0 && j+1 < col-1 && line[j+1] == ' ' {
				continue
			}
			return 0, false
		}
	}
	return col, true
}

// c13EndLine returns the 1-based number of the last line that belongs to the mapping whose keys are
// at column col and whose last key is on lastKeyLine.
func (b *c13Base) c13EndLine(col, lastKeyLine int) int {
	end := lastKeyLine
	for j := lastKeyLine; j < len(b.Lines); j++ { // j is the 0-based index of line j+1
		l := b.Lines[j]
		if c13Blank(l) {
			continue
		}
		ind := c13Indent(l)
		if ind > col-1 || (ind == col-1 && strings.HasPrefix(l[ind:], "- ")) {
			end = j + 1
			continue
		}
		break
	}
	return end
}

type c13Mutant struct {
	Src     string
	At      int  // first changed line (1-based) of the base
	Shift   int  // number of lines inserted (>0) or removed (<0) at At
	First   bool // the new key was put in front of the first key (positions at the old first key are ambiguous)
	KeyPos  Pos  // where the text of the inserted key starts in the mutant (behind its anchor / tag / `? `)
	KeyHi   int  // last column of the key token
	NodePos Pos  // where yaml.v3 places the key node (at its first property)
	MapPos  Pos  // position of the mutated mapping in the mutant
	// edits inside one line (flow mappings): diagnostics of line ColLine at or behind ColFrom move by ColShift columns
	ColLine, ColFrom, ColShift int
	Problem                    string
}

// c13PlainKey: can the key be written as a plain YAML scalar (letters of any script, digits, _ . -)?
func c13PlainKey(k string) bool {
	for i, c := range k {
		switch {
		case unicode.IsLetter(c) || c == '_':
		case i > 0 && (c >= '0' && c <= '9' || c == '.' || c == '-'):
		default:
			return false
		}
	}
	return k != ""
}

// value kinds of an inserted key
const (
	c13ValScalar = iota
	c13ValNull
	c13ValMapping
	c13ValSequence
	c13ValKinds // number of kinds drawn at random
	c13ValAlias = c13ValKinds
)

var c13ValNames = []string{"scalar", "null", "mapping", "sequence", "alias"}

// ways of writing a key
const (
	c13FormPlain          = ""                 // plain (double-quoted if the name cannot be written plain)
	c13FormAnchor         = "anchor"           // &c13n key: v
	c13FormTag            = "tag"              // !!str key: v
	c13FormAnchorTag      = "anchor-tag"       // &c13n !!str key: v
	c13FormTagAnchor      = "tag-anchor"       // !!str &c13n key: v
	c13FormLocalTagAnchor = "local-tag-anchor" // !c13t &c13n key: v
	c13FormVerbatimTag    = "verbatim-tag"     // !<tag:yaml.org,2002:str> key: v
	c13FormNonSpecificTag = "non-specific-tag" // ! key: v
	c13FormSingle         = "single-quoted"
	c13FormDouble         = "double-quoted"
	c13FormExplicit       = "explicit" // ? key NEWLINE : v
	c13FormAlias          = "alias"    // *c13a : v   (the anchor c13a is put on a scalar of the base beforehand)
	c13FormMerge          = "merge"    // <<: *c13a
)

const c13AnchorName = "c13a"

type c13Inserted struct {
	Lines    []string // first line starts with the key (or its properties); further lines are relative to the key column
	Flow     string   // the same entry written for a flow mapping ("" if this form / value has no flow spelling)
	Key, Val *yaml.Node
	NodeOff  int // column offset of the yaml node of the key
	KeyOff   int // column offset of the text of the key
	KeyWidth int // width of the key token in characters
}

func c13InsertedEntry(key string, valKind int, form string) c13Inserted {
	kt := key
	if !c13PlainKey(key) {
		kt = strconv.Quote(key)
	}
	var e c13Inserted
	e.Key = &yaml.Node{Kind: yaml.ScalarNode, Tag: "!!str", Value: key}
	prefix := ""
	switch form {
	case c13FormAnchor:
		prefix = "&c13n "
	case c13FormTag:
		prefix = "!!str "
	case c13FormAnchorTag:
		prefix = "&c13n !!str "
	case c13FormTagAnchor:
		prefix = "!!str &c13n "
	case c13FormLocalTagAnchor:
		prefix = "!c13t &c13n "
		e.Key.Tag = "!c13t"
	case c13FormVerbatimTag:
		prefix = "!<tag:yaml.org,2002:str> "
	case c13FormNonSpecificTag:
		prefix = "! "
	case c13FormSingle:
		kt = "'" + strings.ReplaceAll(key, "'", "''") + "'"
	case c13FormDouble:
		kt = strconv.Quote(key)
	case c13FormExplicit:
		prefix = "? "
		e.NodeOff = 2
	case c13FormAlias:
		kt = "*" + c13AnchorName + " "
		e.Key = &yaml.Node{Kind: yaml.AliasNode, Value: c13AnchorName}
	case c13FormMerge:
		kt = "<<"
		e.Key = &yaml.Node{Kind: yaml.ScalarNode, Tag: "!!merge", Value: "<<"}
		valKind = c13ValAlias
	}
	e.KeyOff = len(prefix)
	e.KeyWidth = len([]rune(strings.TrimRight(kt, " ")))
	head := prefix + kt
	if form == c13FormExplicit {
		if valKind == c13ValMapping || valKind == c13ValSequence {
			valKind = c13ValScalar
		}
		switch valKind {
		case c13ValNull:
			e.Lines = []string{head}
			e.Val = &yaml.Node{Kind: yaml.ScalarNode, Tag: "!!null"}
		case c13ValAlias:
			e.Lines = []string{head, ": *" + c13AnchorName}
			e.Val = &yaml.Node{Kind: yaml.AliasNode, Value: c13AnchorName}
		default:
			e.Lines = []string{head, ": c13v"}
			e.Val = &yaml.Node{Kind: yaml.ScalarNode, Tag: "!!str", Value: "c13v"}
		}
		return e
	}
	switch valKind {
	case c13ValNull:
		e.Lines = []string{head + ":"}
		e.Val = &yaml.Node{Kind: yaml.ScalarNode, Tag: "!!null"}
	case c13ValMapping:
		e.Lines = []string{head + ":", "  c13k: c13v"}
		e.Flow = head + ": {c13k: c13v}"
		e.Val = &yaml.Node{Kind: yaml.MappingNode, Tag: "!!map", Content: []*yaml.Node{
			{Kind: yaml.ScalarNode, Tag: "!!str", Value: "c13k"}, {Kind: yaml.ScalarNode, Tag: "!!str", Value: "c13v"}}}
	case c13ValSequence:
		e.Lines = []string{head + ":", "  - c13v"}
		e.Flow = head + ": [c13v]"
		e.Val = &yaml.Node{Kind: yaml.SequenceNode, Tag: "!!seq", Content: []*yaml.Node{
			{Kind: yaml.ScalarNode, Tag: "!!str", Value: "c13v"}}}
	case c13ValAlias:
		e.Lines = []string{head + ": *" + c13AnchorName}
		e.Flow = e.Lines[0]
		e.Val = &yaml.Node{Kind: yaml.AliasNode, Value: c13AnchorName}
	default:
		e.Lines = []string{head + ": c13v"}
		e.Flow = e.Lines[0]
		e.Val = &yaml.Node{Kind: yaml.ScalarNode, Tag: "!!str", Value: "c13v"}
	}
	return e
}

// c13FlowEditable: a flow mapping written completely on one line of ASCII text.
func (b *c13Base) c13FlowEditable(m *yaml.Node) bool {
	if m.Kind != yaml.MappingNode || m.Style&yaml.FlowStyle == 0 || len(m.Content) < 2 || m.Anchor != "" || m.Style&yaml.TaggedStyle != 0 {
		return false
	}
	if m.Line < 1 || m.Line > len(b.Lines) {
		return false
	}
	for _, ch := range []byte(b.Lines[m.Line-1]) {
		if ch >= 0x80 || ch == '\t' {
			return false
		}
	}
	var oneLine func(n *yaml.Node) bool
	oneLine = func(n *yaml.Node) bool {
		if n.Line != m.Line {
			return false
		}
		for _, c := range n.Content {
			if !oneLine(c) {
				return false
			}
		}
		return true
	}
	return oneLine(m)
}

// c13FlowClose finds the 0-based offset of the `}` closing the flow mapping that opens at offset open.
func c13FlowClose(line string, open int) int {
	depth := 0
	var quote byte
	for i := open; i < len(line); i++ {
		ch := line[i]
		if quote != 0 {
			if ch == quote {
				if quote == '\'' && i+1 < len(line) && line[i+1] == '\'' {
					i++
					continue
				}
				quote = 0
			} else if quote == '"' && ch == '\\' {
				i++
			}
			continue
		}
		switch ch {
		case '\'', '"':
			// a quote starts a quoted scalar only at the start of a token
			if i > 0 && strings.IndexByte(" ,:[{", line[i-1]) >= 0 {
				quote = ch
			}
		case '{', '[':
			depth++
		case '}', ']':
			depth--
			if depth == 0 {
				return i
			}
		}
	}
	return -1
}

// c13Insert inserts `key: <value>` as the p-th key (0..n) of the mapping at mn; form says how the key is written.
func (b *c13Base) c13Insert(mn *c13MapNode, p int, key string, valKind int, form string) *c13Mutant {
	m := c13At(b.Doc, mn.Idx)
	n := len(m.Content) / 2
	var mu *c13Mutant
	var e c13Inserted
	if b.c13FlowEditable(m) {
		if valKind == c13ValNull {
			valKind = c13ValScalar
		}
		e = c13InsertedEntry(key, valKind, form)
		if e.Flow == "" {
			return &c13Mutant{Problem: "this key form has no flow spelling"}
		}
		line := b.Lines[m.Line-1]
		var off int
		text := e.Flow + ", "
		keyAt := 0 // offset of the entry inside text
		if p < n {
			off = m.Content[2*p].Column - 1
		} else {
			off = c13FlowClose(line, m.Column-1)
			if off < 0 {
				return &c13Mutant{Problem: "closing brace of the flow mapping not found"}
			}
			text = ", " + e.Flow
			keyAt = 2
		}
		lines := append([]string{}, b.Lines...)
		lines[m.Line-1] = line[:off] + text + line[off:]
		mu = &c13Mutant{Src: strings.Join(lines, "\n"), At: len(lines) + 2, ColLine: m.Line, ColFrom: off + 1, ColShift: len(text)}
		mu.NodePos = Pos{m.Line, off + 1 + keyAt + e.NodeOff}
		mu.KeyPos = Pos{m.Line, off + 1 + keyAt + e.KeyOff}
	} else {
		col, ok := b.c13Editable(m)
		if !ok {
			return &c13Mutant{Problem: "mapping is neither in one-key-per-line block style nor a one-line flow mapping"}
		}
		e = c13InsertedEntry(key, valKind, form)
		ins := e.Lines
		indent := strings.Repeat(" ", col-1)
		lines := append([]string{}, b.Lines...)
		var at int
		mu = &c13Mutant{Shift: len(ins)}
		var newLines []string
		switch {
		case p == 0:
			at = m.Content[0].Line
			old := lines[at-1]
			prefix := old[:col-1]
			newLines = append(newLines, prefix+ins[0])
			for _, l := range ins[1:] {
				newLines = append(newLines, indent+l)
			}
			lines[at-1] = indent + old[col-1:]
			mu.First = true
		case p < n:
			at = m.Content[2*p].Line
			for _, l := range ins {
				newLines = append(newLines, indent+l)
			}
		default:
			at = b.c13EndLine(col, m.Content[2*(n-1)].Line) + 1
			for _, l := range ins {
				newLines = append(newLines, indent+l)
			}
		}
		mu.At = at
		if at-1 > len(lines) {
			return &c13Mutant{Problem: "insertion point beyond the end of the file"}
		}
		res := append([]string{}, lines[:at-1]...)
		res = append(res, newLines...)
		res = append(res, lines[at-1:]...)
		mu.Src = strings.Join(res, "\n")
		mu.NodePos = Pos{at, col + e.NodeOff}
		mu.KeyPos = Pos{at, col + e.KeyOff}
	}
	mu.KeyHi = mu.KeyPos.Col + e.KeyWidth - 1

	// intended tree
	want := c13Clone(b.Doc)
	wm := c13At(want, mn.Idx)
	cont := append([]*yaml.Node{}, wm.Content[:2*p]...)
	cont = append(cont, e.Key, e.Val)
	cont = append(cont, wm.Content[2*p:]...)
	wm.Content = cont
	b.c13SelfCheck(mu, want, mn, 2*p)
	return mu
}

// file layouts of a mutant
const (
	c13LayoutNoEOL     = "no-final-line-break"
	c13LayoutCRLFNoEOL = "crlf-no-final-line-break"
)

var c13Layouts = []string{c13LayoutNoEOL, c13LayoutCRLFNoEOL}

func c13ApplyLayout(src, layout string) string {
	src = strings.TrimRight(src, "\n")
	if layout == c13LayoutCRLFNoEOL {
		src = strings.ReplaceAll(src, "\n", "\r\n")
	}
	return src
}

// c13LayoutCheck: the re-laid-out mutant is the same document, the inserted key sits where it was and
// on the very last line of the file.
func c13LayoutCheck(lf string, mu *c13Mutant, mn *c13MapNode) string {
	a, err := c13ParseDoc(lf)
	if err != nil {
		return "LF mutant does not parse"
	}
	g, err := c13ParseDoc(mu.Src)
	if err != nil {
		return "re-laid-out mutant does not parse: " + err.Error()
	}
	if c13CanonString(a) != c13CanonString(g) {
		return "re-laid-out mutant is another document"
	}
	if mu.KeyPos.Line != strings.Count(mu.Src, "\n")+1 {
		return "the inserted key is not on the last line"
	}
	found := false
	var walk func(n *yaml.Node)
	walk = func(n *yaml.Node) {
		if n.Line == mu.NodePos.Line && n.Column == mu.NodePos.Col && (n.Kind == yaml.ScalarNode || n.Kind == yaml.AliasNode) {
			found = true
		}
		for _, ch := range n.Content {
			walk(ch)
		}
	}
	if gm := c13At(g, mn.Idx); gm != nil {
		walk(gm)
	}
	if !found {
		return "inserted key moved"
	}
	return ""
}

// c13LayoutDiags lints the base itself in the given layout (cached per base; a base is used by one case only).
func (b *c13Base) c13LayoutDiags(layout string) ([]Diag, error) {
	if ds, ok := b.layoutDiags[layout]; ok {
		return ds, nil
	}
	ds, err := lintSrc(c13ApplyLayout(b.Src, layout))
	if err != nil {
		return nil, err
	}
	if b.layoutDiags == nil {
		b.layoutDiags = map[string][]Diag{}
	}
	b.layoutDiags[layout] = ds
	return ds, nil
}

// c13EndsAtEOF: is the last line of the mapping the last non-blank line of the file?
func (b *c13Base) c13EndsAtEOF(m *yaml.Node) bool {
	col, ok := b.c13Editable(m)
	if !ok {
		return false
	}
	end := b.c13EndLine(col, m.Content[len(m.Content)-2].Line)
	for j := end; j < len(b.Lines); j++ {
		if !c13Blank(b.Lines[j]) {
			return false
		}
	}
	return true
}

// c13Delete removes the i-th key (with its value) of the mapping at mn.
func (b *c13Base) c13Delete(mn *c13MapNode, i int) *c13Mutant {
	m := c13At(b.Doc, mn.Idx)
	col, ok := b.c13Editable(m)
	if !ok {
		return &c13Mutant{Problem: "mapping is not in one-key-per-line block style"}
	}
	n := len(m.Content) / 2
	if n < 2 {
		return &c13Mutant{Problem: "only key of the mapping"}
	}
	from := m.Content[2*i].Line
	var to int // last removed line
	if i+1 < n {
		to = m.Content[2*(i+1)].Line - 1
	} else {
		to = b.c13EndLine(col, from)
	}
	lines := append([]string{}, b.Lines...)
	if i == 0 {
		prefix := lines[from-1][:col-1]
		nl := lines[to] // line of the next key (to+1, 0-based index to)
		lines[to] = prefix + nl[col-1:]
	}
	res := append([]string{}, lines[:from-1]...)
	res = append(res, lines[to:]...)
	mu := &c13Mutant{Src: strings.Join(res, "\n"), At: from, Shift: -(to - from + 1)}
	want := c13Clone(b.Doc)
	wm := c13At(want, mn.Idx)
	cont := append([]*yaml.Node{}, wm.Content[:2*i]...)
	cont = append(cont, wm.Content[2*i+2:]...)
	wm.Content = cont
	b.c13SelfCheck(mu, want, mn, -1)
	return mu
}

// c13SelfCheck re-parses the mutant and compares it with the intended tree; it also verifies the
// predicted position of the inserted key (keyIdx >= 0) and records the position of the mapping.
func (b *c13Base) c13SelfCheck(mu *c13Mutant, want *yaml.Node, mn *c13MapNode, keyIdx int) {
	got, err := c13ParseDoc(mu.Src)
	if err != nil {
		mu.Problem = "mutant does not parse: " + err.Error()
		return
	}
	if c13CanonString(got) != c13CanonString(want) {
		mu.Problem = "mutant tree differs from the intended tree"
		return
	}
	gm := c13At(got, mn.Idx)
	if gm == nil || gm.Kind != yaml.MappingNode {
		mu.Problem = "mutated mapping not found"
		return
	}
	mu.MapPos = Pos{gm.Line, gm.Column}
	if keyIdx >= 0 {
		k := gm.Content[keyIdx]
		if k.Line != mu.NodePos.Line || k.Column != mu.NodePos.Col {
			mu.Problem = fmt.Sprintf("inserted key expected at %d:%d but parsed at %d:%d", mu.NodePos.Line, mu.NodePos.Col, k.Line, k.Column)
		}
	}
}

// ---------------------------------------------------------------------------
// diagnostic comparison

// c13NamesWord reports whether msg contains word as a word of its own (not as a part of a longer
// identifier such as "runs-on").
func c13NamesWord(msg, word string) bool {
	isIdent := func(b byte) bool {
		return b >= 'a' && b <= 'z' || b >= 'A' && b <= 'Z' || b >= '0' && b <= '9' || b == '_' || b == '-'
	}
	lm, lw := strings.ToLower(msg), strings.ToLower(word)
	for from := 0; ; {
		i := strings.Index(lm[from:], lw)
		if i < 0 {
			return false
		}
		i += from
		j := i + len(lw)
		if (i == 0 || !isIdent(lm[i-1])) && (j == len(lm) || !isIdent(lm[j])) {
			return true
		}
		from = i + 1
	}
}

var c13DupRe = regexp.MustCompile(`(?i)duplicat|repeat|more than once|already|twice`)
var c13MissingRe = regexp.MustCompile(`(?i)\b(missing|required|must)\b`)
var c13PosInMsgRe = regexp.MustCompile(`line:\d+,col:\d+`)

func c13NormMsg(s string) string {
	if !strings.Contains(s, "line:") {
		return s
	}
	return c13PosInMsgRe.ReplaceAllString(s, "line:_,col:_")
}

// c13Diff maps the base diagnostics into the mutant (lines >= at are shifted) and returns the base
// diagnostics that are absent from the mutant and the diagnostics of the mutant that are new.
func c13Diff(base, got []Diag, mu *c13Mutant, firstKeyCol int) (lost, fresh []Diag) {
	type key struct {
		line, col int
		kind, msg string
	}
	avail := make(map[key][]int, len(got)) // indices into got, in order
	for i, g := range got {
		k := key{g.Line, g.Col, g.Kind, c13NormMsg(g.Msg)}
		avail[k] = append(avail[k], i)
	}
	used := make([]bool, len(got))
	find := func(line, col int, kind, msg string) bool {
		k := key{line, col, kind, msg}
		l := avail[k]
		if len(l) == 0 {
			return false
		}
		used[l[0]] = true
		avail[k] = l[1:]
		return true
	}
	for _, d := range base {
		line, dcol := d.Line, d.Col
		if line >= mu.At {
			line += mu.Shift
		}
		if d.Line == mu.ColLine && d.Col >= mu.ColFrom {
			dcol += mu.ColShift
		}
		msg := c13NormMsg(d.Msg)
		if find(line, dcol, d.Kind, msg) {
			continue
		}
		// a key put in front of the first key takes over the position of the mapping itself
		if mu.First && d.Line == mu.At && d.Col == firstKeyCol && find(d.Line, d.Col, d.Kind, msg) {
			continue
		}
		lost = append(lost, d)
	}
	for i, g := range got {
		if !used[i] {
			fresh = append(fresh, g)
		}
	}
	return
}

// ---------------------------------------------------------------------------
// mutation plans

type c13Op struct {
	Kind    string // "foreign" | "dup" | "dup-case" | "case-foreign" | "delete"
	Pos     int    // insertion index / index of the deleted key
	Key     string
	ValKind int
	Orig    int // index of the original key for duplicates
	Mand    *c13Mand
	Form    string // how the inserted key is written (c13Form...)
	Layout  string // file layout of the mutant ("" = as the base: LF, final line break)
	Near    string // near-miss class of a foreign key derived from the accepted keys ("" = not a near miss)
}

func c13CaseVariants(k string) []string {
	seen := map[string]bool{k: true}
	var out []string
	add := func(s string) {
		if !seen[s] {
			seen[s] = true
			out = append(out, s)
		}
	}
	add(strings.ToUpper(k))
	add(strings.ToLower(k))
	if len(k) > 0 {
		add(strings.ToUpper(k[:1]) + strings.ToLower(k[1:]))
		// flip the last letter
		bs := []byte(k)
		for i := len(bs) - 1; i >= 0; i-- {
			c := bs[i]
			if c >= 'a' && c <= 'z' {
				bs[i] = c - 32
				break
			}
			if c >= 'A' && c <= 'Z' {
				bs[i] = c + 32
				break
			}
		}
		add(string(bs))
	}
	return out
}

func c13Has(xs []string, s string) bool {
	for _, x := range xs {
		if x == s {
			return true
		}
	}
	return false
}

// c13ForeignPool: keys that are valid somewhere in the workflow syntax; a section's foreign keys are
// those that it does not accept.
func c13ForeignPool() []string {
	seen := map[string]bool{}
	var out []string
	for _, s := range c13Sections {
		if s.Name == "on" {
			continue
		}
		for _, k := range s.Keys {
			if !seen[k] {
				seen[k] = true
				out = append(out, k)
			}
		}
	}
	sort.Strings(out)
	return out
}

const c13Synthetic = "c13-foreign"

// c13Plan enumerates the mutations of one mapping node. level 0 = quick plan, 1 = thorough plan.
func (b *c13Base) c13Plan(mn *c13MapNode, level int, rnd *Rand, pool []string) []c13Op {
	m := c13At(b.Doc, mn.Idx)
	n := len(m.Content) / 2
	keys := make([]string, n)
	for i := range keys {
		keys[i] = m.Content[2*i].Value
	}
	sec := mn.Sec
	var ops []c13Op
	if !sec.Free {
		var cand []string
		if !sec.SynthOnly {
			for _, k := range pool {
				if !c13Has(sec.Keys, k) && !c13Has(keys, k) {
					cand = append(cand, k)
				}
			}
		}
		for p := 0; p <= n; p++ {
			ops = append(ops, c13Op{Kind: "foreign", Pos: p, Key: c13Synthetic, ValKind: c13ValScalar})
			if level == 0 {
				if len(cand) > 0 {
					ops = append(ops, c13Op{Kind: "foreign", Pos: p, Key: rnd.Pick(cand), ValKind: rnd.Intn(c13ValKinds)})
				}
				ops = append(ops, c13Op{Kind: "foreign", Pos: p, Key: "C13 Foreign", ValKind: 1 + rnd.Intn(c13ValKinds-1)})
			} else {
				for vk := 1; vk < c13ValKinds; vk++ {
					ops = append(ops, c13Op{Kind: "foreign", Pos: p, Key: c13Synthetic, ValKind: vk})
				}
				for t := 0; t < 3 && len(cand) > 0; t++ {
					ops = append(ops, c13Op{Kind: "foreign", Pos: p, Key: rnd.Pick(cand), ValKind: rnd.Intn(c13ValKinds)})
				}
				ops = append(ops, c13Op{Kind: "foreign", Pos: p, Key: "C13 Foreign", ValKind: rnd.Intn(c13ValKinds)})
			}
		}
	}
	for i, k := range keys {
		dupOfEarlier := false
		for j := 0; j < i; j++ {
			if keys[j] == k || (sec.Free && strings.EqualFold(keys[j], k)) {
				dupOfEarlier = true
			}
		}
		if dupOfEarlier {
			continue // base already contains a repetition of this key; positions would be ambiguous
		}
		// same spelling, after the original: directly behind it and at the end (thorough: everywhere behind)
		var poss []int
		if level == 0 {
			poss = []int{i + 1}
			if n != i+1 {
				poss = append(poss, n)
			}
		} else {
			for p := i + 1; p <= n; p++ {
				poss = append(poss, p)
			}
		}
		for _, p := range poss {
			vk := c13ValScalar
			if level > 0 || p == n {
				vk = rnd.Intn(c13ValKinds)
			}
			ops = append(ops, c13Op{Kind: "dup", Pos: p, Key: k, ValKind: vk, Orig: i})
		}
		for vi, v := range c13CaseVariants(k) {
			if c13Has(keys, v) {
				continue
			}
			if sec.Free {
				for _, p := range poss {
					if level == 0 && vi > 0 && p != poss[rnd.Intn(len(poss))] {
						continue
					}
					ops = append(ops, c13Op{Kind: "dup-case", Pos: p, Key: v, ValKind: rnd.Intn(c13ValKinds), Orig: i})
				}
			} else if !c13Has(sec.Keys, v) && sec.Name != "on" {
				// a fixed key in another letter case is a key outside the set (or, if the section were
				// case-insensitive, a repetition): either way it has to be reported at that key
				ps := []int{i, i + 1}
				if level > 0 {
					ps = []int{0, i, i + 1, n}
				} else if vi > 0 {
					ps = []int{i + rnd.Intn(2)}
				}
				for _, p := range ps {
					ops = append(ops, c13Op{Kind: "case-foreign", Pos: p, Key: v, ValKind: rnd.Intn(c13ValKinds), Orig: i})
				}
			}
		}
	}
	for mi := range sec.Mand {
		if m.Style&yaml.FlowStyle != 0 {
			break // removal is implemented for block mappings only
		}
		md := &sec.Mand[mi]
		cnt, at := 0, -1
		for i, k := range keys {
			if k == md.Key {
				cnt++
				at = i
			}
		}
		if cnt != 1 || n < 2 {
			continue
		}
		skip := false
		for _, u := range md.Unless {
			if c13Has(keys, u) {
				skip = true
			}
		}
		if skip {
			continue
		}
		ops = append(ops, c13Op{Kind: "delete", Pos: at, Key: md.Key, Mand: md})
	}
	return ops
}

func c13PosClass(p, n int) string {
	switch {
	case p == 0:
		return "first"
	case p >= n:
		return "last"
	}
	return "middle"
}

// c13Apply executes one mutation and applies the oracle. It returns false if the mutation could not be
// expressed at text level (counted, not judged).
func c13Apply(c *Case, b *c13Base, mn *c13MapNode, op c13Op, strictSelfCheck bool, sample *bool) bool {
	m := c13At(b.Doc, mn.Idx)
	n := len(m.Content) / 2
	sec := mn.Sec
	var mu *c13Mutant
	if op.Kind == "delete" {
		mu = b.c13Delete(mn, op.Pos)
	} else {
		mu = b.c13Insert(mn, op.Pos, op.Key, op.ValKind, op.Form)
	}
	if mu.Problem != "" {
		c.Count("mutations_not_expressible", 1)
		if strictSelfCheck {
			c.SetAdd("selfcheck_failures", fmt.Sprintf("%s %s %s@%d %q: %s", b.ID, sec.Name, op.Kind, op.Pos, op.Key, mu.Problem))
		}
		return false
	}
	baseDiags := b.Diags
	if op.Layout != "" {
		// the same mutant in another file layout (no final line break, CRLF); the key has to be on the last line
		lf := mu.Src
		mu.Src = c13ApplyLayout(lf, op.Layout)
		if prob := c13LayoutCheck(lf, mu, mn); prob != "" {
			c.Count("mutations_not_expressible", 1)
			if strictSelfCheck {
				c.SetAdd("selfcheck_failures", fmt.Sprintf("%s %s %s@%d %q layout %s: %s", b.ID, sec.Name, op.Kind, op.Pos, op.Key, op.Layout, prob))
			}
			return false
		}
		var lerr error
		if baseDiags, lerr = b.c13LayoutDiags(op.Layout); lerr != nil {
			c.Count("mutations_not_expressible", 1)
			return false
		}
	}
	got, err := lintSrc(mu.Src)
	c.Eval(1)
	c.Count("mutants_"+op.Kind, 1)
	detail := func(extra map[string]interface{}) map[string]interface{} {
		d := map[string]interface{}{
			"base": b.ID, "section": sec.Name, "path": strings.Join(mn.Path, " / "), "mutation": op.Kind, "key": op.Key,
			"position_index": op.Pos, "value_kind": c13ValNames[op.ValKind], "key_form": op.Form, "layout": op.Layout, "base_src": b.Src, "src": mu.Src,
			"base_diags": diagStrings(baseDiags), "diags": diagStrings(got),
		}
		for k, v := range extra {
			d[k] = v
		}
		return d
	}
	c.Logf("--- %s: %s key=%q form=%q as key #%d value=%s in section %s at %s (changed line %d, %+d lines)", b.ID, op.Kind, op.Key, op.Form, op.Pos, c13ValNames[op.ValKind], sec.Name, strings.Join(mn.Path, "/"), mu.At, mu.Shift)
	disagree := func(sig, what string, det map[string]interface{}) {
		c.Logf("DISAGREEMENT %s\n  %s\n  mutated workflow:\n%s\n  base diagnostics:\n    %s\n  diagnostics of the mutant:\n    %s", sig, what, mu.Src,
			strings.Join(diagStrings(baseDiags), "\n    "), strings.Join(diagStrings(got), "\n    "))
		c.Violation(sig, what, det)
	}
	if err != nil {
		disagree("C13:fatal-error", "linting a mutated workflow returned a fatal error: "+err.Error(), detail(nil))
		return true
	}
	for _, d := range got {
		if strings.Contains(d.Msg, "could not parse as YAML") {
			c.Count("mutations_not_expressible", 1)
			return false
		}
	}
	col := m.Content[0].Column
	lost, fresh := c13Diff(baseDiags, got, mu, col)

	if op.Kind == "delete" {
		for _, d := range baseDiags {
			if c13NamesWord(d.Msg, op.Mand.Word) && c13MissingRe.MatchString(d.Msg) {
				// the base already carries such a report (e.g. `steps:` without a value): a new one cannot be told apart
				c.Count("deletions_not_judged_base_already_reports_key", 1)
				return true
			}
		}
		ok := false
		for _, d := range fresh {
			if c13NamesWord(d.Msg, op.Mand.Word) && c13MissingRe.MatchString(d.Msg) {
				ok = true
			}
		}
		c.SetAdd("mandatory_deleted", sec.Name+"."+op.Key)
		c.Nontrivial(b.ID + "|" + strings.Join(mn.Path, "/") + "|del|" + op.Key)
		if !ok {
			disagree("C13:missing-key-not-reported:"+sec.Name+"."+op.Key,
				fmt.Sprintf("mandatory key %q removed from %s (%s) but no new diagnostic names %q as missing / required", op.Key, sec.Name, strings.Join(mn.Path, "/"), op.Mand.Word),
				detail(map[string]interface{}{"new_diags": diagStrings(fresh)}))
		}
		return true
	}

	// where the new key has to be reported
	want := mu.KeyPos
	kindClass := "unknown-key"
	if op.Kind == "dup" || op.Kind == "dup-case" {
		kindClass = "duplicate-key"
	}
	atItem := sec.AtItem && kindClass == "unknown-key"
	if atItem {
		want = mu.MapPos
	}
	pc := c13PosClass(op.Pos, n)
	c.SetAdd("covered", sec.Name+":"+op.Kind+":"+pc)
	c.Nontrivial(b.ID + "|" + strings.Join(mn.Path, "/") + "|" + op.Kind + "|" + op.Key + "|" + strconv.Itoa(op.Pos) + "|" + strconv.Itoa(op.ValKind) + "|" + op.Form + "|" + op.Layout)

	// the report has to sit on the key: at its first character for a plain key, inside the key token
	// (behind anchor / tag / `? `) for the other ways of writing a key
	lo, hi := want.Col, want.Col
	if op.Form != c13FormPlain && !atItem {
		hi = mu.KeyHi
	}
	if atItem {
		// "at the item": the item is a mapping; it starts at the first property (&anchor / !tag) of
		// its first key and the text of that key follows. Both ends name the item, so any column
		// from the one to the other is accepted (the statement does not say more).
		if ls := strings.Split(mu.Src, "\n"); want.Line >= 1 && want.Line <= len(ls) {
			rs := []rune(ls[want.Line-1])
			i := want.Col - 1
			for i >= 0 && i < len(rs) && (rs[i] == '&' || rs[i] == '!') {
				for i < len(rs) && rs[i] != ' ' && rs[i] != '\t' {
					i++
				}
				for i < len(rs) && (rs[i] == ' ' || rs[i] == '\t') {
					i++
				}
			}
			if i < len(rs) && i+1 > hi {
				hi = i + 1
			}
		}
	}
	flow := m.Style&yaml.FlowStyle != 0
	formLabel := op.Form
	if formLabel == c13FormPlain && op.ValKind == c13ValAlias {
		formLabel = "alias-value"
	}
	if formLabel != c13FormPlain {
		c.SetAdd("forms_covered", formLabel+":"+c13Group(sec.Name)+":"+kindClass)
	}
	if flow {
		c.SetAdd("forms_covered", "flow:"+c13Group(sec.Name)+":"+kindClass)
	}
	if op.Near != "" {
		c.SetAdd("nearmiss_covered", sec.Name+":"+op.Near)
	}
	if op.Layout != "" {
		fl := formLabel
		if fl == c13FormPlain {
			fl = "plain"
		}
		c.SetAdd("layouts_covered", fl+":"+op.Layout+":"+kindClass)
	}
	reported, namedElsewhere := false, false
	quoted := strconv.Quote(op.Key)
	for _, d := range fresh {
		names := strings.Contains(d.Msg, quoted) || strings.Contains(d.Msg, `"`+op.Key+`"`)
		if d.Line == want.Line && d.Col >= lo && d.Col <= hi {
			switch {
			case op.Form == c13FormAlias:
				// a key written as an alias: the statement only lets us demand some report located at that key
				reported = true
			case kindClass == "duplicate-key":
				// a repetition has to be reported as one, not merely by some diagnostic that sits at the key
				if names && c13DupRe.MatchString(d.Msg) {
					reported = true
				}
			case atItem || names:
				reported = true
			}
		} else if names && (strings.Contains(d.Msg, "unexpected key") || strings.Contains(d.Msg, "duplicated") || strings.Contains(d.Msg, "expected")) {
			namedElsewhere = true
		}
	}
	if op.Kind == "case-foreign" {
		// the keys of fixed sections are case-sensitive: another letter case is another (unknown) key, not a repetition
		for _, d := range fresh {
			if d.Line == mu.KeyPos.Line && d.Col == mu.KeyPos.Col && strings.Contains(d.Msg, quoted) && c13DupRe.MatchString(d.Msg) {
				disagree("C13:case-variant-of-fixed-key-reported-as-duplicate:"+sec.Name,
					fmt.Sprintf("%q next to %q in %s (%s) is reported as a repetition although the keys of this section are case-sensitive: %s", op.Key, m.Content[2*op.Orig].Value, sec.Name, strings.Join(mn.Path, "/"), d.String()),
					detail(map[string]interface{}{"new_diags": diagStrings(fresh)}))
				break
			}
		}
	}
	if !reported {
		sig := "C13:" + kindClass + "-not-reported:" + sec.Name
		what := fmt.Sprintf("%s %q inserted into %s (%s) as key #%d is not reported at %d:%d", kindClass, op.Key, sec.Name, strings.Join(mn.Path, "/"), op.Pos, want.Line, want.Col)
		if namedElsewhere {
			sig = "C13:" + kindClass + "-reported-at-wrong-position:" + sec.Name
		}
		if op.Kind == "dup-case" {
			sig += ":other-letter-case"
		}
		if formLabel != c13FormPlain {
			sig += ":key-form=" + formLabel
			what += " (key form: " + formLabel + ")"
		}
		if flow {
			sig += ":flow-mapping"
		}
		if op.Layout != "" {
			sig += ":layout=" + op.Layout
			what += " (file layout: " + op.Layout + ")"
		}
		if op.Near != "" {
			sig += ":near-miss=" + op.Near
			what += " (near miss of an accepted key: " + op.Near + ")"
		}
		disagree(sig, what, detail(map[string]interface{}{"expected_position": want, "new_diags": diagStrings(fresh)}))
	}
	// siblings: every diagnostic of the base must survive
	inMap := 0
	endLine := m.Line
	if !flow {
		endLine = b.c13EndLine(col, m.Content[2*(n-1)].Line)
	}
	for _, d := range baseDiags {
		if d.Line >= m.Content[0].Line && d.Line <= endLine {
			inMap++
		}
	}
	if inMap > 0 {
		c.SetAdd("sibling_diag_observed", sec.Name+":"+kindClass)
		c.Count("mutants_with_sibling_diagnostics", 1)
	}
	if len(lost) > 0 {
		lostSig := "C13:sibling-diagnostic-lost:" + sec.Name + ":" + kindClass
		if formLabel != c13FormPlain {
			lostSig += ":key-form=" + formLabel
		}
		if flow {
			lostSig += ":flow-mapping"
		}
		if op.Layout != "" {
			lostSig += ":layout=" + op.Layout
		}
		disagree(lostSig,
			fmt.Sprintf("%s %q in %s (%s): %d diagnostic(s) of the base workflow disappeared, first: %s", kindClass, op.Key, sec.Name, strings.Join(mn.Path, "/"), len(lost), lost[0].String()),
			detail(map[string]interface{}{"lost": diagStrings(lost), "new_diags": diagStrings(fresh)}))
	}
	if len(fresh) > 1 {
		c.Count("mutants_with_additional_new_diagnostics", 1)
	}
	if sample != nil && *sample && op.Pos >= 1 && op.Kind != "dup" {
		*sample = false
		c.Sample(map[string]interface{}{"base": b.ID, "section": sec.Name, "mutation": op.Kind, "key": op.Key, "line": mu.KeyPos.Line, "col": mu.KeyPos.Col,
			"new_diags": diagStrings(fresh), "base_diagnostics_kept": len(baseDiags) - len(lost), "base_diagnostics_lost": len(lost)})
	}
	return true
}

// ---------------------------------------------------------------------------
// bases

// c13TemplateBase renders template t with the dirty set chosen by pick.
func c13TemplateBase(t *c13Template, id string, pick func(i int) bool) (*c13Base, c13Rendered, error) {
	rd := c13Render(c13SubstNames(t.Text, nil), pick)
	b, err := c13NewBase("template-"+t.Name+"/"+id, rd.Src)
	return b, rd, err
}

// c13CheckTemplate (family "templates", one case per template) asserts that the clean rendering is
// clean and that every dirty alternative produces a diagnostic on its line; it records which keys of
// which sections the template uses.
func c13CheckTemplate(c *Case, t *c13Template) {
	r := c.Run
	b, _, err := c13TemplateBase(t, "clean", func(int) bool { return false })
	c.Eval(1)
	if err != nil {
		r.Inconclusive("template " + t.Name + " cannot be parsed / linted: " + err.Error())
		return
	}
	type kp struct {
		sec *c13Section
		key string
	}
	at := map[Pos]kp{}
	for i := range b.Nodes {
		mn := &b.Nodes[i]
		m := c13At(b.Doc, mn.Idx)
		c.SetAdd("template_sections", mn.Sec.Name)
		for j := 0; j+1 < len(m.Content); j += 2 {
			k := m.Content[j]
			at[Pos{k.Line, k.Column}] = kp{mn.Sec, k.Value}
			if !mn.Sec.Free {
				c.SetAdd("template_keys", mn.Sec.Name+"."+k.Value)
				if !c13Has(mn.Sec.Keys, k.Value) {
					r.Inconclusive(fmt.Sprintf("template %s uses key %q in section %s which the table does not list", t.Name, k.Value, mn.Sec.Name))
				}
			}
		}
		if _, e := b.c13Editable(m); !e && !b.c13FlowEditable(m) {
			r.Inconclusive(fmt.Sprintf("template %s: mapping %v is not editable at text level", t.Name, mn.Path))
		}
	}
	c.Logf("clean rendering of template %s:\n%s\ndiagnostics: %v", t.Name, b.Src, diagStrings(b.Diags))
	for _, d := range b.Diags {
		if k, found := at[Pos{d.Line, d.Col}]; found && !k.sec.Free && c13Has(k.sec.Keys, k.key) &&
			(strings.Contains(d.Msg, "unexpected key") || strings.Contains(d.Msg, "expected ")) && strings.Contains(d.Msg, `"`+k.key+`"`) {
			c.Violation("C13:accepted-key-rejected:"+k.sec.Name,
				fmt.Sprintf("key %q is part of the syntax of %s but is reported: %s", k.key, k.sec.Name, d.String()),
				map[string]interface{}{"src": b.Src, "diags": diagStrings(b.Diags)})
		} else {
			r.Inconclusive(fmt.Sprintf("clean template %s is not clean: %s", t.Name, d.String()))
		}
	}
	c.Nontrivial("clean-template|" + t.Name)
	// dirty rendering: every alternation must be diagnosed on its own line
	bd, rd, err := c13TemplateBase(t, "dirty", func(int) bool { return true })
	c.Eval(1)
	if err != nil {
		r.Inconclusive("dirty template " + t.Name + " cannot be parsed / linted: " + err.Error())
		return
	}
	lines := map[int]bool{}
	for _, d := range bd.Diags {
		lines[d.Line] = true
	}
	for i, l := range rd.MarkerLine {
		if !lines[l] {
			r.Inconclusive(fmt.Sprintf("dirty template %s: alternation #%d on line %d (%s) produces no diagnostic, sibling suppression would be invisible there",
				t.Name, i, l, strings.TrimSpace(bd.Lines[l-1])))
		}
	}
	c.Count("dirty_alternations", len(rd.MarkerLine))
	c.Count("dirty_template_diagnostics", len(bd.Diags))
}

// ---------------------------------------------------------------------------
// corpus (thorough): workflows shipped with the repository as additional bases

func c13CorpusFiles() []string {
	var out []string
	for _, d := range []string{"testdata/ok", "testdata/examples", "testdata/err"} {
		ms, _ := filepath.Glob(filepath.Join(repoDir(), d, "*.yaml"))
		ms2, _ := filepath.Glob(filepath.Join(repoDir(), d, "*.yml"))
		ms = append(ms, ms2...)
		sort.Strings(ms)
		out = append(out, ms...)
	}
	return out
}

// ---------------------------------------------------------------------------

func runC13(r *Run) {
	r.Rule = "bases: four hand-written templates (together every accepted key of every section of the table) rendered clean, all-dirty (every scalar sibling carries a known diagnostic) and with seeded random dirty subsets (thorough: more subsets and each alternation dirty alone), plus every workflow under testdata/{ok,examples,err} of the repository. " +
		"For every block-style mapping node matching a table row: foreign key (synthetic name, a key valid in another section, a name with a space; scalar/null/mapping/sequence value) at every position; every key repeated behind the original (same spelling; other letter cases: a repetition in case-insensitive name mappings, a foreign key in fixed sections); every mandatory key deleted. " +
		"Family names: a template with every user-named mapping (dispatch/call inputs, call secrets and outputs, env at workflow/job/step/container/service level, jobs, job outputs, matrix rows, row values, include/exclude items, services, step and job with, job secrets) rendered with generated names of class ascii / mixed / nonascii (Latin-1, Greek, Cyrillic letters with one-to-one case pairs, pair table written in the monitor); each name repeated as upper, lower, capitalised, only non-ASCII letters flipped, only ASCII letters flipped, one letter flipped, all flipped, random mixture. " +
		"Families forms-*: in every mapping of every template a foreign key and a repetition written with an anchor, an explicit tag, both, single / double quotes, as explicit `? key`, as an alias of a scalar anchored elsewhere (and of the anchored original key), as merge key `<<: *a`, and with an alias as value; tag before anchor, local tag, verbatim tag and the non-specific tag `!`; every form also as the last key of the mappings that end the file, with the file rewritten without final line break (LF and CRLF); template K adds one-line flow mappings in every section group, keys that already carry properties, and alias-valued siblings. " +
		"Family jobkind: 1, 2 and 3 keys of the other job kind (runs-on, environment, outputs, env, defaults, steps, timeout-minutes, continue-on-error, container in a job with `uses:`; with, secrets in a job without) in every order, before / behind `uses:` resp. `steps:`, in a clean and a dirty base. " +
		"Near misses: in every fixed section foreign keys derived from its accepted keys (suffix -ignore, -ignore-ignore, _ignore, plural / singular, upper case, keys of the sections of the same group), minus those the table lists as legal there. " +
		"Each mutant is re-parsed with yaml.v3 and compared with the intended tree before it is judged. Non-trivial = distinct (base, mapping path, mutation, key, position, value kind)."
	r.Assume("yaml.v3 line/column of a key is the position at which actionlint has to report it (C07 checks positions independently)")
	r.Assume("a diagnostic is identified by (line, column, kind, message with embedded line:N,col:M references blanked); base diagnostics below the mutated line are expected shifted by the number of inserted lines")
	r.Assume("letter-case variants of the keys of fixed sections are keys outside the set (docs/checks.md: key names are case-sensitive); keys of name mappings (jobs, inputs, secrets, outputs, env, with, matrix, services, permissions) are compared case-insensitively")
	r.Assume("for a removed mandatory key only the presence of a new diagnostic naming the key as missing/required is demanded; its position and the fate of other diagnostics are not constrained by the statement")
	r.Assume("not in the compared domain: flow-style mappings and mappings with several keys on one line (not expressible as a line edit, counted), everything below a repeated key (its value is not part of the workflow), a `schedule` value that is not a sequence, removal of a key whose absence the base already reports")
	r.Assume("generated names never contain letters with special case folding (ß, ÿ, µ, İ/ı, ſ, Kelvin/Ångström signs, final sigma, accented Greek, titlecase digraphs): the statement does not say how those compare")
	r.Assume("a letter-case variant of a key of a fixed (case-sensitive) section must be reported as an unknown key and must not be reported as a repetition")
	r.Assume("a key written with an anchor, a tag or `? ` has to be reported inside the key token behind those properties; a key written as an alias only has to receive some diagnostic located at the alias; `<<` is a key outside every fixed key set")
	r.Assume("job kinds: services, strategy, concurrency, permissions, needs, if and name are accepted in both kinds of job (as the unchanged tree does); a key of the other kind is a key outside the set and has to be reported at that key, however many there are")
	r.Assume("additional new diagnostics besides the demanded one are counted, not judged (the statement does not forbid them)")

	pool := c13ForeignPool()
	level := r.Q(0, 1)

	var fams []*Family
	fams = append(fams, &Family{Name: "templates", N: len(c13Templates), Do: func(c *Case) { c13CheckTemplate(c, &c13Templates[c.Idx]) }})
	jkCases := c13JKCases()
	fams = append(fams, &Family{Name: "jobkind", N: len(jkCases), Do: func(c *Case) { c13JobKindCase(c, jkCases[c.Idx], level) }})
	fams = append(fams, &Family{Name: "names", N: r.Q(36, 600), Do: func(c *Case) { c13NamesCase(c, level) }})
	for ti := range c13Templates {
		t := &c13Templates[ti]
		nm := c13CountMarkers(t.Text)
		cleanBase, _, err := c13TemplateBase(t, "clean", func(int) bool { return false })
		if err != nil {
			continue // reported by c13CheckTemplates
		}
		nNodes := len(cleanBase.Nodes)
		type variant struct {
			name string
			n    int // number of bases
			pick func(fam string, b int) func(int) bool
		}
		variants := []variant{
			{"clean", 1, func(string, int) func(int) bool { return func(int) bool { return false } }},
			{"dirty", 1, func(string, int) func(int) bool { return func(int) bool { return true } }},
			{"mixed", r.Q(6, 24), func(fam string, b int) func(int) bool {
				rr := NewRand(r.Seed, "C13", fam, "base").Sub(b)
				bits := make([]bool, nm)
				for i := range bits {
					bits[i] = rr.Bool()
				}
				return func(i int) bool { return bits[i] }
			}},
		}
		if r.Thorough() {
			variants = append(variants, variant{"single", nm, func(fam string, b int) func(int) bool { return func(i int) bool { return i == b } }})
		}
		for _, v := range variants {
			v := v
			fam := "tpl" + t.Name + "-" + v.name
			fams = append(fams, &Family{Name: fam, N: v.n * nNodes, Do: func(c *Case) {
				bi, ni := c.Idx/nNodes, c.Idx%nNodes
				b, _, err := c13TemplateBase(t, fmt.Sprintf("%s-%d", v.name, bi), v.pick(fam, bi))
				if err != nil {
					c.Violation("C13:fatal-error", "a template rendering cannot be linted: "+err.Error(), map[string]interface{}{"template": t.Name})
					return
				}
				if len(b.Nodes) != nNodes {
					c.SetAdd("selfcheck_failures", fmt.Sprintf("%s: %d mapping nodes instead of %d", b.ID, len(b.Nodes), nNodes))
					return
				}
				mn := &b.Nodes[ni]
				lvl := level
				if v.name == "single" {
					lvl = 0
				}
				sample := bi == 0 && ni == int(hashStr(fam)%uint64(nNodes))
				for _, op := range b.c13Plan(mn, lvl, c.R, pool) {
					c13Apply(c, b, mn, op, true, &sample)
				}
			}})
		}
		{
			fam := "forms-" + t.Name
			fams = append(fams, &Family{Name: fam, N: r.Q(2, 6) * nNodes, Do: func(c *Case) {
				bi, ni := c.Idx/nNodes, c.Idx%nNodes
				pick := func(int) bool { return bi == 1 }
				if bi > 1 {
					rr := NewRand(r.Seed, "C13", fam, "base").Sub(bi)
					bits := make([]bool, nm)
					for i := range bits {
						bits[i] = rr.Bool()
					}
					pick = func(i int) bool { return bits[i] }
				}
				b, _, err := c13TemplateBase(t, fmt.Sprintf("forms-%d", bi), pick)
				if err != nil {
					c.Violation("C13:fatal-error", "a template rendering cannot be linted: "+err.Error(), map[string]interface{}{"template": t.Name})
					return
				}
				if len(b.Nodes) != nNodes {
					c.SetAdd("selfcheck_failures", fmt.Sprintf("%s: %d mapping nodes instead of %d", b.ID, len(b.Nodes), nNodes))
					return
				}
				c13FormsNode(c, b, ni, level, pool)
			}})
		}
	}
	{
		files := c13CorpusFiles()
		r.Extra("corpus_files", len(files))
		fams = append(fams, &Family{Name: "corpus", N: len(files), Do: func(c *Case) {
			raw, err := os.ReadFile(files[c.Idx])
			if err != nil {
				c.Count("corpus_unreadable", 1)
				return
			}
			src := strings.ReplaceAll(string(raw), "\r\n", "\n")
			b, err := c13NewBase("corpus/"+filepath.Base(filepath.Dir(files[c.Idx]))+"/"+filepath.Base(files[c.Idx]), src)
			if err != nil {
				c.Count("corpus_skipped_not_single_yaml_document", 1)
				return
			}
			for _, d := range b.Diags {
				if strings.Contains(d.Msg, "could not parse as YAML") {
					c.Count("corpus_skipped_not_single_yaml_document", 1)
					return
				}
			}
			c.Count("corpus_bases", 1)
			for i := range b.Nodes {
				mn := &b.Nodes[i]
				for _, op := range b.c13Plan(mn, level, c.R, pool) {
					c13Apply(c, b, mn, op, false, nil)
				}
			}
		}})
	}
	r.RunFamilies(fams)
	if r.ReplayOf != nil {
		return
	}
	c13NamesFloors(r)
	c13FormsFloors(r)
	c13JobKindFloors(r)
	c13NearMissFloors(r)

	// coverage floors
	if n := r.SetLen("selfcheck_failures"); n > 0 {
		r.Inconclusive(fmt.Sprintf("%d template mutation(s) could not be expressed at text level (see selfcheck_failures)", n))
	}
	for i := range c13Sections {
		s := &c13Sections[i]
		if s.Skip {
			continue
		}
		if !r.SetHas("template_sections", s.Name) {
			r.Inconclusive("no template contains a mapping of section " + s.Name)
		}
		if !s.Free && s.Name != "on" {
			for _, k := range s.Keys {
				if !r.SetHas("template_keys", s.Name+"."+k) {
					r.Inconclusive(fmt.Sprintf("no clean template uses key %q of section %s", k, s.Name))
				}
			}
		}
		if !s.Free {
			for _, pc := range []string{"first", "middle", "last"} {
				if pc == "middle" && len(s.Keys) < 2 {
					continue
				}
				if !r.SetHas("covered", s.Name+":foreign:"+pc) {
					r.Inconclusive("no foreign key was inserted at the " + pc + " position of a " + s.Name + " mapping")
				}
			}
			if !r.SetHas("sibling_diag_observed", s.Name+":unknown-key") {
				r.Inconclusive("no foreign-key mutant of section " + s.Name + " had a sibling carrying a diagnostic")
			}
		} else {
			found := false
			for _, pc := range []string{"middle", "last"} {
				if r.SetHas("covered", s.Name+":dup-case:"+pc) {
					found = true
				}
			}
			if !found {
				r.Inconclusive("no key of name mapping " + s.Name + " was repeated in another letter case")
			}
		}
		found := false
		for _, pc := range []string{"middle", "last"} {
			if r.SetHas("covered", s.Name+":dup:"+pc) {
				found = true
			}
		}
		if !found {
			r.Inconclusive("no key of section " + s.Name + " was repeated")
		}
		if !r.SetHas("sibling_diag_observed", s.Name+":duplicate-key") {
			r.Inconclusive("no duplicate-key mutant of section " + s.Name + " had a sibling carrying a diagnostic")
		}
		for _, md := range s.Mand {
			if !r.SetHas("mandatory_deleted", s.Name+"."+md.Key) {
				r.Inconclusive("mandatory key " + md.Key + " of section " + s.Name + " was never removed")
			}
		}
	}
}
