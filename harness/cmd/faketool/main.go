package main

func main() {}
