// faketool stands in for shellcheck and pyflakes. It reads its whole stdin, logs what it saw and
// behaves as directed by a marker "FT:<spec>" inside the script (spec items separated by ','):
//
//	ok            no issues (default)
//	issues=<k>    print k issues (shellcheck JSON or pyflakes text)
//	exit=<code>   exit with the status without printing anything
//	kill          kill itself with SIGKILL
//	killout       print one well-formed issue (flushed), then kill itself with SIGKILL
//	garbage       print text that is not the tool's output format
//	trailing      print well-formed output followed by text that is not part of the format
//	empty         exit 0 without printing anything (not even shellcheck's "[]")
//	slow=<ms>     sleep before answering
//	noread        exit(0) without reading stdin (shellcheck prints "[]")
//	msg=<k>       the issues (at least one) carry entry k (modulo the table size) of nastyMessages
//	              instead of "fake issue": line breaks, control characters, ANSI escapes, ...
//	              (shellcheck: JSON-escaped inside "message"; pyflakes: written raw into the line)
//
// Log (FAKETOOL_LOG, O_APPEND, one write per record):
//
//	start <pid> <mode> <unixnano>
//	stdin <pid> <sha1> <len> <file with a copy, if FAKETOOL_DIR is set>
//	end   <pid> <unixnano> <behaviour>
package main

import (
	"crypto/sha1"
	"fmt"
	"io"
	"os"
	"path/filepath"
	"regexp"
	"strconv"
	"strings"
	"syscall"
	"time"
)

var logf *os.File

func logRec(format string, args ...interface{}) {
	if logf == nil {
		return
	}
	logf.WriteString(fmt.Sprintf(format, args...) + "\n")
}

// nastyMessages is the table selected by msg=<k> (used by C16). Entries are only ever appended.
var nastyMessages = []string{
	"plain message",
	"line\nfeed",
	"carriage\rreturn",
	"cr\r\nlf",
	"nul\x00byte",
	"\x1b[31mred\x1b[0m",
	"next\u0085line",
	"line\u2028separator",
	":1:2: x [y]",
	"%s %d %!v %",
	"long " + strings.Repeat("x", 70000),
	"invalid\xffutf8\xc3",
	"json \" quote \\ backslash \\n \\u0041 / \b \f",
	"ends with line feed\n",
	"ends with escape \x1b[0m",
	"tab\there",
	" [x]",
	"<stdin>:9:9: nested header",
	"vt\vff\fbel\adel\x7f",
	"日本語 ａｂ 🙂 é",
	"\n",
	"w.yml:3:4: m [kind]\r",
}

// jsonString encodes s as a JSON string; bytes >= 0x80 (also invalid UTF-8) are written as they are.
func jsonString(s string) string {
	var b strings.Builder
	b.WriteByte('"')
	for i := 0; i < len(s); i++ {
		c := s[i]
		switch {
		case c == '"':
			b.WriteString(`\"`)
		case c == '\\':
			b.WriteString(`\\`)
		case c < 0x20:
			fmt.Fprintf(&b, `\u%04x`, c)
		default:
			b.WriteByte(c)
		}
	}
	b.WriteByte('"')
	return b.String()
}

var markRe = regexp.MustCompile(`FT:([a-z0-9=,]+)`)

func main() {
	if p := os.Getenv("FAKETOOL_LOG"); p != "" {
		logf, _ = os.OpenFile(p, os.O_CREATE|os.O_WRONLY|os.O_APPEND, 0o644)
	}
	mode := "pyflakes"
	shell := "-"
	for i, a := range os.Args {
		if a == "-f" && i+1 < len(os.Args) && os.Args[i+1] == "json" {
			mode = "shellcheck"
		}
		if a == "--shell" && i+1 < len(os.Args) {
			shell = os.Args[i+1]
		}
	}
	pid := os.Getpid()
	logRec("start %d %s %d %s", pid, mode, time.Now().UnixNano(), strings.Join(os.Args[1:], " "))
	if os.Getenv("FAKETOOL_NOREAD") == "1" {
		if mode == "shellcheck" {
			fmt.Print("[]")
		}
		logRec("end %d %d noread", pid, time.Now().UnixNano())
		return
	}
	in, _ := io.ReadAll(os.Stdin)
	sum := sha1.Sum(in)
	copyPath := "-"
	if d := os.Getenv("FAKETOOL_DIR"); d != "" {
		copyPath = filepath.Join(d, fmt.Sprintf("%d.stdin", pid))
		os.WriteFile(copyPath, in, 0o644)
	}
	logRec("stdin %d %x %d %s", pid, sum, len(in), copyPath)

	spec := "ok"
	if m := markRe.FindSubmatch(in); m != nil {
		spec = string(m[1])
	}
	issues, exit, kill, garbage, killout, trailing, empty := 0, 0, false, false, false, false, false
	msg := -1
	for _, it := range strings.Split(spec, ",") {
		kv := strings.SplitN(it, "=", 2)
		val := 0
		if len(kv) == 2 {
			val, _ = strconv.Atoi(kv[1])
		}
		switch kv[0] {
		case "issues":
			issues = val
		case "msg":
			if val >= 0 {
				msg = val % len(nastyMessages)
			}
		case "exit":
			exit = val
		case "kill":
			kill = true
		case "killout":
			killout = true
		case "garbage":
			garbage = true
		case "trailing":
			trailing = true
		case "empty":
			empty = true
		case "slow":
			time.Sleep(time.Duration(val) * time.Millisecond)
		}
	}
	if msg >= 0 && issues == 0 {
		issues = 1
	}
	logRec("end %d %d %s", pid, time.Now().UnixNano(), spec)
	switch {
	case killout:
		if mode == "shellcheck" {
			os.Stdout.WriteString(`[{"file":"-","line":2,"endLine":2,"column":1,"endColumn":3,"level":"warning","code":2000,"message":"fake issue before being killed.","fix":null}]`)
		} else {
			os.Stdout.WriteString("<stdin>:1:1: fake issue before being killed\n")
		}
		os.Stdout.Sync()
		syscall.Kill(pid, syscall.SIGKILL)
		time.Sleep(time.Second)
	case kill:
		syscall.Kill(pid, syscall.SIGKILL)
		time.Sleep(time.Second)
	case exit != 0:
		os.Exit(exit)
	case empty:
		os.Exit(0)
	case garbage:
		fmt.Print("this is not the output format <<<\n")
		if mode == "shellcheck" {
			os.Exit(0)
		}
	case mode == "shellcheck":
		var sb strings.Builder
		sb.WriteString("[")
		for i := 0; i < issues; i++ {
			if i > 0 {
				sb.WriteString(",")
			}
			if msg >= 0 {
				fmt.Fprintf(&sb, `{"file":"-","line":%d,"endLine":%d,"column":%d,"endColumn":%d,"level":"warning","code":%d,"message":%s,"fix":null}`, i+2, i+2, i+1, i+3, 2000+i, jsonString(nastyMessages[msg]))
				continue
			}
			fmt.Fprintf(&sb, `{"file":"-","line":%d,"endLine":%d,"column":%d,"endColumn":%d,"level":"warning","code":%d,"message":"fake issue %d (shell=%s).","fix":null}`, i+2, i+2, i+1, i+3, 2000+i, i, shell)
		}
		sb.WriteString("]")
		fmt.Print(sb.String())
		if trailing {
			fmt.Print("\nshellcheck: internal error: this line is not part of the JSON output\n")
		}
		if issues > 0 {
			os.Exit(1)
		}
	default: // pyflakes
		for i := 0; i < issues; i++ {
			if msg >= 0 {
				fmt.Printf("<stdin>:%d:%d: %s\n", i+1, i+1, nastyMessages[msg])
				continue
			}
			fmt.Printf("<stdin>:%d:%d: fake issue %d\n", i+1, i+1, i)
		}
		if issues > 0 {
			os.Exit(1)
		}
	}
}
